(* C05 plumbing: MarshalTo's only error is a missing required field, and it never panics while building
   the encoder program: the outcome of [gen_ops] is decided by [requireds_set]. *)
From CsProto Require Import Prelude Varint ZigZag Codec RefWire WireStmts Schema GenMarshal RefMsg GenStmts GenPBase.

(* ---------- the trichotomy relation ---------- *)
Definition tri (o : outcome (list gop)) (b : bool) : Prop :=
  match o with Ok _ => b = true | Err => b = false | Panic => False end.

Lemma tri_bind o (f : list gop -> outcome (list gop)) b1 b2 :
  tri o b1 -> (forall a, tri (f a) b2) -> tri (obind o f) (b1 && b2).
Proof.
  destruct o as [a| |]; cbn [tri obind]; intros H1 H2.
  - subst b1. cbn [andb]. apply H2.
  - subst b1. reflexivity.
  - contradiction.
Qed.

Lemma tri_eq o b b' : tri o b -> b = b' -> tri o b'.
Proof. intros H <-. exact H. Qed.

Lemma tri_concat {A} (f : A -> outcome (list gop)) (g : A -> bool) l :
  (forall x, In x l -> tri (f x) (g x)) -> tri (concat_ops f l) (forallb g l).
Proof.
  induction l as [|x r IHl]; intros H; cbn [concat_ops forallb].
  - reflexivity.
  - apply tri_bind.
    + apply H. left. reflexivity.
    + intros a. rewrite <- (andb_true_r (forallb g r)). apply tri_bind.
      * apply IHl. intros y Hy. apply H. right. exact Hy.
      * intros b. reflexivity.
Qed.

(* ---------- list / bool plumbing ---------- *)
Lemma forallb_andb {A} (p q : A -> bool) l :
  forallb (fun x => p x && q x) l = forallb p l && forallb q l.
Proof.
  induction l as [|x r IHl]; cbn [forallb]; [reflexivity|].
  rewrite IHl. destruct (p x), (q x), (forallb p r), (forallb q r); reflexivity.
Qed.

Lemma forallb_ext_in {A} (p q : A -> bool) l :
  (forall x, In x l -> p x = q x) -> forallb p l = forallb q l.
Proof.
  induction l as [|x r IHl]; intros H; cbn [forallb]; [reflexivity|].
  rewrite (H x) by (left; reflexivity). rewrite IHl; [reflexivity|].
  intros y Hy. apply H. right. exact Hy.
Qed.

Lemma forallb_const_true {A} (p : A -> bool) l : (forall x, p x = true) -> forallb p l = true.
Proof. intros H. apply forallb_forall. intros x _. apply H. Qed.

Lemma len_le1_In {A} (x : A) l : (length l <= 1)%nat -> In x l -> l = [x].
Proof.
  destruct l as [|y [|z r]]; cbn [length In]; intros Hl Hin.
  - contradiction.
  - destruct Hin as [->|[]]. reflexivity.
  - lia.
Qed.

Lemma le_fold_max g l : In g l -> (g <= fold_right Nat.max O l)%nat.
Proof.
  induction l as [|x r IHl]; cbn [In fold_right]; intros Hin.
  - contradiction.
  - destruct Hin as [->|Hin]; [lia|]. specialize (IHl Hin). lia.
Qed.

(* ---------- oneof selection ---------- *)
Definition gsel (fs : list (N * gval)) (g : nat) (f : fdesc) : bool :=
  in_group g f && negb (match lookup_field (fnum f) fs with GAbsent => true | _ => false end).

Lemma group_member_eq md fs g :
  group_member md fs g =
  match filter (gsel fs g) (mfields md) with
  | f :: _ => Some (f, lookup_field (fnum f) fs)
  | [] => None
  end.
Proof. reflexivity. Qed.

Lemma groups_ok_In md fs g :
  groups_ok md fs = true -> In g (oneof_groups md) -> (length (filter (gsel fs g) (mfields md)) <= 1)%nat.
Proof.
  unfold groups_ok. rewrite forallb_forall. intros H Hin. specialize (H g Hin).
  apply Nat.leb_le in H. exact H.
Qed.

Lemma gsel_true fs g f :
  gsel fs g f = true <-> fcard_ f = COneof g /\ lookup_field (fnum f) fs <> GAbsent.
Proof.
  unfold gsel, in_group. split.
  - intros H. apply andb_true_iff in H. destruct H as [H1 H2]. split.
    + destruct (fcard_ f); try discriminate. apply Nat.eqb_eq in H1. subst. reflexivity.
    + intros He. rewrite He in H2. discriminate.
  - intros [H1 H2]. rewrite H1, Nat.eqb_refl. cbn [andb].
    destruct (lookup_field (fnum f) fs); [congruence|reflexivity..].
Qed.

Lemma oneof_group_in md f g : In f (mfields md) -> fcard_ f = COneof g -> In g (oneof_groups md).
Proof.
  intros Hin Hc. unfold oneof_groups.
  set (gs := flat_map (fun f => match fcard_ f with COneof g => [g] | _ => [] end) (mfields md)).
  assert (Hg : In g gs).
  { unfold gs. apply in_flat_map. exists f. split; [exact Hin|]. rewrite Hc. left. reflexivity. }
  pose proof (le_fold_max g gs Hg) as Hle.
  destruct gs as [|g0 gr] eqn:Hgs; [contradiction|].
  apply in_seq. lia.
Qed.

(* ---------- one level of the interpreter, sub-messages abstract ---------- *)
Section Step.
Variable size_msg : nat -> gval -> nat.
Variable ops_msg : nat -> gval -> outcome (list gop).
Variable msg_ok : nat -> gval -> bool.
Variable sub_ok : nat -> gval -> bool.
Hypothesis IH : forall ty v, msg_ok ty v = true -> tri (ops_msg ty v) (sub_ok ty v).

Definition subk (k : fkind) (x : gval) : bool := match k with FMsg t => sub_ok t x | _ => true end.

Definition vclause (fd : fdesc) (x : gval) : bool :=
  match fcard_ fd, x with
  | _, GAbsent => true
  | (CPacked | CUnpacked), GList l => forallb (subk (fkind_ fd)) l
  | CMap _ vk, GMap kvs => forallb (fun '(_, y) => subk vk y) kvs
  | _, _ => subk (fkind_ fd) x
  end.

Definition reqc (fd : fdesc) (x : gval) : bool :=
  match fcard_ fd with
  | CRequired => negb (match x with GAbsent => true | _ => false end)
  | _ => true
  end.

Definition gclause (md : mdesc) (fs : list (N * gval)) (g : nat) : bool :=
  match group_member md fs g with Some (f, v) => subk (fkind_ f) v | None => true end.

Lemma elem_ops_tri tag k v :
  elem_ok msg_ok k v = true -> tri (elem_ops size_msg ops_msg tag k v) (subk k v).
Proof.
  intros Hok. destruct k as [s| | | |ty].
  5:{ apply elem_ok_msg_inv in Hok. specialize (IH _ _ Hok).
      unfold elem_ops. cbn [subk]. destruct (ops_msg ty v) as [a| |]; cbn [obind tri] in *; auto. }
  all: destruct v; cbn [elem_ops is_num_kind subk tri]; reflexivity.
Qed.

Lemma elem_ops_nonmsg tag k v :
  (match k with FMsg _ => false | _ => true end) = true ->
  tri (elem_ops size_msg ops_msg tag k v) true.
Proof.
  intros Hk. destruct k as [s| | | |ty]; [| | | |discriminate].
  all: destruct v; cbn [elem_ops is_num_kind tri]; reflexivity.
Qed.

Lemma subk_nonmsg k v : (match k with FMsg _ => false | _ => true end) = true -> subk k v = true.
Proof. destruct k; cbn [subk]; intros H; [reflexivity..|discriminate]. Qed.

Lemma elem_ok_nonmsg_sub k v :
  elem_ok msg_ok k v = true -> (match v with GMsg _ _ => false | _ => true end) = true -> subk k v = true.
Proof.
  intros H1 H2. destruct k as [s| | | |ty]; try reflexivity.
  destruct v; cbn [elem_ok] in H1; discriminate.
Qed.

Lemma num_kind_nonmsg k s : is_num_kind k = Some s -> (match k with FMsg _ => false | _ => true end) = true.
Proof. destruct k; cbn [is_num_kind]; intros H; try reflexivity; discriminate. Qed.

Lemma key_kind_nonmsg k : key_kind_ok k = true -> (match k with FMsg _ => false | _ => true end) = true.
Proof. destruct k; cbn [key_kind_ok]; intros H; try reflexivity; discriminate. Qed.

Lemma field_ops_tri sc md f v :
  field_ok sc md f = true -> field_value_ok msg_ok f v = true ->
  tri (field_ops size_msg ops_msg f v) (reqc f v && (if is_oneof_member f then true else vclause f v)).
Proof.
  intros Hf Hv. apply field_ok_card in Hf.
  unfold field_ops, reqc, is_oneof_member, vclause, field_value_ok, present in *.
  destruct (fcard_ f) as [| | | | |g|kk vk] eqn:Hc.
  - (* implicit *)
    destruct v as [|z|b|l|kvs|ms mu]; cbn [andb negb].
    + reflexivity.
    + destruct (negb (zero_like (fkind_ f) z)).
      * apply elem_ops_tri. exact Hv.
      * apply (elem_ok_nonmsg_sub _ _ Hv). reflexivity.
    + destruct b as [|b0 br].
      * apply (elem_ok_nonmsg_sub _ _ Hv). reflexivity.
      * apply elem_ops_tri. exact Hv.
    + apply elem_ops_tri. exact Hv.
    + apply elem_ops_tri. exact Hv.
    + apply elem_ops_tri. exact Hv.
  - (* optional *)
    destruct v as [|z|b|l|kvs|ms mu]; cbn [andb negb]; try (apply elem_ops_tri; exact Hv). reflexivity.
  - (* required *)
    destruct v as [|z|b|l|kvs|ms mu]; cbn [andb negb]; try (apply elem_ops_tri; exact Hv). reflexivity.
  - (* packed *)
    destruct Hf as [s Hs]. rewrite Hs.
    assert (Hall : forall l, forallb (subk (fkind_ f)) l = true).
    { intros l. apply forallb_const_true. intros x. apply subk_nonmsg. eapply num_kind_nonmsg. exact Hs. }
    destruct v as [|z|b|l|kvs|ms mu]; cbn [andb list_of]; try discriminate.
    + reflexivity.
    + rewrite Hall. destruct l; reflexivity.
  - (* unpacked *)
    destruct v as [|z|b|l|kvs|ms mu]; cbn [andb list_of]; try discriminate.
    + reflexivity.
    + apply tri_concat. intros x Hx. apply elem_ops_tri.
      rewrite forallb_forall in Hv. apply Hv. exact Hx.
  - (* oneof *) reflexivity.
  - (* map *)
    destruct Hf as [Hkk _].
    destruct v as [|z|b|l|kvs|ms mu]; cbn [andb map_of]; try discriminate.
    + reflexivity.
    + apply andb_true_iff in Hv. destruct Hv as [Hv _]. rewrite forallb_forall in Hv.
      apply tri_concat. intros [k x] Hx. specialize (Hv _ Hx). cbv beta iota in Hv.
      apply andb_true_iff in Hv. destruct Hv as [_ Hvx].
      pose proof (elem_ops_nonmsg 1%N kk k (key_kind_nonmsg _ Hkk)) as Tk.
      pose proof (elem_ops_tri 2%N vk x Hvx) as Tv.
      destruct (elem_ops size_msg ops_msg 1%N kk k) as [ko| |]; cbn [tri obind] in *; try discriminate; try contradiction.
      destruct (elem_ops size_msg ops_msg 2%N vk x) as [vo| |]; cbn [tri obind] in *; auto.
Qed.

Lemma vclause_oneof f g x :
  fcard_ f = COneof g -> vclause f x = match x with GAbsent => true | _ => subk (fkind_ f) x end.
Proof. intros Hc. unfold vclause. rewrite Hc. destruct x; reflexivity. Qed.

Lemma group_ops_tri sc md fs g :
  mdesc_ok sc md = true -> msg_value_ok msg_ok md fs = true ->
  tri (group_ops size_msg ops_msg md fs g) (gclause md fs g).
Proof.
  intros Hmd Hv. unfold group_ops, gclause. rewrite group_member_eq.
  destruct (filter (gsel fs g) (mfields md)) as [|f r] eqn:Hfl; [reflexivity|].
  assert (Hin : In f (filter (gsel fs g) (mfields md))) by (rewrite Hfl; left; reflexivity).
  apply filter_In in Hin. destruct Hin as [Hin Hsel]. apply gsel_true in Hsel. destruct Hsel as [Hc Hne].
  pose proof (field_lookup_ok sc msg_ok md fs f Hmd Hv Hin) as Hfv.
  apply elem_ops_tri. unfold field_value_ok in Hfv. rewrite Hc in Hfv.
  destruct (lookup_field (fnum f) fs); [congruence|exact Hfv..].
Qed.

Lemma oneof_clauses_eq md fs :
  groups_ok md fs = true ->
  forallb (gclause md fs) (oneof_groups md) =
  forallb (fun fd => if is_oneof_member fd then vclause fd (lookup_field (fnum fd) fs) else true) (mfields md).
Proof.
  intros Hg. apply Bool.eq_iff_eq_true. rewrite !forallb_forall. split.
  - intros H fd Hfd. unfold is_oneof_member. destruct (fcard_ fd) as [| | | | |g|kk vk] eqn:Hc; try reflexivity.
    rewrite (vclause_oneof fd g _ Hc).
    destruct (lookup_field (fnum fd) fs) eqn:Hl; [reflexivity|rewrite <- Hl..].
    all: assert (Hne : lookup_field (fnum fd) fs <> GAbsent) by (rewrite Hl; discriminate).
    all: pose proof (oneof_group_in md fd g Hfd Hc) as Hgin.
    all: pose proof (groups_ok_In md fs g Hg Hgin) as Hlen.
    all: assert (Hinf : In fd (filter (gsel fs g) (mfields md)))
           by (apply filter_In; split; [exact Hfd|apply gsel_true; split; assumption]).
    all: pose proof (len_le1_In fd _ Hlen Hinf) as Heq.
    all: specialize (H g Hgin); unfold gclause in H; rewrite group_member_eq, Heq in H; exact H.
  - intros H g Hgin. unfold gclause. rewrite group_member_eq.
    destruct (filter (gsel fs g) (mfields md)) as [|f r] eqn:Hfl; [reflexivity|].
    assert (Hin : In f (filter (gsel fs g) (mfields md))) by (rewrite Hfl; left; reflexivity).
    apply filter_In in Hin. destruct Hin as [Hin Hsel]. apply gsel_true in Hsel. destruct Hsel as [Hc Hne].
    specialize (H f Hin). cbv beta in H. unfold is_oneof_member in H. rewrite Hc in H.
    rewrite (vclause_oneof f g _ Hc) in H.
    destruct (lookup_field (fnum f) fs); [congruence|exact H..].
Qed.

Lemma msg_ops_tri sc md fs u :
  mdesc_ok sc md = true -> msg_value_ok msg_ok md fs = true ->
  tri (msg_ops_with size_msg ops_msg md fs u)
      (forallb (fun fd => reqc fd (lookup_field (fnum fd) fs)) (mfields md) &&
       forallb (fun fd => vclause fd (lookup_field (fnum fd) fs)) (mfields md)).
Proof.
  intros Hmd Hv. unfold msg_ops_with.
  eapply tri_eq.
  - apply tri_bind.
    + apply (tri_concat (fun f => field_ops size_msg ops_msg f (lookup_field (fnum f) fs))
               (fun f => reqc f (lookup_field (fnum f) fs) &&
                         (if is_oneof_member f then true else vclause f (lookup_field (fnum f) fs)))).
      intros f Hin. apply (field_ops_tri sc md).
      * eapply mdesc_field_ok; eassumption.
      * eapply field_lookup_ok; eassumption.
    + intros a. apply tri_bind.
      * apply (tri_concat (group_ops size_msg ops_msg md fs) (gclause md fs)).
        intros g _. apply (group_ops_tri sc); assumption.
      * intros b. instantiate (1 := true). reflexivity.
  - rewrite andb_true_r.
    rewrite (oneof_clauses_eq md fs (msg_value_groups_ok _ _ _ Hv)).
    rewrite forallb_andb. rewrite <- andb_assoc. f_equal.
    rewrite <- forallb_andb. apply forallb_ext_in. intros fd _.
    destruct (is_oneof_member fd); [reflexivity|apply andb_true_r].
Qed.
End Step.

(* ---------- tying the knot ---------- *)
Lemma requireds_set_S sc f ty fs u :
  requireds_set sc (S f) ty (GMsg fs u) =
  forallb (fun fd => reqc fd (lookup_field (fnum fd) fs)) (mfields (nth ty sc empty_md)) &&
  forallb (fun fd => vclause (requireds_set sc f) fd (lookup_field (fnum fd) fs)) (mfields (nth ty sc empty_md)).
Proof. reflexivity. Qed.

Lemma gen_ops_outcome : forall sc fuel ty v,
  schema_ok sc = true -> value_ok sc fuel ty v = true ->
  match gen_ops sc fuel ty v with
  | Ok _ => requireds_set sc fuel ty v = true
  | Err => requireds_set sc fuel ty v = false
  | Panic => False
  end.
Proof.
  intros sc fuel. induction fuel as [|f IHf]; intros ty v Hsc Hv.
  - cbn [value_ok] in Hv. discriminate.
  - destruct (value_ok_inv _ _ _ _ Hv) as (f' & fs & u & Hf & -> & Hm).
    injection Hf as <-.
    change (tri (gen_ops sc (S f) ty (GMsg fs u)) (requireds_set sc (S f) ty (GMsg fs u))).
    rewrite gen_ops_S, requireds_set_S.
    apply (msg_ops_tri (gen_size sc f) (gen_ops sc f) (value_ok sc f) (requireds_set sc f)) with (sc := sc).
    + intros ty' v' Hv'. apply IHf; assumption.
    + apply schema_nth_ok. exact Hsc.
    + exact Hm.
Qed.

Print Assumptions gen_ops_outcome.
