(* Plumbing for the size-cache proofs (C09): paths, cache lists, msg_at / set_at. *)
From CsProto Require Import Prelude Varint ZigZag Codec RefWire WireStmts Schema GenMarshal RefMsg GenStmts
  GenPBase GenRBase GenPFuel History.
Local Open Scope N_scope.

(* ---------- paths ---------- *)
Lemma path_eqb_eq a b : path_eqb a b = true <-> a = b.
Proof.
  unfold path_eqb. revert b.
  induction a as [|x a IH]; intros [|y b]; cbn [length combine forallb Nat.eqb andb].
  - split; auto.
  - split; discriminate.
  - split; discriminate.
  - split.
    + intros H. apply andb_true_iff in H. destruct H as [H1 H2].
      apply andb_true_iff in H2. destruct H2 as [H2 H3]. apply N.eqb_eq in H2. subst y.
      f_equal. apply IH. rewrite H1, H3. reflexivity.
    + intros H. inversion H; subst. rewrite N.eqb_refl. cbn [andb]. apply IH. reflexivity.
Qed.

Lemma path_eqb_refl a : path_eqb a a = true.
Proof. apply path_eqb_eq. reflexivity. Qed.

Lemma path_eqb_neq a b : a <> b -> path_eqb a b = false.
Proof.
  intros H. destruct (path_eqb a b) eqn:E; [|reflexivity]. apply path_eqb_eq in E. contradiction.
Qed.

Lemma is_prefix_spec a b : is_prefix a b = true <-> exists r, b = a ++ r.
Proof.
  unfold is_prefix. split.
  - intros H. apply andb_true_iff in H. destruct H as [_ H2]. apply path_eqb_eq in H2.
    exists (skipn (length a) b).
    transitivity (firstn (length a) b ++ skipn (length a) b).
    + symmetry. apply firstn_skipn.
    + f_equal. symmetry. exact H2.
  - intros [r ->]. apply andb_true_iff. split.
    + apply Nat.leb_le. rewrite app_length. lia.
    + apply path_eqb_eq. rewrite firstn_app, Nat.sub_diag, firstn_all. cbn [firstn].
      rewrite app_nil_r. reflexivity.
Qed.

Lemma is_prefix_false a b : (forall r, b <> a ++ r) -> is_prefix a b = false.
Proof.
  intros H. destruct (is_prefix a b) eqn:E; [|reflexivity].
  apply is_prefix_spec in E. destruct E as [r E]. exfalso. exact (H r E).
Qed.

Lemma is_prefix_false_inv a b r : is_prefix a b = false -> b <> a ++ r.
Proof.
  intros H E. assert (Ht : is_prefix a b = true) by (apply is_prefix_spec; exists r; exact E). congruence.
Qed.

Lemma app_one_neq (p : path) n r : p <> (p ++ [n]) ++ r.
Proof.
  intros E. apply (f_equal (@length N)) in E. rewrite !app_length in E. cbn [length] in E. lia.
Qed.

(* ---------- cache lists ---------- *)
Lemma cache_at_filter (f : path -> bool) q c :
  cache_at q (filter (fun '(q', _) => f q') c) = if f q then cache_at q c else 0%Z.
Proof.
  induction c as [|[q' z] r IH]; cbn [filter cache_at].
  - destruct (f q); reflexivity.
  - destruct (f q') eqn:Ef; cbn [cache_at]; destruct (path_eqb q q') eqn:E.
    + apply path_eqb_eq in E. subst q'. rewrite Ef. reflexivity.
    + exact IH.
    + apply path_eqb_eq in E. subst q'. rewrite Ef in IH |- *. exact IH.
    + exact IH.
Qed.

Lemma cache_at_set p z q c : cache_at q (cache_set p z c) = if path_eqb q p then z else cache_at q c.
Proof.
  unfold cache_set. cbn [cache_at]. destruct (path_eqb q p) eqn:E; [reflexivity|].
  pose proof (cache_at_filter (fun q' => negb (path_eqb p q')) q c) as H. cbv beta in H. rewrite H.
  destruct (path_eqb p q) eqn:E2; [|reflexivity].
  apply path_eqb_eq in E2. subst q. rewrite path_eqb_refl in E. discriminate.
Qed.

Lemma cache_at_drop p q c : cache_at q (cache_drop_at p c) = if is_prefix p q then 0%Z else cache_at q c.
Proof.
  unfold cache_drop_at.
  pose proof (cache_at_filter (fun q' => negb (is_prefix p q')) q c) as H. cbv beta in H. rewrite H.
  destruct (is_prefix p q); reflexivity.
Qed.

Lemma cache_at_nil q : cache_at q [] = 0%Z.
Proof. reflexivity. Qed.

(* ---------- msg_at ---------- *)
Lemma msg_at_nonmsg sc ty v p : (forall fs u, v <> GMsg fs u) -> msg_at sc ty v p = None.
Proof.
  intros Hv. destruct p; destruct v as [|z|b|l|kvs|fs u]; try reflexivity; exfalso; apply (Hv fs u); reflexivity.
Qed.

Lemma msg_at_nil sc ty fs u : msg_at sc ty (GMsg fs u) [] = Some (ty, GMsg fs u).
Proof. reflexivity. Qed.

Lemma msg_at_cons sc ty fs u n r :
  msg_at sc ty (GMsg fs u) (n :: r) =
  match find_field (nth ty sc empty_md) n with
  | Some fd => if singular_msg fd then match fkind_ fd with FMsg t => msg_at sc t (lookup_field n fs) r | _ => None end else None
  | None => None
  end.
Proof. reflexivity. Qed.

Lemma msg_at_app sc : forall p ty v q,
  msg_at sc ty v (p ++ q) = match msg_at sc ty v p with Some (ty', v') => msg_at sc ty' v' q | None => None end.
Proof.
  induction p as [|n p IH]; intros ty v q.
  - cbn [app]. destruct v as [|z|b|l|kvs|fs u]; try (apply msg_at_nonmsg; intros; discriminate).
    rewrite msg_at_nil. reflexivity.
  - cbn [app]. destruct v as [|z|b|l|kvs|fs u]; try reflexivity.
    rewrite !msg_at_cons.
    destruct (find_field (nth ty sc empty_md) n) as [fd|]; [|reflexivity].
    destruct (singular_msg fd); [|reflexivity].
    destruct (fkind_ fd) as [s| | | |t]; try reflexivity.
    apply IH.
Qed.

Lemma schema_nodup sc ty : schema_ok sc = true -> nodupb (map fnum (mfields (nth ty sc empty_md))) = true.
Proof.
  intros Hsc. pose proof (schema_nth_ok sc ty Hsc) as Hmd. unfold mdesc_ok in Hmd.
  apply andb_true_iff in Hmd. apply Hmd.
Qed.

Lemma msg_at_child sc ty fs u fd t q :
  schema_ok sc = true -> In fd (mfields (nth ty sc empty_md)) -> singular_msg fd = true -> fkind_ fd = FMsg t ->
  msg_at sc ty (GMsg fs u) (fnum fd :: q) = msg_at sc t (lookup_field (fnum fd) fs) q.
Proof.
  intros Hsc Hin Hs Hk. rewrite msg_at_cons.
  rewrite (find_field_self _ fd (schema_nodup sc ty Hsc) Hin). rewrite Hs, Hk. reflexivity.
Qed.

Lemma singular_msg_kind fd : singular_msg fd = true -> exists t, fkind_ fd = FMsg t.
Proof.
  unfold singular_msg. destruct (fcard_ fd); destruct (fkind_ fd) as [s| | | |t]; try discriminate; intros _; exists t; reflexivity.
Qed.

(* ---------- set_at ---------- *)
Definition assign_fields (md : mdesc) (num : N) (x : gval) (fs : list (N * gval)) : list (N * gval) :=
  let fs0 := match find_field md num with
             | Some fd => match fcard_ fd with COneof g => clear_group md g num fs | _ => fs end
             | None => fs end in
  match x with GAbsent => clear_field num fs | _ => set_field num x fs0 end.

Lemma set_at_nil sc ty fs u num x :
  set_at sc ty (GMsg fs u) [] num x = GMsg (assign_fields (nth ty sc empty_md) num x fs) u.
Proof. reflexivity. Qed.

Lemma set_at_cons sc ty fs u n r num x :
  set_at sc ty (GMsg fs u) (n :: r) num x =
  match find_field (nth ty sc empty_md) n, lookup_field n fs with
  | Some fd, (GMsg _ _ as sub) =>
      match fkind_ fd with FMsg t => GMsg (set_field n (set_at sc t sub r num x) fs) u | _ => GMsg fs u end
  | _, _ => GMsg fs u
  end.
Proof. reflexivity. Qed.

Lemma set_at_nonmsg sc ty v p num x : (forall fs u, v <> GMsg fs u) -> set_at sc ty v p num x = v.
Proof.
  intros Hv. destruct p; destruct v as [|z|b|l|kvs|fs u]; try reflexivity; exfalso; apply (Hv fs u); reflexivity.
Qed.

Lemma lookup_filter_key' (P : N -> bool) n fs :
  lookup_field n (filter (fun '(k, _) => P k) fs) = if P n then lookup_field n fs else GAbsent.
Proof.
  induction fs as [|[k x] r IH]; cbn [filter lookup_field]; [destruct (P n); reflexivity|].
  destruct (P k) eqn:Ek; cbn [lookup_field]; destruct (N.eqb_spec k n) as [He|Hne].
  - subst k. rewrite Ek. reflexivity.
  - exact IH.
  - subst k. rewrite Ek in IH |- *. exact IH.
  - exact IH.
Qed.

Lemma lookup_clear_group' md g keep n fs :
  lookup_field n (clear_group md g keep fs) = lookup_field n fs \/
  lookup_field n (clear_group md g keep fs) = GAbsent.
Proof.
  unfold clear_group.
  pose proof (lookup_filter_key' (fun k => match find_field md k with
                                      | Some f => negb (in_group g f) || (k =? keep) | None => true end) n fs) as H.
  cbv beta in H. rewrite H.
  destruct (match find_field md n with Some f => _ | None => true end); [left|right]; reflexivity.
Qed.

Lemma lookup_clear_field num n fs : n <> num -> lookup_field n (clear_field num fs) = lookup_field n fs.
Proof.
  intros Hne. unfold clear_field.
  pose proof (lookup_filter_key' (fun k => negb (k =? num)) n fs) as H. cbv beta in H. rewrite H.
  destruct (N.eqb_spec n num); [contradiction|reflexivity].
Qed.

Lemma lookup_assign md num x fs a : a <> num ->
  lookup_field a (assign_fields md num x fs) = lookup_field a fs \/
  lookup_field a (assign_fields md num x fs) = GAbsent.
Proof.
  intros Hne. unfold assign_fields.
  set (fs0 := match find_field md num with Some fd => _ | None => fs end).
  assert (H0 : lookup_field a fs0 = lookup_field a fs \/ lookup_field a fs0 = GAbsent).
  { subst fs0. destruct (find_field md num) as [fd|]; [|left; reflexivity].
    destruct (fcard_ fd); try (left; reflexivity). apply lookup_clear_group'. }
  destruct x; [rewrite lookup_clear_field by exact Hne; left; reflexivity|rewrite lookup_set_other by exact Hne ..]; exact H0.
Qed.

(* every path that is neither on the way to the assigned message nor below the assigned field leads
   to the message it led to before (or nowhere any more) *)
Lemma set_at_frame sc num x : forall p ty v q r,
  (forall k, q <> firstn k p) -> (forall t, q <> p ++ num :: t) ->
  msg_at sc ty (set_at sc ty v p num x) q = Some r -> msg_at sc ty v q = Some r.
Proof.
  induction p as [|n p IH]; intros ty v q r Hnp Hnu Hm.
  - destruct q as [|a q]; [exfalso; apply (Hnp 0%nat); reflexivity|].
    assert (Hne : a <> num) by (intros ->; apply (Hnu q); reflexivity).
    destruct v as [|z|b|l|kvs|fs u]; try (rewrite set_at_nonmsg in Hm by (intros; discriminate); exact Hm).
    rewrite set_at_nil in Hm. rewrite msg_at_cons in Hm |- *.
    destruct (find_field (nth ty sc empty_md) a) as [fd|]; [|discriminate].
    destruct (singular_msg fd); [|discriminate].
    destruct (fkind_ fd) as [s| | | |t]; try discriminate.
    destruct (lookup_assign (nth ty sc empty_md) num x fs a Hne) as [E|E]; rewrite E in Hm.
    + exact Hm.
    + rewrite msg_at_nonmsg in Hm by (intros; discriminate). discriminate.
  - destruct q as [|a q]; [exfalso; apply (Hnp 0%nat); reflexivity|].
    destruct v as [|z|b|l|kvs|fs u]; try (rewrite set_at_nonmsg in Hm by (intros; discriminate); exact Hm).
    rewrite set_at_cons in Hm.
    destruct (find_field (nth ty sc empty_md) n) as [fd|] eqn:Ef; [|exact Hm].
    destruct (lookup_field n fs) as [|z|b|l|kvs|sfs su] eqn:El; try exact Hm.
    destruct (fkind_ fd) as [s| | | |t] eqn:Ek; try exact Hm.
    rewrite msg_at_cons in Hm |- *.
    destruct (N.eq_dec a n) as [->|Hne].
    + rewrite Ef in Hm |- *. destruct (singular_msg fd); [|discriminate]. rewrite Ek in Hm |- *.
      rewrite lookup_set_same in Hm. rewrite El.
      apply IH in Hm; [exact Hm| |].
      * intros k E. apply (Hnp (S k)). cbn [firstn]. f_equal. exact E.
      * intros t0 E. apply (Hnu t0). cbn [app]. f_equal. exact E.
    + rewrite lookup_set_other in Hm by exact Hne. exact Hm.
Qed.

(* the state keeps its type *)
Lemma hstep_hty sc google s op : hty (snd (hstep sc google s op)) = hty s.
Proof.
  destruct op; cbn [hstep].
  - destruct (msg_at sc (hty s) (hroot s) p); reflexivity.
  - reflexivity.
  - destruct (_ && _); [reflexivity|]. destruct (cops _ _ _ _ _ _ _) as [ops| |]; try reflexivity.
    destruct (grun _ ops); reflexivity.
  - destruct (cops _ _ _ _ _ _ _) as [ops| |]; try reflexivity.
    destruct (grun _ ops); reflexivity.
  - destruct google; reflexivity.
  - destruct (ref_decode _ _ _ _); reflexivity.
  - reflexivity.
  - reflexivity.
Qed.
