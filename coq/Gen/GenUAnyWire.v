(* Wire-level agreement on ARBITRARY bytes (C08, second clause): whenever a reader of the csproto decoder
   model succeeds at a cursor AND the reference reader (RefWire.v / RefMsg.v) succeeds on the same bytes,
   and no varint involved overflows 64 bits (GenUAnyDef.v), they read the same thing and the same number
   of bytes.  No schema here.  The reference works on a prefix x of what the decoder sees (x ++ rest):
   message payloads are exact, map entries and packed runs share the buffer of the enclosing message. *)
From CsProto Require Import Prelude Varint VarintProof VarintSize ZigZag Codec RefWire WireStmts.
From CsProto Require Import CodecBase EncProofs DecProofs SafeProofs ZigZagDec.
From CsProto Require Import Schema GenMarshal RefMsg GenStmts GenUnmarshal GenLegal GenRArith GenRWire GenUWire GenUAnyDef.
Local Open Scope N_scope.

(* ---------- lists ---------- *)
Lemma bytes_ok_app_l (a b : list byte) : bytes_ok (a ++ b) -> bytes_ok a.
Proof. unfold bytes_ok. rewrite Forall_app. tauto. Qed.
Lemma bytes_ok_app_r (a b : list byte) : bytes_ok (a ++ b) -> bytes_ok b.
Proof. unfold bytes_ok. rewrite Forall_app. tauto. Qed.

Lemma skipn_app_le {A} n (x y : list A) : (n <= length x)%nat -> skipn n (x ++ y) = skipn n x ++ y.
Proof. intros H. rewrite skipn_app. replace (n - length x)%nat with 0%nat by lia. reflexivity. Qed.
Lemma firstn_app_le {A} n (x y : list A) : (n <= length x)%nat -> firstn n (x ++ y) = firstn n x.
Proof. intros H. rewrite firstn_app. replace (n - length x)%nat with 0%nat by lia. cbn [firstn]. apply app_nil_r. Qed.

(* the cursor moved inside the prefix *)
Lemma skipn_step {A} (B x rest : list A) off n : skipn off B = x ++ rest -> (n <= length x)%nat ->
  skipn (off + n) B = skipn n x ++ rest.
Proof. intros H Hn. rewrite skipn_add, H. apply skipn_app_le. exact Hn. Qed.

Lemma off_lt_nonnil {A} (B x rest : list A) off : skipn off B = x ++ rest -> (1 <= length x)%nat -> (off < length B)%nat.
Proof.
  intros H Hx. destruct (app_nonnil_len x rest Hx) as (a & r & Hnn). rewrite Hnn in H.
  eapply skipn_cons_lt. exact H.
Qed.

Lemma prefix_room {A} (B x rest : list A) off : skipn off B = x ++ rest -> (off <= length B)%nat ->
  (off + length x <= length B)%nat.
Proof.
  intros H Hle. pose proof (skipn_len_eq off B _ H Hle) as Hl. rewrite app_length in Hl. lia.
Qed.

(* ---------- reference varints ---------- *)
Lemma ref_len_bounds p n : ref_varint_len p = Some n -> (1 <= n <= length p)%nat.
Proof.
  revert n; induction p as [|b r IH]; intros n H; cbn [ref_varint_len] in H; [discriminate H|].
  destruct (b <? 128); [inversion H; cbn [length]; lia|].
  destruct (ref_varint_len r) as [k|]; [|discriminate H]. cbn [option_map] in H. inversion H; subst.
  specialize (IH k eq_refl). cbn [length]. lia.
Qed.

(* the decoder and the reference on the same varint: same length, same value up to the dropped bits *)
Lemma dv_agree x rest v n val k :
  bytes_ok (x ++ rest) -> dec_varint (x ++ rest) = inl (v, n) ->
  ref_varint_val x = Some val -> ref_varint_len x = Some k -> n = k /\ v = val mod 2^64.
Proof.
  intros Hok Hd Hv Hl. destruct (dec_varint_ref' _ _ _ Hok Hd) as (Hl' & val' & Hv' & He).
  rewrite (ref_len_app x rest k Hl) in Hl'. rewrite (ref_val_app x rest val Hv) in Hv'.
  inversion Hl'; inversion Hv'; subst. split; reflexivity.
Qed.

(* ---------- the reference field parser, key and payload apart ---------- *)
Definition ref_payload (num wt : N) (q : list byte) : option (rfield * nat) :=
  if wt =? 0 then
    match ref_varint_val q, ref_varint_len q with
    | Some v, Some n => Some (RVarint num v, n) | _, _ => None end
  else if wt =? 1 then
    if (length q <? 8)%nat then None else Some (RFixed64 num (firstn 8 q), 8%nat)
  else if wt =? 5 then
    if (length q <? 4)%nat then None else Some (RFixed32 num (firstn 4 q), 4%nat)
  else if wt =? 2 then
    match ref_varint_val q, ref_varint_len q with
    | Some l, Some n =>
        if N.of_nat (length q - n) <? l then None
        else Some (RLen num (firstn (N.to_nat l) (skipn n q)), (n + N.to_nat l)%nat)
    | _, _ => None
    end
  else None.

Lemma ref_parse_field_split p f n : ref_parse_field p = Some (f, n) ->
  exists key kn m, ref_varint_val p = Some key /\ ref_varint_len p = Some kn /\
    ref_payload (key / 8) (key mod 8) (skipn kn p) = Some (f, m) /\ n = (kn + m)%nat.
Proof.
  unfold ref_parse_field, ref_payload. intros H.
  destruct (ref_varint_val p) as [key|]; [|discriminate H].
  destruct (ref_varint_len p) as [kn|]; [|discriminate H].
  cbv zeta in H. exists key, kn.
  destruct (key mod 8 =? 0).
  { destruct (ref_varint_val (skipn kn p)) as [v|]; [|discriminate H].
    destruct (ref_varint_len (skipn kn p)) as [m|]; [|discriminate H].
    inversion H; subst. exists m. repeat split; reflexivity. }
  destruct (key mod 8 =? 1).
  { destruct (length (skipn kn p) <? 8)%nat; [discriminate H|]. inversion H; subst. exists 8%nat. repeat split; reflexivity. }
  destruct (key mod 8 =? 5).
  { destruct (length (skipn kn p) <? 4)%nat; [discriminate H|]. inversion H; subst. exists 4%nat. repeat split; reflexivity. }
  destruct (key mod 8 =? 2); [|discriminate H].
  destruct (ref_varint_val (skipn kn p)) as [l|]; [|discriminate H].
  destruct (ref_varint_len (skipn kn p)) as [m|]; [|discriminate H].
  destruct (N.of_nat (length (skipn kn p) - m) <? l); [discriminate H|].
  inversion H; subst. exists (m + N.to_nat l)%nat. repeat split; lia.
Qed.

Lemma ref_payload_facts num wt q f m : ref_payload num wt q = Some (f, m) ->
  rnum f = num /\ rwt f = wt /\ (1 <= m <= length q)%nat.
Proof.
  unfold ref_payload. intros H.
  destruct (N.eqb_spec wt 0) as [->|H0].
  { destruct (ref_varint_val q) as [v|]; [|discriminate H].
    destruct (ref_varint_len q) as [n|] eqn:El; [|discriminate H].
    inversion H; subst. pose proof (ref_len_bounds _ _ El). repeat split; lia. }
  destruct (N.eqb_spec wt 1) as [->|H1].
  { destruct (Nat.ltb_spec (length q) 8); [discriminate H|]. inversion H; subst. repeat split; lia. }
  destruct (N.eqb_spec wt 5) as [->|H5].
  { destruct (Nat.ltb_spec (length q) 4); [discriminate H|]. inversion H; subst. repeat split; lia. }
  destruct (N.eqb_spec wt 2) as [->|H2]; [|discriminate H].
  destruct (ref_varint_val q) as [l|]; [|discriminate H].
  destruct (ref_varint_len q) as [n|] eqn:El; [|discriminate H].
  destruct (N.ltb_spec (N.of_nat (length q - n)) l); [discriminate H|].
  inversion H; subst. pose proof (ref_len_bounds _ _ El). repeat split; lia.
Qed.

Lemma ref_parse_field_len p f n : ref_parse_field p = Some (f, n) -> (1 <= n <= length p)%nat.
Proof.
  intros H. destruct (ref_parse_field_split p f n H) as (key & kn & m & _ & Hl & Hp & ->).
  pose proof (ref_len_bounds _ _ Hl). destruct (ref_payload_facts _ _ _ _ _ Hp) as (_ & _ & Hm).
  rewrite skipn_length in Hm. lia.
Qed.

(* ---------- DecodeTag ---------- *)
Lemma key_split key : key < 2^64 -> N.shiftr key 3 = key / 8 /\ N.land key 7 = key mod 8.
Proof.
  intros _. split.
  - rewrite N.shiftr_div_pow2. reflexivity.
  - change 7 with (N.ones 3). rewrite N.land_ones. reflexivity.
Qed.

Lemma dec_tag_any B off fast x rest tag wt d1 f n :
  bytes_ok B -> skipn off B = x ++ rest ->
  ref_parse_field x = Some (f, n) -> rfield_fits f = true ->
  dec_tag (mk B off fast) = DOk (tag, wt) d1 ->
  exists kn m, d1 = mk B (off + kn) fast /\ tag = rnum f /\ wt = rwt f /\
    ref_payload (rnum f) (rwt f) (skipn kn x) = Some (f, m) /\ n = (kn + m)%nat /\
    (kn <= length x)%nat /\ skipn (off + kn) B = skipn kn x ++ rest.
Proof.
  intros Hok Hs Hp Hfit Hd.
  destruct (ref_parse_field_split x f n Hp) as (key & kn & m & Hv & Hl & Hpay & Hn).
  destruct (ref_payload_facts _ _ _ _ _ Hpay) as (Hnum & Hwt & Hm).
  pose proof (ref_len_bounds _ _ Hl) as Hkn.
  pose proof (off_lt_nonnil B x rest off Hs ltac:(lia)) as Hlt.
  unfold dec_tag, at_eof in Hd. cbn [mk dbuf doff] in Hd.
  destruct (Nat.leb_spec (length B) off) as [Hc|_]; [lia|].
  rewrite go_from_ok in Hd by lia. rewrite Hs in Hd.
  destruct (dec_varint (x ++ rest)) as [[v k]|e] eqn:Edv; [|discriminate Hd].
  assert (Hokx : bytes_ok (x ++ rest)) by (rewrite <- Hs; apply Forall_skipn; exact Hok).
  destruct (dv_agree x rest v k key kn Hokx Edv Hv Hl) as [-> Hvk].
  assert (Hkey : key < 2^64).
  { unfold rfield_fits in Hfit. apply andb_prop in Hfit. destruct Hfit as [Hf _]. apply N.ltb_lt in Hf.
    rewrite Hnum in Hf. pose proof (N.div_mod' key 8) as Hdm. pose proof (N.mod_lt key 8 ltac:(lia)) as Hr.
    change (2^61) with 2305843009213693952 in Hf. change (2^64) with 18446744073709551616. lia. }
  rewrite N.mod_small in Hvk by exact Hkey. subst v.
  destruct (key_split key Hkey) as [Hsh Hla]. rewrite Hsh, Hla in Hd.
  destruct ((key <? 1) || (max_tag <? key / 8)); [discriminate Hd|].
  inversion Hd; subst tag wt d1. exists kn, m.
  split; [reflexivity|]. split; [symmetry; exact Hnum|]. split; [symmetry; exact Hwt|].
  split; [rewrite Hnum, Hwt; exact Hpay|]. split; [exact Hn|]. split; [lia|].
  apply skipn_step; [exact Hs|lia].
Qed.

(* ---------- typed readers: success of the range checks is all that is needed ---------- *)
Lemma of_wire_typed_any s v z : wt_of s = 0 -> v < 2^64 -> of_wire s v = Some z -> typed_of_wire s v = z.
Proof.
  intros Hwt Hv H.
  destruct s; cbn [wt_of] in Hwt; try discriminate Hwt; clear Hwt; cbn [of_wire typed_of_wire] in *.
  - inversion H; reflexivity.
  - cbv zeta in H.
    destruct (Z.ltb_spec 2147483647 (i64n v)) as [H1|H1]; [discriminate H|].
    destruct (Z.ltb_spec (i64n v) (-2147483648)) as [H2|H2]; [discriminate H|].
    cbn [orb] in H. inversion H; subst z. clear H.
    assert (Hc : v < 2^31 \/ (2^64 - 2^31 <= v /\ v < 2^64)).
    { destruct (N.lt_ge_cases v (2^63)) as [Hlo|Hhi].
      - rewrite i64n_lo in H1 by exact Hlo. left. lia.
      - rewrite i64n_hi in H2 by (split; assumption). right. lia. }
    destruct (uw_int32_wire v Hc) as [He _]. symmetry. exact He.
  - inversion H; subst z. destruct (uw_i64n_sgn v Hv) as [He _]. symmetry. exact He.
  - destruct (N.ltb_spec 4294967295 v) as [H1|H1]; [discriminate H|]. inversion H; subst z.
    rewrite N.mod_small by lia. reflexivity.
  - inversion H; subst z. rewrite N.mod_small by exact Hv. reflexivity.
  - inversion H; subst z. rewrite dec_zz32_unzig. reflexivity.
  - inversion H; subst z. rewrite dec_zz64_unzig by exact Hv. rewrite N.mod_small by exact Hv. reflexivity.
Qed.

(* what a successful element read of the decoder is *)
Definition elem_dec (s : skind) (p : list byte) (z : Z) (n : nat) : Prop :=
  if is_varint_kind s then exists v, dec_varint p = inl (v, n) /\ of_wire s v = Some z
  else n = width_of s /\ (width_of s <= length p)%nat /\ of_wire s (le_val (firstn (width_of s) p)) = Some z.

Lemma read_elem_dec {A} s d (kont : option (Z * nat) -> dres A) :
  read_elem s d (skipn (doff d) (dbuf d)) kont = kont None \/
  exists z n, read_elem s d (skipn (doff d) (dbuf d)) kont = kont (Some (z, n)) /\
              elem_dec s (skipn (doff d) (dbuf d)) z n.
Proof.
  assert (Hp : length (skipn (doff d) (dbuf d)) = (length (dbuf d) - doff d)%nat) by apply skipn_length.
  set (p := skipn (doff d) (dbuf d)) in *.
  unfold read_elem, elem_dec. destruct (is_varint_kind s) eqn:Ek.
  - destruct (dec_varint p) as [[v n]|e] eqn:E; [|left; reflexivity].
    destruct (of_wire s v) as [z|] eqn:Eo; [|left; reflexivity].
    right. exists z, n. split; [reflexivity|]. exists v. split; [reflexivity|exact Eo].
  - destruct s; try discriminate Ek;
    ( cbv zeta; cbn [width_of]; rewrite <- ?Hp; unfold go_le;
      match goal with |- context [(length p <? ?w)%nat] => destruct (Nat.ltb_spec (length p) w) as [Hlt|Hge] end;
      [left; reflexivity|];
      cbv beta;
      match goal with |- context [of_wire ?k ?x] => destruct (of_wire k x) as [z|] eqn:Eo end;
      [right; eexists; eexists; split; [reflexivity|]; split; [reflexivity|]; split; [exact Hge|reflexivity]
      | left; reflexivity] ).
Qed.

(* what the reference reads as one element of kind s at the head of q *)
Definition elem_ref (s : skind) (q : list byte) : option (Z * nat) :=
  if wt_of s =? 0 then
    match ref_varint_val q, ref_varint_len q with
    | Some v, Some n => Some (typed_of_wire s v, n) | _, _ => None end
  else if (length q <? width_of s)%nat then None
       else Some (typed_of_wire s (le_val (firstn (width_of s) q)), width_of s).
Definition elem_fits (s : skind) (q : list byte) : bool :=
  if wt_of s =? 0 then match ref_varint_val q with Some v => v <? 2^64 | None => true end else true.

Lemma elem_agree s q rest z n z' n' :
  bytes_ok (q ++ rest) -> elem_dec s (q ++ rest) z n -> elem_ref s q = Some (z', n') -> elem_fits s q = true ->
  z = z' /\ n = n'.
Proof.
  intros Hok Hd Hr Hf. unfold elem_dec, elem_ref, elem_fits in *.
  destruct (N.eqb_spec (wt_of s) 0) as [H0|H0].
  - rewrite (uw_wt0_varint s H0) in Hd. destruct Hd as (v & Hdv & Hof).
    destruct (ref_varint_val q) as [rv|] eqn:Ev; [|discriminate Hr].
    destruct (ref_varint_len q) as [rn|] eqn:El; [|discriminate Hr].
    inversion Hr; subst z' n'. apply N.ltb_lt in Hf.
    destruct (dv_agree q rest v n rv rn Hok Hdv Ev El) as [-> Hv].
    rewrite N.mod_small in Hv by exact Hf. subst v.
    split; [|reflexivity]. symmetry. apply of_wire_typed_any; assumption.
  - destruct (uw_wtn0_width s H0) as [Hk _]. rewrite Hk in Hd. destruct Hd as (-> & Hw & Hof).
    destruct (Nat.ltb_spec (length q) (width_of s)) as [Hc|Hge]; [discriminate Hr|].
    inversion Hr; subst z' n'. split; [|reflexivity].
    rewrite firstn_app_le in Hof by exact Hge.
    destruct (of_wire_typed_fixed s (firstn (width_of s) q) H0 (firstn_length_le q Hge)) as [Ht _].
    { apply Forall_firstn. eapply bytes_ok_app_l. exact Hok. }
    rewrite Ht in Hof. inversion Hof. reflexivity.
Qed.

(* a scalar field payload is one element *)
Lemma payload_elem num s q f m : ref_payload num (wt_of s) q = Some (f, m) ->
  exists z', elem_ref s q = Some (z', m) /\ scalar_of_field s f = Some z' /\
             (rfield_fits f = true -> elem_fits s q = true).
Proof.
  intros H. unfold ref_payload in H. unfold elem_ref, elem_fits.
  destruct (N.eqb_spec (wt_of s) 0) as [H0|H0].
  - destruct (ref_varint_val q) as [v|]; [|discriminate H].
    destruct (ref_varint_len q) as [n|]; [|discriminate H].
    inversion H; subst f m. exists (typed_of_wire s v). split; [reflexivity|].
    split; [cbn [scalar_of_field]; rewrite H0; reflexivity|].
    unfold rfield_fits. intros Hf. apply andb_prop in Hf. destruct Hf as [_ Hf]. exact Hf.
  - destruct (uw_wtn0_width s H0) as [_ [[Hw Hd]|[Hw Hd]]]; rewrite Hw in H; rewrite Hd;
      cbn [N.eqb Pos.eqb] in H.
    + destruct (length q <? 4)%nat; [discriminate H|]. inversion H; subst f m.
      eexists. split; [reflexivity|]. split; [cbn [scalar_of_field]; rewrite Hw; reflexivity|reflexivity].
    + destruct (length q <? 8)%nat; [discriminate H|]. inversion H; subst f m.
      eexists. split; [reflexivity|]. split; [cbn [scalar_of_field]; rewrite Hw; reflexivity|reflexivity].
Qed.

Lemma dec_scalar_unf_ok B o fast s z d2 : (o < length B)%nat ->
  dec_scalar (mk B o fast) s = DOk z d2 ->
  exists n, elem_dec s (skipn o B) z n /\ d2 = mk B (o + n) fast.
Proof.
  intros Hlt H. rewrite uw_dec_scalar_unf in H by exact Hlt.
  match type of H with read_elem s ?d _ ?kont = _ =>
    destruct (read_elem_dec s d kont) as [E|(z0 & n0 & E & Hd)]; cbn [mk dbuf doff] in E; rewrite E in H end.
  - discriminate H.
  - inversion H; subst. exists n0. split; [exact Hd|reflexivity].
Qed.

Lemma dec_scalar_any B o fast q rest s num f m z d2 :
  bytes_ok B -> skipn o B = q ++ rest ->
  ref_payload num (wt_of s) q = Some (f, m) -> rfield_fits f = true ->
  dec_scalar (mk B o fast) s = DOk z d2 ->
  scalar_of_field s f = Some z /\ d2 = mk B (o + m) fast.
Proof.
  intros Hok Hs Hp Hfit Hd.
  destruct (ref_payload_facts _ _ _ _ _ Hp) as (_ & _ & Hm).
  pose proof (off_lt_nonnil B q rest o Hs ltac:(lia)) as Hlt.
  destruct (dec_scalar_unf_ok B o fast s z d2 Hlt Hd) as (n & He & ->). rewrite Hs in He.
  destruct (payload_elem num s q f m Hp) as (z' & Hr & Hsf & Hef).
  assert (Hokq : bytes_ok (q ++ rest)) by (rewrite <- Hs; apply Forall_skipn; exact Hok).
  destruct (elem_agree s q rest z n z' m Hokq He Hr (Hef Hfit)) as [-> ->].
  split; [exact Hsf|reflexivity].
Qed.

(* ---------- length-delimited payloads ---------- *)
Lemma len_agree B o q rest num f m l ln :
  bytes_ok B -> skipn o B = q ++ rest ->
  ref_payload num 2 q = Some (f, m) -> rfield_fits f = true ->
  dec_varint (skipn o B) = inl (l, ln) ->
  exists b, f = RLen num b /\ l = N.of_nat (length b) /\ m = (ln + length b)%nat /\
    (ln <= length q)%nat /\ skipn ln q = b ++ skipn m q /\
    skipn (o + ln) B = b ++ (skipn m q ++ rest) /\ bytes_ok b.
Proof.
  intros Hok Hs Hp Hfit Hd. pose proof Hp as Hp0. unfold ref_payload in Hp. cbn [N.eqb Pos.eqb] in Hp.
  destruct (ref_varint_val q) as [lv|] eqn:Ev; [|discriminate Hp].
  destruct (ref_varint_len q) as [n|] eqn:El; [|discriminate Hp].
  destruct (N.ltb_spec (N.of_nat (length q - n)) lv) as [Hc|Hge]; [discriminate Hp|].
  inversion Hp; subst f m. clear Hp.
  pose proof (ref_len_bounds _ _ El) as Hn.
  set (b := firstn (N.to_nat lv) (skipn n q)) in *.
  assert (Hlb : length b = N.to_nat lv).
  { unfold b. apply firstn_length_le. rewrite skipn_length. lia. }
  assert (Hokq : bytes_ok (q ++ rest)) by (rewrite <- Hs; apply Forall_skipn; exact Hok).
  rewrite Hs in Hd. destruct (dv_agree q rest l ln lv n Hokq Hd Ev El) as [-> Hl].
  assert (Hlv : lv < 2^64).
  { unfold rfield_fits in Hfit. apply andb_prop in Hfit. destruct Hfit as [_ Hf]. apply N.ltb_lt in Hf.
    rewrite Hlb, N2Nat.id in Hf. exact Hf. }
  rewrite N.mod_small in Hl by exact Hlv. subst l.
  assert (Hsk : skipn n q = b ++ skipn (n + N.to_nat lv) q).
  { rewrite skipn_add. unfold b. symmetry. apply firstn_skipn. }
  exists b. split; [reflexivity|]. split; [rewrite Hlb, N2Nat.id; reflexivity|].
  split; [rewrite Hlb; reflexivity|]. split; [lia|]. split; [exact Hsk|]. split.
  - rewrite (skipn_step B q rest o n Hs ltac:(lia)). rewrite Hsk, <- app_assoc. reflexivity.
  - unfold b. apply Forall_firstn, Forall_skipn. eapply bytes_ok_app_l. exact Hokq.
Qed.

(* DecodeBytes / DecodeString *)
Lemma dec_bytes_inv B o fast b d2 : dec_bytes (mk B o fast) = DOk b d2 ->
  (o < length B)%nat /\ exists l ln, dec_varint (skipn o B) = inl (l, ln) /\
    N.of_nat (o + ln) + l <= N.of_nat (length B) /\
    b = firstn (N.to_nat l) (skipn (o + ln) B) /\ d2 = mk B (o + (ln + N.to_nat l)) fast.
Proof.
  unfold dec_bytes, at_eof. cbn [mk dbuf doff]. intros H.
  destruct (Nat.leb_spec (length B) o) as [Hc|Hlt]; [discriminate H|]. split; [exact Hlt|].
  rewrite go_from_ok in H by lia.
  destruct (dec_varint (skipn o B)) as [[l ln]|e]; [|discriminate H].
  destruct (max_len <? l); [discriminate H|].
  destruct (N.ltb_spec (N.of_nat (length B)) (N.of_nat (o + ln) + l)) as [Hg|Hg]; [discriminate H|].
  cbv zeta in H. rewrite go_sub_ok in H by lia. inversion H; subst. exists l, ln.
  split; [reflexivity|]. split; [exact Hg|]. split; [|reflexivity].
  unfold slice. f_equal. lia.
Qed.

Lemma dec_bytes_any B o fast q rest num f m b d2 :
  bytes_ok B -> skipn o B = q ++ rest -> ref_payload num 2 q = Some (f, m) -> rfield_fits f = true ->
  dec_bytes (mk B o fast) = DOk b d2 ->
  f = RLen num b /\ d2 = mk B (o + m) fast /\ bytes_ok b /\ (length b < length B)%nat.
Proof.
  intros Hok Hs Hp Hfit Hd.
  destruct (dec_bytes_inv B o fast b d2 Hd) as (Hlt & l & ln & Hdv & Hroom & Hb & ->).
  destruct (len_agree B o q rest num f m l ln Hok Hs Hp Hfit Hdv) as (b' & -> & -> & -> & Hln & _ & Hsk & Hokb).
  rewrite Nat2N.id in Hb. rewrite Hsk, firstn_app_exact in Hb. subst b'.
  split; [reflexivity|]. split; [rewrite Nat2N.id; reflexivity|]. split; [exact Hokb|].
  pose proof (dec_varint_len _ _ _ Hdv). lia.
Qed.

(* DecodeNested = DecodeBytes + the nested Unmarshal's verdict *)
Lemma dec_nested_bytes P d b d2 : dec_nested P d = DOk b d2 -> dec_bytes d = DOk b d2 /\ P b = true.
Proof.
  unfold dec_nested, dec_bytes. destruct (at_eof d); [intros H; discriminate H|].
  unfold go_from. destruct (length (dbuf d) <? doff d)%nat; [intros H; discriminate H|].
  destruct (dec_varint (skipn (doff d) (dbuf d))) as [[l ln]|e]; [|intros H; discriminate H].
  destruct (max_len <? l); [intros H; discriminate H|].
  destruct (N.of_nat (length (dbuf d)) <? N.of_nat (doff d + ln) + l); [intros H; discriminate H|].
  cbv zeta. unfold go_sub. destruct (_ && _)%bool; [|intros H; discriminate H].
  destruct (P _) eqn:EP; [|intros H; discriminate H]. intros H. inversion H; subst. split; [reflexivity|exact EP].
Qed.

(* the entry size of a map field: DecodeUInt32 on the length prefix *)
Lemma dec_size_any B o fast q rest num f m sz d1 :
  bytes_ok B -> skipn o B = q ++ rest -> ref_payload num 2 q = Some (f, m) -> rfield_fits f = true ->
  dec_scalar (mk B o fast) KUInt32 = DOk sz d1 ->
  exists b ln, f = RLen num b /\ sz = Z.of_nat (length b) /\ d1 = mk B (o + ln) fast /\ m = (ln + length b)%nat /\
    (ln <= length q)%nat /\ skipn ln q = b ++ skipn m q /\ skipn (o + ln) B = b ++ (skipn m q ++ rest) /\
    bytes_ok b /\ (1 <= ln)%nat.
Proof.
  intros Hok Hs Hp Hfit Hd.
  destruct (ref_payload_facts _ _ _ _ _ Hp) as (_ & _ & Hm).
  pose proof (off_lt_nonnil B q rest o Hs ltac:(lia)) as Hlt.
  destruct (dec_scalar_unf_ok B o fast KUInt32 sz d1 Hlt Hd) as (n & He & ->).
  unfold elem_dec in He. cbn [is_varint_kind width_of Nat.eqb] in He. destruct He as (l & Hdv & Hof).
  destruct (len_agree B o q rest num f m l n Hok Hs Hp Hfit Hdv) as (b & -> & -> & -> & Hln & Hq & Hsk & Hokb).
  cbn [of_wire] in Hof. destruct (4294967295 <? N.of_nat (length b)); [discriminate Hof|]. inversion Hof; subst sz.
  exists b, n. split; [reflexivity|]. split; [apply nat_N_Z|]. split; [reflexivity|]. split; [reflexivity|].
  split; [exact Hln|]. split; [exact Hq|]. split; [exact Hsk|]. split; [exact Hokb|].
  pose proof (dec_varint_len _ _ _ Hdv). lia.
Qed.

(* ---------- packed runs ---------- *)
Lemma unpack_step f s p : p <> [] -> unpack (S f) s p =
  match elem_ref s p with
  | Some (z, n) => match unpack f s (skipn n p) with Some r => Some (z :: r) | None => None end
  | None => None
  end.
Proof.
  intros Hp. destruct p as [|x r]; [contradiction|]. cbn [unpack]. unfold elem_ref.
  destruct (wt_of s =? 0).
  - destruct (ref_varint_val (x :: r)); [|reflexivity]. destruct (ref_varint_len (x :: r)); reflexivity.
  - cbv zeta. destruct (length (x :: r) <? width_of s)%nat; reflexivity.
Qed.
Lemma unpack_O s p : p <> [] -> unpack O s p = None.
Proof. destruct p; [contradiction|reflexivity]. Qed.

Lemma packed_fits_step f p : p <> [] -> packed_fits (S f) p =
  match ref_varint_val p, ref_varint_len p with
  | Some v, Some n => (v <? 2^64) && packed_fits f (skipn n p) | _, _ => false end.
Proof. destruct p; [contradiction|reflexivity]. Qed.
Lemma packed_fits_O p : p <> [] -> packed_fits O p = false.
Proof. destruct p; [contradiction|reflexivity]. Qed.

Lemma elem_ref_len s q z n : elem_ref s q = Some (z, n) -> (n <= length q)%nat.
Proof.
  unfold elem_ref. destruct (wt_of s =? 0).
  - destruct (ref_varint_val q); [|discriminate]. destruct (ref_varint_len q) as [k|] eqn:El; [|discriminate].
    intros H; inversion H; subst. pose proof (ref_len_bounds _ _ El). lia.
  - destruct (Nat.ltb_spec (length q) (width_of s)) as [Hc|Hge]; [discriminate|]. intros H0; inversion H0; subst. lia.
Qed.

Lemma packed_loop_O s l d nread acc :
  packed_loop O s l d nread acc = if nread <? l then DErr d else if nread =? l then DOk (rev acc) d else DErr d.
Proof. reflexivity. Qed.

Lemma packed_loop_any B fast s l rest : bytes_ok B ->
  forall fuel y o nread acc fu fp zs zs' d2,
  skipn o B = y ++ rest -> (o <= length B)%nat -> N.of_nat (length y) + nread = l ->
  unpack fu s y = Some zs' -> (wt_of s = 0 -> packed_fits fp y = true) ->
  packed_loop fuel s l (mk B o fast) nread acc = DOk zs d2 ->
  zs = rev acc ++ zs' /\ d2 = mk B (o + length y) fast.
Proof.
  intros Hok.
  assert (Hend : forall y o nread acc fu zs zs' d2,
            N.of_nat (length y) + nread = l -> unpack fu s y = Some zs' ->
            (if nread <? l then DErr (mk B o fast) else if nread =? l then DOk (rev acc) (mk B o fast) else DErr (mk B o fast))
              = DOk zs d2 -> zs = rev acc ++ zs' /\ d2 = mk B (o + length y) fast).
  { intros y o nread acc fu zs zs' d2 Hl Hu H.
    destruct (N.ltb_spec nread l) as [Hc|_]; [discriminate H|]. destruct (N.eqb_spec nread l) as [He|Hne]; [|discriminate H].
    assert (Hy : y = []) by (destruct y; [reflexivity|cbn [length] in Hl; lia]). subst y.
    rewrite unpack_nil in Hu. inversion Hu; subst. inversion H; subst. rewrite app_nil_r. split; [reflexivity|].
    apply mk_eq. cbn [length]. lia. }
  induction fuel as [|fuel IH]; intros y o nread acc fu fp zs zs' d2 Hs Ho Hl Hu Hf H.
  - rewrite packed_loop_O in H. eapply Hend; eassumption.
  - rewrite packed_loop_S in H. destruct (N.ltb_spec nread l) as [Hlt|Hge].
    2:{ eapply (Hend y o nread acc fu zs zs' d2 Hl Hu). destruct (N.ltb_spec nread l); [lia|exact H]. }
    destruct (_ && at_eof (mk B o fast))%bool; [discriminate H|].
    cbn [mk dbuf doff] in H. rewrite go_from_ok in H by exact Ho.
    match type of H with read_elem s ?d _ ?kont = _ =>
      destruct (read_elem_dec s d kont) as [E|(z0 & n0 & E & Hd)]; cbn [mk dbuf doff] in E; rewrite E in H end;
      [discriminate H|].
    cbn [mk dbuf doff] in Hd. rewrite Hs in Hd.
    assert (Hy : y <> []) by (intros ->; cbn [length] in Hl; lia).
    destruct fu as [|fu]; [rewrite unpack_O in Hu by exact Hy; discriminate Hu|].
    rewrite unpack_step in Hu by exact Hy.
    destruct (elem_ref s y) as [[z' n']|] eqn:Er; [|discriminate Hu].
    destruct (unpack fu s (skipn n' y)) as [r|] eqn:Eu; [|discriminate Hu]. inversion Hu; subst zs'. clear Hu.
    assert (Hef : elem_fits s y = true /\ exists fp', wt_of s = 0 -> packed_fits fp' (skipn n' y) = true).
    { unfold elem_fits. destruct (N.eqb_spec (wt_of s) 0) as [H0|H0]; [|split; [reflexivity|exists O; intros Hc; contradiction]].
      specialize (Hf H0). destruct fp as [|fp]; [rewrite packed_fits_O in Hf by exact Hy; discriminate Hf|].
      rewrite packed_fits_step in Hf by exact Hy. unfold elem_ref in Er. rewrite H0 in Er. cbn [N.eqb] in Er.
      destruct (ref_varint_val y) as [v|]; [|discriminate Hf]. destruct (ref_varint_len y) as [k|]; [|discriminate Hf].
      inversion Er; subst. apply andb_prop in Hf. destruct Hf as [Hf1 Hf2]. split; [exact Hf1|]. exists fp. intros _. exact Hf2. }
    destruct Hef as [Hef (fp' & Hfp')].
    assert (Hoky : bytes_ok (y ++ rest)) by (rewrite <- Hs; apply Forall_skipn; exact Hok).
    destruct (elem_agree s y rest z0 n0 z' n' Hoky Hd Er Hef) as [-> ->].
    pose proof (elem_ref_len s y z' n' Er) as Hn'.
    pose proof (prefix_room B y rest o Hs Ho) as Hroom.
    rewrite dadv_mk in H.
    destruct (IH (skipn n' y) (o + n')%nat (nread + N.of_nat n') (z' :: acc) fu fp' zs r d2) as [Hz Hd2].
    + apply skipn_step; assumption.
    + lia.
    + rewrite skipn_length. lia.
    + exact Eu.
    + exact Hfp'.
    + exact H.
    + split.
      * rewrite Hz. cbn [rev]. rewrite <- app_assoc. reflexivity.
      * rewrite Hd2. apply mk_eq. rewrite skipn_length. lia.
Qed.

Lemma dec_packed_any B o fast q rest num b m s zs zs' d2 fu fp :
  bytes_ok B -> skipn o B = q ++ rest -> ref_payload num 2 q = Some (RLen num b, m) ->
  rfield_fits (RLen num b) = true ->
  unpack fu s b = Some zs' -> (wt_of s = 0 -> packed_fits fp b = true) ->
  dec_packed (mk B o fast) s = DOk zs d2 -> zs = zs' /\ d2 = mk B (o + m) fast.
Proof.
  intros Hok Hs Hp Hfit Hu Hf Hd.
  unfold dec_packed, at_eof in Hd. cbn [mk dbuf doff] in Hd.
  destruct (Nat.leb_spec (length B) o) as [Hc|Hlt]; [discriminate Hd|].
  rewrite go_from_ok in Hd by lia.
  destruct (dec_varint (skipn o B)) as [[l ln]|e] eqn:Edv; [|discriminate Hd].
  cbv zeta in Hd. rewrite dadv_mk in Hd.
  destruct (len_agree B o q rest num _ m l ln Hok Hs Hp Hfit Edv) as (b' & Hb' & -> & -> & Hln & _ & Hsk & _).
  inversion Hb'; subst b'. clear Hb'.
  pose proof (dec_varint_len _ _ _ Edv) as Hlen. rewrite skipn_length in Hlen.
  assert (Hloop : packed_loop (S (length B)) s (N.of_nat (length b)) (mk B (o + ln) fast) 0 [] = DOk zs d2).
  { destruct s; try exact Hd. cbn [mk dbuf doff] in Hd.
    destruct (N.of_nat (length B - (o + ln)) <? N.of_nat (length b)); [discriminate Hd|exact Hd]. }
  destruct (packed_loop_any B fast s (N.of_nat (length b)) _ Hok _ b (o + ln)%nat 0 [] fu fp zs zs' d2 Hsk
              ltac:(lia) ltac:(lia) Hu Hf Hloop) as [Hz Hd2].
  split; [exact Hz|]. rewrite Hd2. apply mk_eq. lia.
Qed.

(* ---------- Skip ---------- *)
Lemma dec_skip_any B o fast q rest num wt f m tag raw d2 :
  bytes_ok B -> skipn o B = q ++ rest -> ref_payload num wt q = Some (f, m) -> rfield_fits f = true ->
  dec_skip (mk B o fast) tag (Z.of_N wt) = DOk raw d2 -> d2 = mk B (o + m) fast.
Proof.
  intros Hok Hs Hp Hfit Hd.
  destruct (ref_payload_facts _ _ _ _ _ Hp) as (_ & _ & Hm).
  pose proof (off_lt_nonnil B q rest o Hs ltac:(lia)) as Hlt.
  assert (HI : Inv (mk B o fast)) by (unfold Inv; cbn [mk dbuf doff]; lia).
  pose proof (dec_skip_spec (mk B o fast) tag (Z.of_N wt) HI) as Hsp. rewrite Hd in Hsp.
  unfold skip_post in Hsp. destruct Hsp as (sk & -> & _ & _ & Hit). rewrite dadv_mk. apply mk_eq. f_equal.
  assert (Hokq : bytes_ok (q ++ rest)) by (rewrite <- Hs; apply Forall_skipn; exact Hok).
  unfold skip_item, lenpref in Hit. cbn [mk dbuf doff] in Hit.
  destruct Hit as [[Hw [v Edv]]|[[Hw ->]|[[Hw ->]|[Hw (l & n & [Edv _] & ->)]]]].
  - assert (wt = 0) by lia. subst wt. unfold ref_payload in Hp. cbn [N.eqb] in Hp.
    destruct (ref_varint_val q) as [rv|] eqn:Ev; [|discriminate Hp].
    destruct (ref_varint_len q) as [rn|] eqn:El; [|discriminate Hp]. inversion Hp; subst.
    rewrite Hs in Edv. destruct (dv_agree q rest v sk rv m Hokq Edv Ev El) as [-> _]. reflexivity.
  - assert (wt = 1) by lia. subst wt. unfold ref_payload in Hp. cbn [N.eqb Pos.eqb] in Hp.
    destruct (length q <? 8)%nat; [discriminate Hp|]. inversion Hp; reflexivity.
  - assert (wt = 5) by lia. subst wt. unfold ref_payload in Hp. cbn [N.eqb Pos.eqb] in Hp.
    destruct (length q <? 4)%nat; [discriminate Hp|]. inversion Hp; reflexivity.
  - assert (wt = 2) by lia. subst wt. cbn [mk dbuf doff] in Edv.
    destruct (len_agree B o q rest num f m l n Hok Hs Hp Hfit Edv) as (b & _ & -> & -> & _).
    rewrite Nat2N.id. reflexivity.
Qed.
