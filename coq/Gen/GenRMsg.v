(* Reference round trip (C05), one message level: the regular fields, then the oneof groups, then the
   unknown bytes, folded into the reference state from the empty message. *)
From CsProto Require Import Prelude Varint VarintSize ZigZag Codec RefWire WireStmts CodecBase EncProofs DecProofs
  Schema GenMarshal RefMsg GenStmts GenRArith GenRWire GenRBase GenRFields.
Local Open Scope N_scope.

Lemma in_group_inj g g' fd : in_group g fd = true -> in_group g' fd = true -> g = g'.
Proof.
  unfold in_group. destruct (fcard_ fd); try discriminate. intros H1 H2.
  apply Nat.eqb_eq in H1, H2. congruence.
Qed.
Lemma in_group_member g fd : in_group g fd = true -> is_oneof_member fd = true.
Proof. unfold in_group, is_oneof_member. destruct (fcard_ fd); try discriminate. reflexivity. Qed.

Lemma fold_max_ge g gs : In g gs -> (g <= fold_right Nat.max O gs)%nat.
Proof.
  induction gs as [|a r IH]; cbn [In fold_right]; intros H; [destruct H|].
  destruct H as [H|H]; [subst a; lia|]. specialize (IH H). lia.
Qed.
Lemma oneof_groups_in md fd g : In fd (mfields md) -> fcard_ fd = COneof g -> In g (oneof_groups md).
Proof.
  intros Hin Hc. unfold oneof_groups.
  set (gs := flat_map (fun f => match fcard_ f with COneof g => [g] | _ => [] end) (mfields md)).
  assert (Hg : In g gs).
  { unfold gs. apply in_flat_map. exists fd. split; [exact Hin|]. rewrite Hc. left. reflexivity. }
  pose proof (fold_max_ge g gs Hg) as Hle.
  destruct gs as [|a r] eqn:E; [destruct Hg|]. apply in_seq. lia.
Qed.
Lemma oneof_groups_nodup md : NoDup (oneof_groups md).
Proof. unfold oneof_groups. destruct (flat_map _ _); [constructor|apply seq_NoDup]. Qed.

Section Msg.
Variable sc : schema.
Variable msg_ok sub_ok : nat -> gval -> bool.
Variable size_msg : nat -> gval -> nat.
Variable ops_msg : nat -> gval -> outcome (list gop).
Variable dec : nat -> gval -> list byte -> option gval.
Variable D : nat.

Hypothesis Hnested : forall ty x body,
  msg_ok ty x = true -> sub_ok ty x = true -> ops_msg ty x = Ok body -> N.of_nat (size_msg ty x) < 2^31 ->
  length (gbytes body) = size_msg ty x /\
  ((length (gbytes body) < D)%nat -> exists x', dec ty GAbsent (gbytes body) = Some x' /\ msg_rel sc ty x' x).
Hypothesis Hdec0 : forall ty b, dec ty (GMsg [] []) b = dec ty GAbsent b.

Variable md : mdesc.
Hypothesis Hfok : forall fd, In fd (mfields md) -> field_ok sc md fd = true.
Hypothesis Hfind : forall fd, In fd (mfields md) -> find_field md (fnum fd) = Some fd.

Variable fs : list (N * gval).
Let yv (fd : fdesc) : gval := lookup_field (fnum fd) fs.
Hypothesis Hval : forall fd, In fd (mfields md) -> field_value_ok msg_ok fd (yv fd) = true.
Hypothesis Hsubs : forall fd, In fd (mfields md) -> field_sub (sub_of sub_ok) fd (yv fd) = true.
Hypothesis Hnzs : forall fd, In fd (mfields md) -> nz_field fd (yv fd) = true.
Hypothesis Hgroups : groups_ok md fs = true.

Lemma same_num fd fd' : In fd (mfields md) -> In fd' (mfields md) -> fnum fd = fnum fd' -> fd = fd'.
Proof.
  intros H1 H2 E. pose proof (Hfind fd H1) as F1. pose proof (Hfind fd' H2) as F2.
  rewrite E in F1. congruence.
Qed.

(* ---------- the regular fields ---------- *)
Lemma field_ops_oneof fd y : is_oneof_member fd = true ->
  field_ops size_msg ops_msg fd y = Ok [] /\ field_size size_msg fd y = O.
Proof.
  unfold is_oneof_member, field_ops, field_size. destruct (fcard_ fd); try discriminate. split; reflexivity.
Qed.

Lemma regular_phase : forall l ops,
  (forall fd, In fd l -> In fd (mfields md)) -> NoDup (map fnum l) ->
  concat_ops (fun f => field_ops size_msg ops_msg f (lookup_field (fnum f) fs)) l = Ok ops ->
  N.of_nat (sum_map (fun f => field_size size_msg f (lookup_field (fnum f) fs)) l) < 2^31 ->
  exists flds, gbytes ops = concat (map renc flds) /\ Forall rfield_wf flds /\
    length (gbytes ops) = sum_map (fun f => field_size size_msg f (lookup_field (fnum f) fs)) l /\
    ((length (gbytes ops) <= D)%nat -> forall st unk,
      (forall fd, In fd l -> lookup_field (fnum fd) st = GAbsent) ->
      exists st2, ref_fold dec md (st, unk) (map rawf flds) = Some (st2, unk) /\
        (forall m, ~ In m (map fnum l) -> lookup_field m st2 = lookup_field m st) /\
        (forall k, In k (map fst st2) ->
           In k (map fst st) \/ exists fd, In fd l /\ is_oneof_member fd = false /\ fnum fd = k) /\
        (forall fd, In fd l -> is_oneof_member fd = false ->
           field_rel sc fd (lookup_field (fnum fd) st2) (yv fd))).
Proof.
  induction l as [|fd r IH]; intros ops Hin Hnd Hops Hsz.
  - cbn [concat_ops] in Hops. inversion Hops; subst ops. exists []. split; [reflexivity|].
    split; [constructor|]. split; [reflexivity|]. intros _ st unk _. exists st.
    split; [reflexivity|]. split; [reflexivity|]. split; [intros k Hk; left; exact Hk|].
    intros fd [].
  - cbn [concat_ops sum_map map] in Hops, Hsz, Hnd |- *.
    inversion Hnd as [|? ? Hna Hnr]; subst.
    destruct (field_ops size_msg ops_msg fd (lookup_field (fnum fd) fs)) as [a| |] eqn:Ea; cbn [obind] in Hops; try discriminate Hops.
    destruct (concat_ops (fun f => field_ops size_msg ops_msg f (lookup_field (fnum f) fs)) r) as [b| |] eqn:Eb;
      cbn [obind] in Hops; try discriminate Hops.
    inversion Hops; subst ops. clear Hops.
    assert (Hfd : In fd (mfields md)) by (apply Hin; left; reflexivity).
    destruct (IH b (fun f Hf => Hin f (or_intror Hf)) Hnr eq_refl ltac:(lia)) as (flds2 & Hb2 & Hwf2 & Hlen2 & Hd2).
    destruct (is_oneof_member fd) eqn:Eo.
    + (* a oneof member: nothing is emitted in this loop *)
      destruct (field_ops_oneof fd (lookup_field (fnum fd) fs) Eo) as [Ea' Es']. rewrite Ea' in Ea.
      inversion Ea; subst a. rewrite Es'. cbn [app plus].
      exists flds2. split; [exact Hb2|]. split; [exact Hwf2|]. split; [exact Hlen2|].
      intros HD st unk Hst.
      destruct (Hd2 HD st unk (fun f Hf => Hst f (or_intror Hf))) as (st2 & Hf2 & Hfr2 & Hk2 & HP2).
      exists st2. split; [exact Hf2|].
      split; [intros m Hm; apply Hfr2; intros Hm'; apply Hm; right; exact Hm'|].
      split.
      { intros k Hk. destruct (Hk2 k Hk) as [Hk'|(fd' & Hfd' & Ho' & Hn')]; [left; exact Hk'|].
        right. exists fd'. split; [right; exact Hfd'|]. split; assumption. }
      intros fd' [Hfd'|Hfd'] Ho'; [subst fd'; congruence|]. apply HP2; assumption.
    + destruct (field_spec sc msg_ok sub_ok size_msg ops_msg dec D Hnested Hdec0 md fd (yv fd) a
                (Hfind fd Hfd) (Hfok fd Hfd) (Hval fd Hfd) (Hsubs fd Hfd) (Hnzs fd Hfd) Ea ltac:(unfold yv; lia))
        as (flds1 & Hb1 & Hwf1 & Hlen1 & Hd1).
      rewrite Eo in Hd1.
      exists (flds1 ++ flds2). rewrite gbytes_app, map_app, concat_app, Hb1, Hb2.
      split; [reflexivity|]. split; [apply Forall_app; split; assumption|].
      split; [rewrite app_length, <- Hb1, <- Hb2, Hlen1, Hlen2; reflexivity|].
      rewrite app_length, <- Hb1, <- Hb2. intros HD st unk Hst.
      destruct (Hd1 ltac:(lia) st unk (Hst fd (or_introl eq_refl))) as (st1 & Hf1 & Hfr1 & Hk1 & HP1).
      assert (Hst1 : forall fd', In fd' r -> lookup_field (fnum fd') st1 = GAbsent).
      { intros fd' Hfd'. rewrite Hfr1; [apply Hst; right; exact Hfd'|].
        intros E. apply Hna. rewrite <- E. apply in_map. exact Hfd'. }
      destruct (Hd2 ltac:(lia) st1 unk Hst1) as (st2 & Hf2 & Hfr2 & Hk2 & HP2).
      exists st2. rewrite map_app, ref_fold_app, Hf1, Hf2. split; [reflexivity|].
      split.
      { intros m Hm. rewrite Hfr2 by (intros Hm'; apply Hm; right; exact Hm').
        apply Hfr1. intros E. apply Hm. left. symmetry. exact E. }
      split.
      { intros k Hk. destruct (Hk2 k Hk) as [Hk'|(fd' & Hfd' & Ho' & Hn')].
        - destruct (Hk1 k Hk') as [Hk''|Hk'']; [|left; exact Hk''].
          right. exists fd. split; [left; reflexivity|]. split; [exact Eo|symmetry; exact Hk''].
        - right. exists fd'. split; [right; exact Hfd'|]. split; assumption. }
      intros fd' [Hfd'|Hfd'] Ho'.
      * subst fd'. rewrite Hfr2 by exact Hna. exact HP1.
      * apply HP2; assumption.
Qed.

(* ---------- the oneof groups ---------- *)
Lemma step_oneof fd g fld x' st unk :
  find_field md (fnum fd) = Some fd -> rnum fld = fnum fd -> fcard_ fd = COneof g ->
  lookup_field (fnum fd) st = GAbsent -> clear_group md g (fnum fd) st = st ->
  (forall prev, prev = GAbsent \/ prev = GMsg [] [] -> single_value dec (fkind_ fd) prev fld = Some (Some x')) ->
  ref_step dec md (st, unk) (rawf fld) = Some (set_field (fnum fd) x' st, unk).
Proof.
  intros Hf Hr Hc Hl Hcg Hsv. unfold ref_step, rawf. rewrite Hr, Hf, Hc, Hl, Hcg.
  assert (E : match fkind_ fd with FMsg _ => GAbsent | _ => GAbsent end = GAbsent) by (destruct (fkind_ fd); reflexivity).
  rewrite E, (Hsv GAbsent (or_introl eq_refl)). reflexivity.
Qed.

Definition is_absent (v : gval) : bool := match v with GAbsent => true | _ => false end.

Lemma group_spec g ops : In g (oneof_groups md) ->
  group_ops size_msg ops_msg md fs g = Ok ops -> N.of_nat (group_size size_msg md fs g) < 2^31 ->
  exists flds, gbytes ops = concat (map renc flds) /\ Forall rfield_wf flds /\
    length (gbytes ops) = group_size size_msg md fs g /\
    ((length (gbytes ops) <= D)%nat -> forall st unk,
      (forall fd, In fd (mfields md) -> in_group g fd = true -> ~ In (fnum fd) (map fst st)) ->
      exists st2, ref_fold dec md (st, unk) (map rawf flds) = Some (st2, unk) /\
        (forall m, (forall fd, In fd (mfields md) -> in_group g fd = true -> fnum fd <> m) ->
           lookup_field m st2 = lookup_field m st) /\
        (forall k, In k (map fst st2) ->
           In k (map fst st) \/ exists fd, In fd (mfields md) /\ in_group g fd = true /\ fnum fd = k) /\
        (forall fd, In fd (mfields md) -> in_group g fd = true ->
           field_rel sc fd (lookup_field (fnum fd) st2) (yv fd))).
Proof.
  intros Hg Hops Hsz. unfold group_ops in Hops. unfold group_size in Hsz |- *. unfold group_member in *.
  pose proof Hgroups as Hgo. unfold groups_ok in Hgo. rewrite forallb_forall in Hgo. specialize (Hgo g Hg).
  set (L := filter (fun f => in_group g f && negb (match lookup_field (fnum f) fs with GAbsent => true | _ => false end)) (mfields md)) in *.
  assert (HL : forall fd, In fd (mfields md) -> in_group g fd = true -> yv fd <> GAbsent -> In fd L).
  { intros fd H1 H2 H3. unfold L. apply filter_In. split; [exact H1|]. rewrite H2. cbn [andb].
    unfold yv in H3. destruct (lookup_field (fnum fd) fs); try reflexivity. congruence. }
  apply Nat.leb_le in Hgo.
  destruct L as [|f [|f2 r2]] eqn:EL; [| |cbn [length] in Hgo; lia].
  - (* no member set *)
    inversion Hops; subst ops. exists []. split; [reflexivity|]. split; [constructor|]. split; [reflexivity|].
    intros _ st unk Hst. exists st. split; [reflexivity|]. split; [reflexivity|].
    split; [intros k Hk; left; exact Hk|].
    intros fd H1 H2. rewrite (lookup_notin _ _ (Hst fd H1 H2)).
    destruct (yv fd) eqn:Ey; try (exfalso; apply (HL fd H1 H2); rewrite Ey; discriminate).
    apply field_rel_refl.
  - (* exactly one *)
    assert (Hf : In f (filter (fun f => in_group g f && negb (match lookup_field (fnum f) fs with GAbsent => true | _ => false end)) (mfields md)))
      by (fold L; rewrite EL; left; reflexivity).
    apply filter_In in Hf. destruct Hf as [Hfin Hf2]. apply andb_prop in Hf2. destruct Hf2 as [Hfg Hfy].
    assert (Hy : yv f <> GAbsent).
    { unfold yv. intros E. rewrite E in Hfy. discriminate Hfy. }
    assert (Hc : exists g', fcard_ f = COneof g').
    { unfold in_group in Hfg. destruct (fcard_ f); try discriminate Hfg. eexists; reflexivity. }
    destruct Hc as [g' Hc].
    assert (Hgg : g' = g).
    { unfold in_group in Hfg. rewrite Hc in Hfg. apply Nat.eqb_eq in Hfg. congruence. }
    subst g'.
    assert (Hsc : single_card (fcard_ f) = true) by (rewrite Hc; reflexivity).
    pose proof (Hval f Hfin) as Hv. rewrite (fvo_single msg_ok f (yv f) Hsc Hy) in Hv.
    pose proof (Hsubs f Hfin) as Hs. rewrite (fsub_single _ f (yv f) Hsc Hy) in Hs.
    destruct (elem_spec sc msg_ok sub_ok size_msg ops_msg dec D Hnested Hdec0 (fnum f) (fkind_ f) (yv f) ops
                (field_ok_tag sc md f (Hfok f Hfin)) Hv Hs Hops Hsz) as (fld & Hb & Hwf & Hr & Hlen & _ & Hd).
    exists [fld]. cbn [map concat]. rewrite app_nil_r.
    split; [exact Hb|]. split; [constructor; [exact Hwf|constructor]|]. split; [exact Hlen|].
    intros HD st unk Hst. destruct (Hd HD) as (x' & Hsv & Hrel).
    assert (Hl : lookup_field (fnum f) st = GAbsent) by (apply lookup_notin; apply (Hst f Hfin Hfg)).
    assert (Hcg : clear_group md g (fnum f) st = st).
    { apply clear_group_id. intros k f0 Hk Hf0. apply find_field_some in Hf0. destruct Hf0 as [Hf0in Hf0n].
      destruct (in_group g f0) eqn:Eg0; [|left; reflexivity].
      exfalso. apply (Hst f0 Hf0in Eg0). rewrite Hf0n. exact Hk. }
    exists (set_field (fnum f) x' st). rewrite ref_fold_cons.
    rewrite (step_oneof f g fld x' st unk (Hfind f Hfin) Hr Hc Hl Hcg Hsv), ref_fold_nil.
    split; [reflexivity|].
    split; [intros m Hm; apply lookup_set_other; intros E; apply (Hm f Hfin Hfg); symmetry; exact E|].
    split.
    { intros k Hk. apply keys_set in Hk. destruct Hk as [Hk|Hk]; [|left; exact Hk].
      right. exists f. split; [exact Hfin|]. split; [exact Hfg|symmetry; exact Hk]. }
    intros fd H1 H2. destruct (N.eq_dec (fnum fd) (fnum f)) as [E|E].
    + pose proof (same_num fd f H1 Hfin E) as Efd. subst fd. rewrite lookup_set_same.
      apply (rel_single sc msg_ok); try assumption. intros E2. rewrite Hc in E2. discriminate E2.
    + rewrite lookup_set_other by exact E. rewrite (lookup_notin _ _ (Hst fd H1 H2)).
      destruct (yv fd) eqn:Ey; try apply field_rel_refl;
        (exfalso; assert (Hin : In fd [f]) by (apply (HL fd H1 H2); rewrite Ey; discriminate);
         destruct Hin as [Hin|[]]; apply E; rewrite Hin; reflexivity).
Qed.

Lemma groups_phase : forall gs ops,
  (forall g, In g gs -> In g (oneof_groups md)) -> NoDup gs ->
  concat_ops (group_ops size_msg ops_msg md fs) gs = Ok ops ->
  N.of_nat (sum_map (group_size size_msg md fs) gs) < 2^31 ->
  exists flds, gbytes ops = concat (map renc flds) /\ Forall rfield_wf flds /\
    length (gbytes ops) = sum_map (group_size size_msg md fs) gs /\
    ((length (gbytes ops) <= D)%nat -> forall st unk,
      (forall fd g, In fd (mfields md) -> In g gs -> in_group g fd = true -> ~ In (fnum fd) (map fst st)) ->
      exists st2, ref_fold dec md (st, unk) (map rawf flds) = Some (st2, unk) /\
        (forall m, (forall fd g, In fd (mfields md) -> In g gs -> in_group g fd = true -> fnum fd <> m) ->
           lookup_field m st2 = lookup_field m st) /\
        (forall fd g, In fd (mfields md) -> In g gs -> in_group g fd = true ->
           field_rel sc fd (lookup_field (fnum fd) st2) (yv fd))).
Proof.
  induction gs as [|g r IH]; intros ops Hin Hnd Hops Hsz.
  - cbn [concat_ops] in Hops. inversion Hops; subst ops. exists []. split; [reflexivity|].
    split; [constructor|]. split; [reflexivity|]. intros _ st unk _. exists st.
    split; [reflexivity|]. split; [reflexivity|]. intros fd g _ [].
  - cbn [concat_ops sum_map] in Hops, Hsz |- *. inversion Hnd as [|? ? Hna Hnr]; subst.
    destruct (group_ops size_msg ops_msg md fs g) as [a| |] eqn:Ea; cbn [obind] in Hops; try discriminate Hops.
    destruct (concat_ops (group_ops size_msg ops_msg md fs) r) as [b| |] eqn:Eb; cbn [obind] in Hops; try discriminate Hops.
    inversion Hops; subst ops. clear Hops.
    destruct (IH b (fun g0 Hg0 => Hin g0 (or_intror Hg0)) Hnr eq_refl ltac:(lia)) as (flds2 & Hb2 & Hwf2 & Hlen2 & Hd2).
    destruct (group_spec g a (Hin g (or_introl eq_refl)) Ea ltac:(lia)) as (flds1 & Hb1 & Hwf1 & Hlen1 & Hd1).
    exists (flds1 ++ flds2). rewrite gbytes_app, map_app, concat_app, Hb1, Hb2.
    split; [reflexivity|]. split; [apply Forall_app; split; assumption|].
    split; [rewrite app_length, <- Hb1, <- Hb2, Hlen1, Hlen2; reflexivity|].
    rewrite app_length, <- Hb1, <- Hb2. intros HD st unk Hst.
    destruct (Hd1 ltac:(lia) st unk (fun fd H1 H2 => Hst fd g H1 (or_introl eq_refl) H2))
      as (st1 & Hf1 & Hfr1 & Hk1 & HP1).
    assert (Hdisj : forall fd fd' g', In fd (mfields md) -> In fd' (mfields md) -> In g' r ->
              in_group g fd = true -> in_group g' fd' = true -> fnum fd <> fnum fd').
    { intros fd fd' g' H1 H1' Hg' H2 H2' E. pose proof (same_num fd fd' H1 H1' E) as Efd. subst fd'.
      pose proof (in_group_inj g g' fd H2 H2') as Eg. subst g'. exact (Hna Hg'). }
    assert (Hst1 : forall fd g', In fd (mfields md) -> In g' r -> in_group g' fd = true -> ~ In (fnum fd) (map fst st1)).
    { intros fd g' H1 Hg' H2 Hk. destruct (Hk1 _ Hk) as [Hk'|(fd0 & H10 & H20 & E0)].
      - exact (Hst fd g' H1 (or_intror Hg') H2 Hk').
      - exact (Hdisj fd0 fd g' H10 H1 Hg' H20 H2 E0). }
    destruct (Hd2 ltac:(lia) st1 unk Hst1) as (st2 & Hf2 & Hfr2 & HP2).
    exists st2. rewrite map_app, ref_fold_app, Hf1, Hf2. split; [reflexivity|].
    split.
    { intros m Hm. rewrite Hfr2 by (intros fd g' H1 Hg' H2; apply (Hm fd g' H1 (or_intror Hg') H2)).
      apply Hfr1. intros fd H1 H2. apply (Hm fd g H1 (or_introl eq_refl) H2). }
    intros fd g0 H1 [Hg0|Hg0] H2.
    + subst g0. rewrite Hfr2; [apply HP1; assumption|].
      intros fd' g' H1' Hg' H2' E. exact (Hdisj fd fd' g' H1 H1' Hg' H2 H2' (eq_sym E)).
    + apply (HP2 fd g0); assumption.
Qed.

(* ---------- the unknown fields ---------- *)
Lemma unknown_phase : forall uflds st unk,
  forallb (fun '(f, _) => match find_field md (rnum f) with
                          | None => (1 <=? rnum f) && (rnum f <=? max_tag) | Some _ => false end) uflds = true ->
  ref_fold dec md (st, unk) uflds = Some (st, unk ++ concat (map snd uflds)).
Proof.
  induction uflds as [|[f raw] r IH]; intros st unk H.
  - cbn [map concat]. rewrite app_nil_r. reflexivity.
  - cbn [forallb] in H. apply andb_prop in H. destruct H as [H1 H2].
    rewrite ref_fold_cons.
    assert (Hs : ref_step dec md (st, unk) (f, raw) = Some (st, unk ++ raw)).
    { unfold ref_step. destruct (find_field md (rnum f)); [discriminate H1|reflexivity]. }
    rewrite Hs, (IH st (unk ++ raw) H2). cbn [map concat snd]. rewrite app_assoc. reflexivity.
Qed.

(* ---------- the whole message ---------- *)
Lemma msg_spec u ops :
  NoDup (map fnum (mfields md)) -> unknown_ok_at md u = true ->
  msg_ops_with size_msg ops_msg md fs u = Ok ops ->
  N.of_nat (msg_size_with size_msg md fs u) < 2^31 ->
  length (gbytes ops) = msg_size_with size_msg md fs u /\
  ((length (gbytes ops) <= D)%nat -> exists flds fs',
     ref_parse_all (S (length (gbytes ops))) (gbytes ops) = Some flds /\
     ref_fold dec md ([], []) flds = Some (fs', u) /\
     forall fd, In fd (mfields md) -> field_rel sc fd (lookup_field (fnum fd) fs') (yv fd)).
Proof.
  intros Hnd Hu Hops Hsz. unfold msg_ops_with in Hops. unfold msg_size_with in Hsz |- *.
  destruct (concat_ops (fun f => field_ops size_msg ops_msg f (lookup_field (fnum f) fs)) (mfields md))
    as [a| |] eqn:Ea; cbn [obind] in Hops; try discriminate Hops.
  destruct (concat_ops (group_ops size_msg ops_msg md fs) (oneof_groups md)) as [b| |] eqn:Eb;
    cbn [obind] in Hops; try discriminate Hops.
  inversion Hops; subst ops. clear Hops.
  destruct (regular_phase (mfields md) a (fun fd H => H) Hnd Ea ltac:(lia)) as (fa & Hba & Hwa & Hla & Hda).
  destruct (groups_phase (oneof_groups md) b (fun g H => H) (oneof_groups_nodup md) Eb ltac:(lia))
    as (fb & Hbb & Hwb & Hlb & Hdb).
  assert (Hbytes : gbytes (a ++ b ++ [GOp (ERaw u)]) = concat (map renc (fa ++ fb)) ++ u).
  { rewrite !gbytes_app, gbytes_one, map_app, concat_app, Hba, Hbb, <- app_assoc. reflexivity. }
  rewrite Hbytes.
  assert (Hlen : length (concat (map renc (fa ++ fb)) ++ u) = (length (gbytes a) + length (gbytes b) + length u)%nat).
  { rewrite app_length, map_app, concat_app, app_length, <- Hba, <- Hbb. reflexivity. }
  split; [lia|]. intros HD. rewrite Hlen in HD.
  unfold unknown_ok_at in Hu. destruct (ref_parse_all (S (length u)) u) as [uflds|] eqn:Eu; [|discriminate Hu].
  exists (map rawf (fa ++ fb) ++ uflds).
  destruct (Hda ltac:(lia) [] [] (fun fd _ => eq_refl)) as (stA & HfA & HfrA & HkA & HPA).
  assert (HstA : forall fd g, In fd (mfields md) -> In g (oneof_groups md) -> in_group g fd = true ->
            ~ In (fnum fd) (map fst stA)).
  { intros fd g H1 Hg H2 Hk. destruct (HkA _ Hk) as [[]|(fd0 & H10 & Ho0 & E0)].
    pose proof (same_num fd0 fd H10 H1 E0) as Efd. subst fd0.
    rewrite (in_group_member g fd H2) in Ho0. discriminate Ho0. }
  destruct (Hdb ltac:(lia) stA [] HstA) as (stB & HfB & HfrB & HPB).
  exists stB. split.
  { apply (ref_parse_all_renc (fa ++ fb) u uflds); [apply Forall_app; split; assumption|exact Eu|lia]. }
  split.
  { rewrite map_app, <- app_assoc, ref_fold_app, HfA. cbv beta iota.
    rewrite ref_fold_app, HfB. cbv beta iota. rewrite (unknown_phase uflds stB [] Hu).
    cbn [app]. rewrite (ref_parse_all_raw _ _ _ Eu). reflexivity. }
  intros fd H1. destruct (is_oneof_member fd) eqn:Eo.
  - unfold is_oneof_member in Eo. destruct (fcard_ fd) as [| | | | |g|] eqn:Ec; try discriminate Eo.
    apply (HPB fd g H1 (oneof_groups_in md fd g H1 Ec)). unfold in_group. rewrite Ec. apply Nat.eqb_refl.
  - rewrite HfrB; [apply HPA; assumption|].
    intros fd' g H1' Hg H2' E. pose proof (same_num fd' fd H1' H1 E) as Efd. subst fd'.
    rewrite (in_group_member g fd H2') in Eo. discriminate Eo.
Qed.

End Msg.
