(* What protoc-gen-fastmarshal's templates generate for Size(), Marshal() and MarshalTo(), as an
   interpreter over the schema (one clause per template snippet, fieldsnippets.tmpl), on top of the
   Encoder model of Wire/Codec.v.  MarshalTo is a PROGRAM of encoder calls; running it on a buffer
   that is too small panics exactly like the Go code does.  Definitions only. *)
From CsProto Require Import Prelude Varint ZigZag Codec RefWire WireStmts Schema.
Local Open Scope N_scope.

(* encoder programs: plain Encoder calls, and EncodeNested of a message that marshals itself in
   place: key, varint(sz) with sz = what Size() said, the nested MarshalTo on e.p[e.offset:], then
   e.offset += sz *)
Inductive gop :=
| GOp (op : eop)
| GNest (tag : N) (sz : nat) (body : list gop).

Fixpoint gstep (e : encoder) (op : gop) : outcome encoder :=
  match op with
  | GOp op => estep e op
  | GNest tag sz body =>
      let* e1 := put e (enc_key tag 2) in
      let* e2 := put e1 (enc_varint (N.of_nat sz)) in
      let* e3 := (fix go (e : encoder) (l : list gop) : outcome encoder :=
                    match l with [] => Ok e | x :: r => let* e' := gstep e x in go e' r end) e2 body in
      Ok {| ebuf := ebuf e3; eoff := (eoff e2 + sz)%nat |}
  end.
Fixpoint grun (e : encoder) (ops : list gop) : outcome encoder :=
  match ops with [] => Ok e | x :: r => let* e' := gstep e x in grun e' r end.

(* the bytes a program is meant to produce *)
Fixpoint gop_bytes (op : gop) : list byte :=
  match op with
  | GOp op => ebytes op
  | GNest tag sz body =>
      enc_key tag 2 ++ enc_varint (N.of_nat sz) ++
      (fix go (l : list gop) : list byte := match l with [] => [] | x :: r => gop_bytes x ++ go r end) body
  end.
Definition gbytes (ops : list gop) : list byte := concat (map gop_bytes ops).

(* ---------- sizes of the pieces, as the size snippets compute them ---------- *)
Definition num_size (k : skind) (z : Z) : nat := scalar_size k z.                 (* SizeOfVarint / SizeOfZigZag / 1 / 4 / 8 *)
Definition len_size (l : nat) : nat := (size_of_varint (N.of_nat l) + l)%nat.     (* SizeOfVarint(uint64(l)) + l *)

Section Interp.
Variable sc : schema.

(* the sub-message interpreters are parameters here (open recursion); the knot is tied by fuel below *)
Variable size_msg : nat -> gval -> nat.
Variable ops_msg : nat -> gval -> outcome (list gop).

(* value of a map key / value / oneof member / list element of kind k, with field tag `tag` *)
Definition elem_size (tag : N) (k : fkind) (v : gval) : nat :=
  match k, v with
  | FMsg ty, _ => let l := size_msg ty v in (size_key tag + len_size l)%nat
  | (FString | FBytes), GBytes b => (size_key tag + len_size (length b))%nat
  | (FString | FBytes), _ => (size_key tag + len_size 0)%nat
  | _, GNum z => match is_num_kind k with Some s => (size_key tag + num_size s z)%nat | None => O end
  | _, _ => match is_num_kind k with Some s => (size_key tag + num_size s 0)%nat | None => O end
  end.
Definition elem_ops (tag : N) (k : fkind) (v : gval) : outcome (list gop) :=
  match k, v with
  | FMsg ty, _ => let* body := ops_msg ty v in Ok [GNest tag (size_msg ty v) body]
  | (FString | FBytes), GBytes b => Ok [GOp (EBytes tag b)]
  | (FString | FBytes), _ => Ok [GOp (EBytes tag [])]
  | _, GNum z => match is_num_kind k with Some s => Ok [GOp (EScalar s tag z)] | None => Ok [] end
  | _, _ => match is_num_kind k with Some s => Ok [GOp (EScalar s tag 0)] | None => Ok [] end
  end.

(* is a singular field present, as the snippets test it *)
Definition present (f : fdesc) (v : gval) : bool :=
  match fcard_ f, v with
  | _, GAbsent => false
  | CImplicit, GNum z => negb (zero_like (fkind_ f) z)
  | CImplicit, GBytes b => match b with [] => false | _ => true end
  | _, _ => true
  end.

Definition list_of (v : gval) : list gval := match v with GList l => l | _ => [] end.
Definition nums_of (l : list gval) : list Z := map (fun x => match x with GNum z => z | _ => 0%Z end) l.
Definition map_of (v : gval) : list (gval * gval) := match v with GMap kvs => kvs | _ => [] end.

Fixpoint sum_map {A} (f : A -> nat) (l : list A) : nat := match l with [] => O | x :: r => (f x + sum_map f r)%nat end.
Fixpoint concat_ops {A} (f : A -> outcome (list gop)) (l : list A) : outcome (list gop) :=
  match l with
  | [] => Ok []
  | x :: r => let* a := f x in let* b := concat_ops f r in Ok (a ++ b)
  end.

(* one regular (non-oneof) field *)
Definition field_size (f : fdesc) (v : gval) : nat :=
  let tag := fnum f in
  match fcard_ f with
  | CImplicit | COptional | CRequired => if present f v then elem_size tag (fkind_ f) v else O
  | CPacked =>
      match is_num_kind (fkind_ f), list_of v with
      | Some s, (_ :: _) as l => let zs := nums_of l in (size_key tag + len_size (packed_len s zs))%nat
      | _, _ => O
      end
  | CUnpacked => sum_map (elem_size tag (fkind_ f)) (list_of v)
  | CMap kk vk =>
      sum_map (fun '(k, x) => let item := (elem_size 1 kk k + elem_size 2 vk x)%nat in
                              (size_key tag + len_size item)%nat) (map_of v)
  | COneof _ => O
  end.
Definition field_ops (f : fdesc) (v : gval) : outcome (list gop) :=
  let tag := fnum f in
  match fcard_ f with
  | CRequired => if present f v then elem_ops tag (fkind_ f) v else Err        (* "required field ... has no value" *)
  | CImplicit | COptional => if present f v then elem_ops tag (fkind_ f) v else Ok []
  | CPacked =>
      match is_num_kind (fkind_ f), list_of v with
      | Some s, (_ :: _) as l => Ok [GOp (EPacked s tag (nums_of l))]
      | _, _ => Ok []
      end
  | CUnpacked => concat_ops (elem_ops tag (fkind_ f)) (list_of v)
  | CMap kk vk =>
      concat_ops (fun '(k, x) =>
        let item := (elem_size 1 kk k + elem_size 2 vk x)%nat in
        let* ko := elem_ops 1 kk k in
        let* vo := elem_ops 2 vk x in
        Ok (GOp (EMapHeader tag (N.of_nat item)) :: ko ++ vo)) (map_of v)
  | COneof _ => Ok []
  end.

(* a oneof group: the member that is set (the first one present, in declaration order) *)
Definition group_member (md : mdesc) (fs : list (N * gval)) (g : nat) : option (fdesc * gval) :=
  match filter (fun f => in_group g f && negb (match lookup_field (fnum f) fs with GAbsent => true | _ => false end)) (mfields md) with
  | f :: _ => Some (f, lookup_field (fnum f) fs)
  | [] => None
  end.
Definition group_size (md : mdesc) (fs : list (N * gval)) (g : nat) : nat :=
  match group_member md fs g with Some (f, v) => elem_size (fnum f) (fkind_ f) v | None => O end.
Definition group_ops (md : mdesc) (fs : list (N * gval)) (g : nat) : outcome (list gop) :=
  match group_member md fs g with Some (f, v) => elem_ops (fnum f) (fkind_ f) v | None => Ok [] end.

Definition msg_size_with (md : mdesc) (fs : list (N * gval)) (unknown : list byte) : nat :=
  (sum_map (fun f => field_size f (lookup_field (fnum f) fs)) (mfields md)
   + sum_map (group_size md fs) (oneof_groups md) + length unknown)%nat.
Definition msg_ops_with (md : mdesc) (fs : list (N * gval)) (unknown : list byte) : outcome (list gop) :=
  let* a := concat_ops (fun f => field_ops f (lookup_field (fnum f) fs)) (mfields md) in
  let* b := concat_ops (group_ops md fs) (oneof_groups md) in
  Ok (a ++ b ++ [GOp (ERaw unknown)]).
End Interp.

(* tying the knot: Size() / MarshalTo() of message type ty on value v *)
Fixpoint gen_size (sc : schema) (fuel : nat) (ty : nat) (v : gval) : nat :=
  match fuel, v with
  | S f, GMsg fs u => msg_size_with (gen_size sc f) (nth ty sc empty_md) fs u
  | _, _ => O                                  (* nil message: 0 *)
  end.
Fixpoint gen_ops (sc : schema) (fuel : nat) (ty : nat) (v : gval) : outcome (list gop) :=
  match fuel, v with
  | S f, GMsg fs u => msg_ops_with (gen_size sc f) (gen_ops sc f) (nth ty sc empty_md) fs u
  | _, _ => Ok []                              (* nil message: no-op *)
  end.

Definition has_required (md : mdesc) : bool :=
  existsb (fun f => match fcard_ f with CRequired => true | _ => false end) (mfields md).

(* Marshal(): Size(), the empty shortcut (messages without required fields only), make, MarshalTo *)
Inductive mres := MBytes (b : list byte) | MErr | MPanic.
Definition gen_marshal (sc : schema) (ty : nat) (v : gval) : mres :=
  let fuel := S (vdepth v) in
  let n := gen_size sc fuel ty v in
  if negb (has_required (nth ty sc empty_md)) && (n =? 0)%nat then MBytes [] else
  match gen_ops sc fuel ty v with
  | Err => MErr
  | Panic => MPanic
  | Ok ops =>
      match grun {| ebuf := zeros n; eoff := 0 |} ops with
      | Ok e => MBytes (ebuf e)
      | Err => MErr
      | Panic => MPanic
      end
  end.
(* MarshalTo(dest) *)
Definition gen_marshal_to (sc : schema) (ty : nat) (v : gval) (dest : list byte) : outcome encoder :=
  let* ops := gen_ops sc (S (vdepth v)) ty v in grun {| ebuf := dest; eoff := 0 |} ops.
