(* Unknown-field retention of the generated Unmarshal on a legal encoding: the unknown bytes stored are
   exactly the raw encodings of the fields the top-level type does not declare, in input order.  Only
   cursor positions matter: no hypothesis on the nested Unmarshal, no [no_dup_msgs]. *)
From CsProto Require Import Prelude Varint ZigZag Codec RefWire WireStmts CodecBase DecProofs SafeProofs.
From CsProto Require Import Schema GenMarshal RefMsg GenStmts GenUnmarshal GenLegal.
From CsProto Require Import GenRArith GenRWire GenRBase GenRFields GenPBase GenUWire GenUBase GenUSim.
Local Open Scope N_scope.

Definition nok (r : ures) : Prop := match r with UOk _ _ => False | _ => True end.

Lemma of_dres_nok {A} (r : dres A) x : of_dres r = LStop x -> nok x.
Proof. destruct r; cbn [of_dres]; intros H; inversion H; exact I. Qed.

Definition unk_of (m : gval) : list byte := match m with GMsg _ u => u | _ => [] end.

Section Ret.
Variable sc : schema.
Variable fast : bool.
Variable um : nat -> list byte -> ures.
Variable lg : nat -> list byte -> bool.

(* ---------- a stop never carries a success ---------- *)
Lemma read_value_nok k wt d r : read_value um k wt d = LStop r -> nok r.
Proof.
  assert (Hnum : forall s, (match of_dres (dec_scalar d s) with
                            | LGo z d' => LGo (GNum z, false) d' | LStop r0 => LStop r0 end) = LStop r -> nok r).
  { intros s. destruct (of_dres (dec_scalar d s)) as [z d'|r0] eqn:E; intros H; inversion H; subst.
    exact (of_dres_nok _ _ E). }
  assert (Hbytes : (match of_dres (dec_bytes d) with
                    | LGo b d' => LGo (GBytes b, dfast d) d' | LStop r0 => LStop r0 end) = LStop r -> nok r).
  { destruct (of_dres (dec_bytes d)) as [z d'|r0] eqn:E; intros H; inversion H; subst.
    exact (of_dres_nok _ _ E). }
  unfold read_value, num_skind. destruct k as [s| | | |t]; cbn [is_num_kind].
  - destruct (negb (wt =? wt_of s)); [intros H; inversion H; exact I|apply Hnum].
  - destruct (negb (wt =? wt_of KInt32)); [intros H; inversion H; exact I|apply Hnum].
  - destruct (negb (wt =? 2)); [intros H; inversion H; exact I|apply Hbytes].
  - destruct (negb (wt =? 2)); [intros H; inversion H; exact I|apply Hbytes].
  - clear Hnum Hbytes. destruct (negb (wt =? 2)); [intros H; inversion H; exact I|].
    destruct (dec_nested _ d) as [b d'|d'|].
    + destruct (um t b) as [v al| |]; intros H; inversion H; exact I.
    + destruct (dec_bytes _) as [b d0|d0|]; [destruct (um t b) as [v al| |]|..]; intros H; inversion H; exact I.
    + intros H; inversion H; exact I.
Qed.

Lemma entry_loop_nok kk vk stop r : forall fuel d key val al,
  entry_loop um fuel kk vk stop d key val al = LStop r -> nok r.
Proof.
  induction fuel as [|fuel IH]; intros d key val al.
  - cbn [entry_loop]. intros H; inversion H; exact I.
  - rewrite entry_loop_S. destruct (doff d <? stop)%nat; [|intros H; discriminate H].
    destruct (of_dres (dec_tag d)) as [[tag wt] d1|r0] eqn:Et.
    2:{ intros H; inversion H; subst. exact (of_dres_nok _ _ Et). }
    destruct (tag =? 1).
    { destruct (read_value um kk wt d1) as [[v a] d2|r0] eqn:Ev; [apply IH|].
      intros H; inversion H; subst. exact (read_value_nok _ _ _ _ Ev). }
    destruct (tag =? 2).
    { destruct (read_value um vk wt d1) as [[v a] d2|r0] eqn:Ev; [apply IH|].
      intros H; inversion H; subst. exact (read_value_nok _ _ _ _ Ev). }
    destruct (of_dres (dec_skip d1 (Z.of_N tag) (Z.of_N wt))) as [y d2|r0] eqn:Es; [apply IH|].
    intros H; inversion H; subst. exact (of_dres_nok _ _ Es).
Qed.

Lemma read_field_nok md fd wt d fs r : read_field um md fd wt d fs = LStop r -> nok r.
Proof.
  assert (Hval : forall (g : gval -> list (N * gval)),
            (match read_value um (fkind_ fd) wt d with
             | LGo (v, a) d' => LGo (g v, a) d' | LStop r0 => LStop r0 end) = LStop r -> nok r).
  { intros g. destruct (read_value um (fkind_ fd) wt d) as [[v a] d'|r0] eqn:Ev; intros H; inversion H; subst.
    exact (read_value_nok _ _ _ _ Ev). }
  assert (Hrep : (let cur := match lookup_field (fnum fd) fs with GList l => l | _ => [] end in
      match num_skind (fkind_ fd) with
      | Some s =>
          if wt =? wt_of s then
            match of_dres (dec_scalar d s) with
            | LGo z d' => LGo (set_field (fnum fd) (GList (cur ++ [GNum z])) fs, false) d'
            | LStop r => LStop r
            end
          else if wt =? 2 then
            match of_dres (dec_packed d s) with
            | LGo zs d' => LGo (set_field (fnum fd) (GList (cur ++ map GNum zs)) fs, false) d'
            | LStop r => LStop r
            end
          else LStop UErr
      | None =>
          match read_value um (fkind_ fd) wt d with
          | LGo (v, a) d' => LGo (set_field (fnum fd) (GList (cur ++ [v])) fs, a) d'
          | LStop r => LStop r
          end
      end) = LStop r -> nok r).
  { cbv zeta. destruct (num_skind (fkind_ fd)) as [s|].
    - destruct (wt =? wt_of s).
      + destruct (of_dres (dec_scalar d s)) as [z d'|r0] eqn:E; intros H; inversion H; subst.
        exact (of_dres_nok _ _ E).
      + destruct (wt =? 2); [|intros H; inversion H; exact I].
        destruct (of_dres (dec_packed d s)) as [z d'|r0] eqn:E; intros H; inversion H; subst.
        exact (of_dres_nok _ _ E).
    - apply (Hval (fun v => set_field (fnum fd) (GList (_ ++ [v])) fs)). }
  unfold read_field. cbv zeta. destruct (fcard_ fd) as [| | | | |g|kk vk].
  - apply (Hval (fun v => set_field (fnum fd) v fs)).
  - apply (Hval (fun v => set_field (fnum fd) v fs)).
  - apply (Hval (fun v => set_field (fnum fd) v fs)).
  - exact Hrep.
  - exact Hrep.
  - apply (Hval (fun v => set_field (fnum fd) v (clear_group md g (fnum fd) fs))).
  - destruct (negb (wt =? 2)); [intros H; inversion H; exact I|].
    destruct (of_dres (dec_scalar d KUInt32)) as [sz d1|r0] eqn:E.
    2:{ intros H; inversion H; subst. exact (of_dres_nok _ _ E). }
    destruct (entry_loop um _ kk vk _ d1 None None false) as [[[key val] al] d2|r0] eqn:El.
    2:{ intros H; inversion H; subst. exact (entry_loop_nok _ _ _ _ _ _ _ _ _ El). }
    destruct (negb _); [intros H; inversion H; exact I|].
    destruct val as [x0|]; [intros H; discriminate H|].
    destruct vk as [| | | |t]; try (intros H; discriminate H).
    destruct (um t []) as [v0 a0| |] eqn:Eu; intros H; inversion H; exact I.
Qed.

(* ---------- positions: one value ---------- *)
Lemma read_value_pos k f B off rest x d' :
  rfield_wfb f = true -> value_legal sc lg k f = true ->
  skipn off B = rpayload f ++ rest ->
  read_value um k (rwt f) (mk B off fast) = LGo x d' ->
  d' = mk B (off + length (rpayload f)) fast.
Proof.
  intros Hwf Hleg Hs.
  assert (Hnum : forall s, is_num_kind k = Some s -> scalar_legal s f = true ->
            read_value um k (rwt f) (mk B off fast) = LGo x d' ->
            d' = mk B (off + length (rpayload f)) fast).
  { intros s Hk Hsl.
    destruct (dec_scalar_legal B off fast s f rest Hwf Hsl Hs) as (Hwt & z & _ & _ & Hdec).
    unfold read_value, num_skind. destruct k as [s0| | | |t]; try discriminate Hk;
      rewrite Hk, Hwt, N.eqb_refl; cbn [negb]; rewrite Hdec; cbn [of_dres];
      intros H; inversion H; reflexivity. }
  destruct k as [s| | | |t].
  - apply (Hnum s eq_refl). unfold value_legal in Hleg. cbn [is_num_kind] in Hleg. destruct f; exact Hleg.
  - apply (Hnum KInt32 eq_refl). unfold value_legal in Hleg. cbn [is_num_kind] in Hleg. destruct f; exact Hleg.
  - destruct f as [num v|num b|num b|num b]; try (cbn [value_legal is_num_kind] in Hleg; discriminate Hleg).
    unfold read_value. cbn [rwt]. change (negb (2 =? 2)) with false. cbv iota.
    rewrite (dec_bytes_legal B off fast num b rest Hwf Hs). cbn [of_dres].
    intros H; inversion H; reflexivity.
  - destruct f as [num v|num b|num b|num b]; try (cbn [value_legal is_num_kind] in Hleg; discriminate Hleg).
    unfold read_value. cbn [rwt]. change (negb (2 =? 2)) with false. cbv iota.
    rewrite (dec_bytes_legal B off fast num b rest Hwf Hs). cbn [of_dres].
    intros H; inversion H; reflexivity.
  - destruct f as [num v|num b|num b|num b]; try (cbn [value_legal is_num_kind] in Hleg; discriminate Hleg).
    unfold read_value. cbn [rwt]. change (negb (2 =? 2)) with false. cbv iota.
    rewrite (dec_nested_legal _ B off fast num b rest Hwf Hs).
    destruct (um t b) as [v al| |] eqn:Eu.
    + rewrite Eu. intros H; inversion H; reflexivity.
    + destruct (dec_bytes _) as [b0 d0|d0|]; [destruct (um t b0) as [v0 al0| |]|..]; intros H; discriminate H.
    + destruct (dec_bytes _) as [b0 d0|d0|]; [destruct (um t b0) as [v0 al0| |]|..]; intros H; discriminate H.
Qed.

(* ---------- positions: one map entry ---------- *)
Lemma entry_loop_pos kk vk B stop :
  forall efs off fuel key val al rest x d',
  Forall (fun f => rfield_wfb f = true) efs ->
  Forall (fun f => entry_field_legal sc lg kk vk f = true) efs ->
  skipn off B = concat (map renc efs) ++ rest ->
  stop = (off + length (concat (map renc efs)))%nat ->
  (length efs < fuel)%nat ->
  entry_loop um fuel kk vk stop (mk B off fast) key val al = LGo x d' ->
  d' = mk B stop fast.
Proof.
  induction efs as [|e efs IH]; intros off fuel key val al rest x d' Hwf Hleg Hs Hstop Hfuel.
  - destruct fuel as [|fuel]; [cbn [length] in Hfuel; lia|].
    cbn [map concat length] in Hstop. rewrite entry_loop_S. cbn [mk doff].
    destruct (Nat.ltb_spec off stop) as [Hc|_]; [lia|].
    replace stop with off by lia. intros H; inversion H; reflexivity.
  - destruct fuel as [|fuel]; [cbn [length] in Hfuel; lia|]. cbn [length] in Hfuel.
    inversion Hwf as [|? ? Hwe Hwr]; subst. inversion Hleg as [|? ? Hle Hlr]; subst.
    cbn [map concat] in Hs. rewrite <- app_assoc in Hs.
    set (rest' := concat (map renc efs) ++ rest) in *.
    pose proof (rfield_wfb_wf e Hwe) as Hwfe.
    destruct (dec_tag_renc B off fast e rest' Hwfe Hs) as (_ & Htag & Hs1).
    pose proof (renc_pos e) as Hpos. pose proof (renc_length e) as Hrl.
    cbn [map concat] in *. rewrite app_length in *.
    rewrite entry_loop_S. cbn [mk doff]. fold (mk B off fast).
    destruct (Nat.ltb_spec off (off + (length (renc e) + length (concat (map renc efs))))) as [_|Hc]; [|lia].
    rewrite Htag. cbn [of_dres].
    assert (Hs2 : skipn (off + length (renc e)) B = concat (map renc efs) ++ rest).
    { apply skipn_app_step. exact Hs. }
    assert (Hoff : (off + length (rkey e) + length (rpayload e) = off + length (renc e))%nat) by lia.
    assert (Hst2 : (off + (length (renc e) + length (concat (map renc efs))) =
                    off + length (renc e) + length (concat (map renc efs)))%nat) by lia.
    assert (Hf2 : (length efs < fuel)%nat) by lia.
    unfold entry_field_legal in Hle.
    destruct (N.eqb_spec (rnum e) 1) as [H1|H1].
    + destruct (read_value um kk (rwt e) (mk B (off + length (rkey e)) fast)) as [[v a] d2|r0] eqn:Ev;
        [|intros H; discriminate H].
      pose proof (read_value_pos kk e B (off + length (rkey e))%nat rest' (v, a) d2 Hwe Hle Hs1 Ev) as Hd2.
      rewrite Hoff in Hd2. subst d2.
      apply (IH (off + length (renc e))%nat fuel (Some v) val (al || a)%bool rest x d' Hwr Hlr Hs2 Hst2 Hf2).
    + destruct (N.eqb_spec (rnum e) 2) as [H2|H2].
      * destruct (read_value um vk (rwt e) (mk B (off + length (rkey e)) fast)) as [[v a] d2|r0] eqn:Ev;
          [|intros H; discriminate H].
        pose proof (read_value_pos vk e B (off + length (rkey e))%nat rest' (v, a) d2 Hwe Hle Hs1 Ev) as Hd2.
        rewrite Hoff in Hd2. subst d2.
        apply (IH (off + length (renc e))%nat fuel key (Some v) (al || a)%bool rest x d' Hwr Hlr Hs2 Hst2 Hf2).
      * destruct (dec_skip_renc B off fast e rest' Hwfe Hs) as [Hsk _].
        rewrite Hsk. cbn [of_dres].
        apply (IH (off + length (renc e))%nat fuel key val al rest x d' Hwr Hlr Hs2 Hst2 Hf2).
Qed.

(* ---------- positions: one declared field ---------- *)
Lemma read_field_pos md fd f B off rest fs x d' :
  find_field md (rnum f) = Some fd ->
  rfield_wfb f = true -> field_legal sc lg md f = true ->
  skipn off B = rpayload f ++ rest ->
  read_field um md fd (rwt f) (mk B off fast) fs = LGo x d' ->
  d' = mk B (off + length (rpayload f)) fast.
Proof.
  intros Hfind Hwf Hleg Hs.
  destruct (find_field_some md (rnum f) fd Hfind) as [Hin Hnum].
  unfold field_legal in Hleg. rewrite Hfind in Hleg.
  assert (Hsingle : forall (g : gval -> list (N * gval)),
            value_legal sc lg (fkind_ fd) f = true ->
            (match read_value um (fkind_ fd) (rwt f) (mk B off fast) with
             | LGo (v, a) d0 => LGo (g v, a) d0 | LStop r0 => LStop r0 end) = LGo x d' ->
            d' = mk B (off + length (rpayload f)) fast).
  { intros g Hvl. destruct (read_value um (fkind_ fd) (rwt f) (mk B off fast)) as [[v a] d0|r0] eqn:Ev;
      [|intros H; discriminate H].
    pose proof (read_value_pos (fkind_ fd) f B off rest (v, a) d0 Hwf Hvl Hs Ev) as Hd0. subst d0.
    intros H; inversion H; reflexivity. }
  assert (Hrep : forall c, (c = CPacked \/ c = CUnpacked) -> fcard_ fd = c ->
            read_field um md fd (rwt f) (mk B off fast) fs = LGo x d' ->
            d' = mk B (off + length (rpayload f)) fast).
  { intros c Hc Hcard. assert (Hleg' : match is_num_kind (fkind_ fd), f with
          | Some s, RLen _ b => packed_legal (S (length b)) s b
          | _, _ => value_legal sc lg (fkind_ fd) f
          end = true).
    { rewrite Hcard in Hleg. destruct Hc as [-> | ->]; exact Hleg. }
    clear Hleg.
    assert (Hrf : read_field um md fd (rwt f) (mk B off fast) fs =
      let cur := match lookup_field (fnum fd) fs with GList l => l | _ => [] end in
      match num_skind (fkind_ fd) with
      | Some s =>
          if rwt f =? wt_of s then
            match of_dres (dec_scalar (mk B off fast) s) with
            | LGo z d' => LGo (set_field (fnum fd) (GList (cur ++ [GNum z])) fs, false) d'
            | LStop r => LStop r
            end
          else if rwt f =? 2 then
            match of_dres (dec_packed (mk B off fast) s) with
            | LGo zs d' => LGo (set_field (fnum fd) (GList (cur ++ map GNum zs)) fs, false) d'
            | LStop r => LStop r
            end
          else LStop UErr
      | None =>
          match read_value um (fkind_ fd) (rwt f) (mk B off fast) with
          | LGo (v, a) d' => LGo (set_field (fnum fd) (GList (cur ++ [v])) fs, a) d'
          | LStop r => LStop r
          end
      end).
    { unfold read_field. rewrite Hcard. destruct Hc as [-> | ->]; reflexivity. }
    rewrite Hrf. clear Hrf. cbv zeta. unfold num_skind.
    destruct (is_num_kind (fkind_ fd)) as [s|] eqn:Ek.
    + destruct f as [num v|num b|num b|num b].
      1-3: (match type of Hleg' with value_legal _ _ _ ?f0 = true =>
              assert (Hsl : scalar_legal s f0 = true)
                by (unfold value_legal in Hleg'; destruct (fkind_ fd); try discriminate Ek; rewrite Ek in Hleg'; exact Hleg');
              destruct (dec_scalar_legal B off fast s f0 rest Hwf Hsl Hs) as (Hwt & z & _ & _ & Hdec);
              rewrite Hwt, N.eqb_refl, Hdec; cbn [of_dres]; intros H; inversion H; reflexivity
            end).
      destruct (dec_packed_legal B off fast s num b rest Hwf Hleg' Hs) as (zs & _ & _ & Hdec).
      cbn [rwt]. rewrite wt_of_ne2. change (2 =? 2) with true. cbv iota. rewrite Hdec. cbn [of_dres].
      intros H; inversion H; reflexivity.
    + apply (Hsingle (fun v => set_field (fnum fd) (GList (_ ++ [v])) fs)).
      destruct f; exact Hleg'. }
  destruct (fcard_ fd) as [| | | | |g|kk vk] eqn:Hcard.
  - unfold read_field. rewrite Hcard. apply (Hsingle (fun v => set_field (fnum fd) v fs) Hleg).
  - unfold read_field. rewrite Hcard. apply (Hsingle (fun v => set_field (fnum fd) v fs) Hleg).
  - unfold read_field. rewrite Hcard. apply (Hsingle (fun v => set_field (fnum fd) v fs) Hleg).
  - apply (Hrep CPacked); [left; reflexivity|reflexivity].
  - apply (Hrep CUnpacked); [right; reflexivity|reflexivity].
  - unfold read_field. rewrite Hcard.
    apply (Hsingle (fun v => set_field (fnum fd) v (clear_group md g (fnum fd) fs)) Hleg).
  - (* map *)
    clear Hsingle Hrep.
    destruct f as [num v|num b|num b|num b]; try discriminate Hleg.
    cbn [rnum] in Hnum, Hfind. subst num. cbn [rwt rnum].
    unfold entry_legal in Hleg. destruct (canonical_fields b) as [efs|] eqn:Hcf; [|discriminate Hleg].
    apply andb_prop in Hleg. destruct Hleg as [Hel _].
    destruct (canonical_fields_spec b efs Hcf) as (Hb & Hwfs & _).
    destruct (dec_len_legal B off fast (fnum fd) b rest Hwf Hs) as (Hdl & Hs1 & Hlen & Hpl).
    set (lv := length (ref_varint (N.of_nat (length b)))) in *.
    assert (Hel' : Forall (fun f => entry_field_legal sc lg kk vk f = true) efs).
    { apply Forall_forall. intros e He. rewrite forallb_forall in Hel. exact (Hel e He). }
    assert (Hs1' : skipn (off + lv) B = concat (map renc efs) ++ rest) by (rewrite <- Hb; exact Hs1).
    pose proof (fields_count efs) as Hcnt. rewrite <- Hb in Hcnt.
    assert (Hlb : (length b <= length B)%nat) by (clear - Hlen; lia).
    assert (Hfuel : (length efs < S (length B))%nat) by (clear - Hcnt Hlb; lia).
    assert (Hmin : Z.to_nat (Z.min (Z.of_nat (length b)) (Z.of_nat (S (length B)))) = length b) by (clear - Hlb; lia).
    assert (Hstop : (off + lv + length b = off + lv + length (concat (map renc efs)))%nat)
      by (rewrite <- Hb; reflexivity).
    unfold read_field. rewrite Hcard. change (negb (2 =? 2)) with false. cbv iota. rewrite Hdl. cbn [of_dres].
    cbv zeta. cbn [mk dbuf doff]. rewrite Hmin. fold (mk B (off + lv) fast).
    destruct (entry_loop um (S (length B)) kk vk (off + lv + length b)%nat (mk B (off + lv) fast) None None false)
      as [[[key val] al] d2|r0] eqn:El; [|intros H; discriminate H].
    pose proof (entry_loop_pos kk vk B (off + lv + length b)%nat efs (off + lv)%nat (S (length B)) None None false rest
                  _ _ Hwfs Hel' Hs1' Hstop Hfuel El) as Hd2.
    subst d2. cbn [mk doff]. rewrite Nat.eqb_refl. cbn [negb].
    rewrite Hpl, Nat.add_assoc.
    destruct val as [x0|]; [intros H; inversion H; reflexivity|].
    destruct vk as [| | | |t]; try (intros H; inversion H; reflexivity).
    destruct (um t []) as [v0 a0| |]; intros H; inversion H; reflexivity.
Qed.

(* ---------- the dispatch loop: what it stores as unknown ---------- *)
Lemma field_loop_unk md B :
  forall flds off fuel fs unk al m al',
  Forall (fun f => rfield_wfb f = true) flds ->
  Forall (fun f => field_legal sc lg md f = true) flds ->
  skipn off B = concat (map renc flds) ->
  (length flds < fuel)%nat ->
  field_loop um fuel md (mk B off fast) fs unk al = UOk m al' ->
  unk_of m = unk ++ concat (map renc (undecl md flds)).
Proof.
  induction flds as [|f flds IH]; intros off fuel fs unk al m al' Hwf Hleg Hs Hfuel.
  - destruct fuel as [|fuel]; [cbn [length] in Hfuel; lia|].
    cbn [map concat undecl filter]. rewrite app_nil_r.
    rewrite field_loop_S. unfold at_eof. cbn [mk dbuf doff].
    assert (Hl : (length B <= off)%nat).
    { apply (f_equal (@length byte)) in Hs. rewrite skipn_length in Hs. cbn [map concat length] in Hs. lia. }
    destruct (Nat.leb_spec (length B) off) as [_|Hc]; [|lia].
    destruct (req_top md fs); intros H; inversion H; reflexivity.
  - destruct fuel as [|fuel]; [cbn [length] in Hfuel; lia|]. cbn [length] in Hfuel.
    inversion Hwf as [|? ? Hwe Hwr]; subst. inversion Hleg as [|? ? Hle Hlr]; subst.
    cbn [map concat] in Hs.
    set (rest := concat (map renc flds)) in *.
    pose proof (rfield_wfb_wf f Hwe) as Hwff.
    destruct (dec_tag_renc B off fast f rest Hwff Hs) as (Heof & Htag & Hs1).
    pose proof (renc_length f) as Hrl.
    assert (Hs2 : skipn (off + length (renc f)) B = rest).
    { rewrite <- (app_nil_r rest). apply skipn_app_step. rewrite app_nil_r. exact Hs. }
    assert (Hoff : (off + length (rkey f) + length (rpayload f) = off + length (renc f))%nat) by lia.
    assert (Hf2 : (length flds < fuel)%nat) by lia.
    rewrite field_loop_S, Heof, Htag. cbn [of_dres].
    unfold undecl. cbn [filter]. fold (undecl md flds).
    destruct (find_field md (rnum f)) as [fd|] eqn:Hfind.
    + destruct (read_field um md fd (rwt f) (mk B (off + length (rkey f)) fast) fs) as [[fs2 a] d2|r0] eqn:Erf.
      * pose proof (read_field_pos md fd f B (off + length (rkey f))%nat rest fs (fs2, a) d2 Hfind Hwe Hle Hs1 Erf) as Hd2.
        rewrite Hoff in Hd2. subst d2.
        apply (IH (off + length (renc f))%nat fuel fs2 unk (al || a)%bool m al' Hwr Hlr Hs2 Hf2).
      * intros H. subst r0. exfalso. exact (read_field_nok _ _ _ _ _ _ Erf).
    + destruct (dec_skip_renc B off fast f rest Hwff Hs) as [Hsk Hsl].
      rewrite Hsk. cbn [of_dres mk dbuf doff]. rewrite Hsl. fold (mk B (off + length (renc f)) fast).
      intros H.
      rewrite (IH (off + length (renc f))%nat fuel fs (unk ++ renc f) al m al' Hwr Hlr Hs2 Hf2 H).
      cbn [map concat]. rewrite app_assoc. reflexivity.
Qed.

End Ret.

Theorem unknown_retained : forall sc ty p fast dest m al flds,
  schema_ok sc = true -> legal_msg sc (S (length p)) ty p = true ->
  canonical_fields p = Some flds ->
  gen_unmarshal_into sc fast ty dest p = UOk m al ->
  match m with GMsg _ u => u | _ => [] end
  = concat (map renc (filter (fun f => match find_field (nth ty sc empty_md) (rnum f) with None => true | Some _ => false end) flds)).
Proof.
  intros sc ty p fast dest m al flds _ Hleg Hcf Hun.
  set (md := nth ty sc empty_md).
  change (legal_msg sc (S (length p)) ty p) with (msg_legal sc (legal_msg sc (length p)) md p) in Hleg.
  unfold msg_legal in Hleg. rewrite Hcf in Hleg.
  destruct (canonical_fields_spec p flds Hcf) as (Hp & Hwfs & _).
  assert (Hl : Forall (fun f => field_legal sc (legal_msg sc (length p)) md f = true) flds).
  { apply Forall_forall. intros e He. rewrite forallb_forall in Hleg. exact (Hleg e He). }
  pose proof (fields_count flds) as Hcnt. rewrite <- Hp in Hcnt.
  assert (Hfuel : (length flds < S (length p))%nat) by (clear - Hcnt; lia).
  change (gen_unmarshal_into sc fast ty dest p)
    with (field_loop (gen_unmarshal sc fast (length p)) (S (length p)) md (mk p 0 fast) [] [] false) in Hun.
  assert (Hs : skipn 0 p = concat (map renc flds)) by (cbn [skipn]; exact Hp).
  pose proof (field_loop_unk sc fast (gen_unmarshal sc fast (length p)) (legal_msg sc (length p)) md p
                flds 0%nat (S (length p)) [] [] false m al Hwfs Hl Hs Hfuel Hun) as H.
  exact H.
Qed.

Print Assumptions unknown_retained.
