(* Reference semantics of a message: what a conforming protobuf parser makes of a byte string, given
   only the schema -- transcribed from the encoding specification (DESIGN.md appendix D.1), on top of
   the reference wire parser of Wire/RefWire.v.  Independent of the csproto decoder model and of the
   generated-code model.  Definitions only. *)
From CsProto Require Import Prelude Varint ZigZag Codec RefWire WireStmts Schema.
Local Open Scope N_scope.

(* a message as a sequence of fields, each with its complete raw encoding *)
Fixpoint ref_parse_all (fuel : nat) (p : list byte) : option (list (rfield * list byte)) :=
  match p with
  | [] => Some []
  | _ =>
    match fuel with
    | O => None
    | S f =>
      match ref_parse_field p with
      | None => None
      | Some (fld, n) =>
          if (n =? 0)%nat then None else
          match ref_parse_all f (skipn n p) with
          | Some r => Some ((fld, firstn n p) :: r)
          | None => None
          end
      end
    end
  end.

(* textbook reading of a wire integer as the Go value of each kind (readers truncate to the width) *)
Definition sgn (w : Z) (v : N) : Z :=
  let m := (Z.of_N v mod 2 ^ w)%Z in if (m <? 2 ^ (w - 1))%Z then m else (m - 2 ^ w)%Z.
Definition unzigzag (v : N) : Z := if N.even v then Z.of_N (v / 2) else (- Z.of_N ((v + 1) / 2))%Z.
Definition typed_of_wire (k : skind) (v : N) : Z :=
  match k with
  | KBool => if v =? 0 then 0%Z else 1%Z
  | KInt32 | KSFixed32 => sgn 32 v
  | KInt64 | KSFixed64 => sgn 64 v
  | KUInt32 | KFixed32 | KFloat => Z.of_N (v mod 2^32)
  | KUInt64 | KFixed64 | KDouble => Z.of_N (v mod 2^64)
  | KSInt32 => unzigzag (v mod 2^32)
  | KSInt64 => unzigzag (v mod 2^64)
  end.

(* the scalar a reference field carries, when its wire type is the kind's *)
Definition scalar_of_field (k : skind) (f : rfield) : option Z :=
  match f with
  | RVarint _ v => if wt_of k =? 0 then Some (typed_of_wire k v) else None
  | RFixed32 _ b => if wt_of k =? 5 then Some (typed_of_wire k (le_val b)) else None
  | RFixed64 _ b => if wt_of k =? 1 then Some (typed_of_wire k (le_val b)) else None
  | RLen _ _ => None
  end.

(* a packed run: the payload split into consecutive elements of kind k *)
Fixpoint unpack (fuel : nat) (k : skind) (p : list byte) : option (list Z) :=
  match p with
  | [] => Some []
  | _ =>
    match fuel with
    | O => None
    | S f =>
      if wt_of k =? 0 then
        match ref_varint_val p, ref_varint_len p with
        | Some v, Some n => match unpack f k (skipn n p) with Some r => Some (typed_of_wire k v :: r) | None => None end
        | _, _ => None
        end
      else
        let w := width_of k in
        if (length p <? w)%nat then None
        else match unpack f k (skipn w p) with
             | Some r => Some (typed_of_wire k (le_val (firstn w p)) :: r) | None => None end
    end
  end.

Definition find_field (md : mdesc) (num : N) : option fdesc :=
  find (fun f => fnum f =? num) (mfields md).

Fixpoint set_field (n : N) (v : gval) (fs : list (N * gval)) : list (N * gval) :=
  match fs with
  | [] => [(n, v)]
  | (k, x) :: r => if k =? n then (k, v) :: r else (k, x) :: set_field n v r
  end.
Definition clear_field (n : N) (fs : list (N * gval)) : list (N * gval) :=
  filter (fun '(k, _) => negb (k =? n)) fs.
(* setting a oneof member clears the other members of its group *)
Definition clear_group (md : mdesc) (g : nat) (keep : N) (fs : list (N * gval)) : list (N * gval) :=
  filter (fun '(k, _) =>
    match find_field md k with
    | Some f => negb (in_group g f) || (k =? keep)
    | None => true
    end) fs.

Definition zero_of (k : fkind) : gval :=
  match k with FString | FBytes => GBytes [] | FMsg _ => GMsg [] [] | _ => GNum 0 end.
Definition gval_eqb_key (a b : gval) : bool :=
  match a, b with
  | GNum x, GNum y => (x =? y)%Z
  | GBytes x, GBytes y => (length x =? length y)%nat && forallb (fun '(p, q) => p =? q) (combine x y)
  | _, _ => false
  end.
Fixpoint map_set (k v : gval) (kvs : list (gval * gval)) : list (gval * gval) :=
  match kvs with
  | [] => [(k, v)]
  | (k0, v0) :: r => if gval_eqb_key k0 k then (k0, v) :: r else (k0, v0) :: map_set k v r
  end.

Section Decode.
Variable sc : schema.
(* open recursion: decoding a nested message of type ty, merged into an existing value *)
Variable decode_msg : nat -> gval -> list byte -> option gval.

(* value of one occurrence for a field of kind k that is not repeated-numeric *)
Definition single_value (k : fkind) (prev : gval) (f : rfield) : option (option gval) :=
  (* None = parse failure; Some None = wire type does not fit (unknown field); Some (Some v) = value *)
  match k, f with
  | FMsg ty, RLen _ b => match decode_msg ty prev b with Some v => Some (Some v) | None => None end
  | (FString | FBytes), RLen _ b => Some (Some (GBytes b))
  | _, _ => match is_num_kind k with
            | Some s => match scalar_of_field s f with Some z => Some (Some (GNum z)) | None => Some None end
            | None => Some None
            end
  end.

(* one field occurrence applied to the message being built *)
Definition ref_step (md : mdesc) (st : list (N * gval) * list byte) (fr : rfield * list byte)
  : option (list (N * gval) * list byte) :=
  let '(fs, unk) := st in
  let '(f, raw) := fr in
  let unknown := Some (fs, unk ++ raw) in
  match find_field md (rnum f) with
  | None => unknown
  | Some fd =>
    let n := fnum fd in
    match fcard_ fd with
    | CImplicit | COptional | CRequired =>
        let prev := match fkind_ fd with FMsg _ => lookup_field n fs | _ => GAbsent end in   (* messages merge *)
        match single_value (fkind_ fd) prev f with
        | None => None
        | Some None => unknown
        | Some (Some v) => Some (set_field n v fs, unk)
        end
    | COneof g =>
        let prev := match fkind_ fd with FMsg _ => lookup_field n fs | _ => GAbsent end in
        match single_value (fkind_ fd) prev f with
        | None => None
        | Some None => unknown
        | Some (Some v) => Some (set_field n v (clear_group md g n fs), unk)
        end
    | CPacked | CUnpacked =>
        let cur := match lookup_field n fs with GList l => l | _ => [] end in
        match is_num_kind (fkind_ fd), f with
        | Some s, RLen _ b =>                                   (* a packed run, whatever the declaration says *)
            match unpack (S (length b)) s b with
            | Some zs => Some (set_field n (GList (cur ++ map GNum zs)) fs, unk)
            | None => None
            end
        | _, _ =>
            match single_value (fkind_ fd) GAbsent f with
            | None => None
            | Some None => unknown
            | Some (Some v) => Some (set_field n (GList (cur ++ [v])) fs, unk)
            end
        end
    | CMap kk vk =>
        match f with
        | RLen _ b =>
            (* the entry is a message {1: key, 2: value}; missing parts take the kind's zero value, the last
               occurrence of each wins, anything else is ignored *)
            match ref_parse_all (S (length b)) b with
            | None => None
            | Some efs =>
                let pick (num : N) (k : fkind) :=
                  fold_left (fun (acc : option gval) (e : rfield * list byte) =>
                    match acc with
                    | None => None
                    | Some cur =>
                        if rnum (fst e) =? num then
                          match single_value k (match k with FMsg _ => cur | _ => GAbsent end) (fst e) with
                          | None => None
                          | Some None => Some cur
                          | Some (Some v) => Some v
                          end
                        else Some cur
                    end) efs (Some (zero_of k)) in
                match pick 1 kk, pick 2 vk with
                | Some k, Some v =>
                    let cur := match lookup_field n fs with GMap kvs => kvs | _ => [] end in
                    Some (set_field n (GMap (map_set k v cur)) fs, unk)
                | _, _ => None
                end
            end
        | _ => unknown
        end
    end
  end.

Definition ref_fold (md : mdesc) (init : list (N * gval) * list byte) (flds : list (rfield * list byte))
  : option (list (N * gval) * list byte) :=
  fold_left (fun acc fr => match acc with Some st => ref_step md st fr | None => None end) flds (Some init).
End Decode.

(* decode bytes as message type ty, merging into prev (GAbsent = fresh) *)
Fixpoint ref_decode_into (sc : schema) (fuel : nat) (ty : nat) (prev : gval) (p : list byte) : option gval :=
  match fuel with
  | O => None
  | S f =>
    match ref_parse_all (S (length p)) p with
    | None => None
    | Some flds =>
        let init := match prev with GMsg fs u => (fs, u) | _ => ([], []) end in
        match ref_fold (ref_decode_into sc f) (nth ty sc empty_md) init flds with
        | Some (fs, u) => Some (GMsg fs u)
        | None => None
        end
    end
  end.
Definition ref_decode (sc : schema) (fuel : nat) (ty : nat) (p : list byte) : option gval :=
  ref_decode_into sc fuel ty GAbsent p.

(* ---------- canonical form, in which Go states and reference results are compared ---------- *)
(* insertion sort of map entries by key (numeric keys by value, string keys lexicographically) *)
Fixpoint bytes_ltb (a b : list byte) : bool :=
  match a, b with
  | [], [] => false | [], _ => true | _, [] => false
  | x :: r, y :: s => if x <? y then true else if y <? x then false else bytes_ltb r s
  end.
Definition key_ltb (a b : gval) : bool :=
  match a, b with
  | GNum x, GNum y => (x <? y)%Z
  | GBytes x, GBytes y => bytes_ltb x y
  | GNum _, _ => true
  | _, _ => false
  end.
Fixpoint insert_entry (e : gval * gval) (l : list (gval * gval)) : list (gval * gval) :=
  match l with
  | [] => [e]
  | x :: r => if key_ltb (fst e) (fst x) then e :: l else x :: insert_entry e r
  end.
Definition sort_entries (l : list (gval * gval)) : list (gval * gval) := fold_right insert_entry [] l.

Fixpoint normalize (sc : schema) (fuel : nat) (ty : nat) (v : gval) : gval :=
  match fuel, v with
  | S f, GMsg fs u =>
      let md := nth ty sc empty_md in
      let norm_elem (k : fkind) (x : gval) : gval :=
        match k with FMsg t => normalize sc f t x | _ => x end in
      let one (fd : fdesc) : list (N * gval) :=
        let x := lookup_field (fnum fd) fs in
        match fcard_ fd, x with
        | _, GAbsent => []
        | CImplicit, GNum z => if (z =? 0)%Z then [] else [(fnum fd, x)]       (* -0.0 is NOT zero for the reference *)
        | CImplicit, GBytes [] => []
        | (CPacked | CUnpacked), GList [] => []
        | (CPacked | CUnpacked), GList l => [(fnum fd, GList (map (norm_elem (fkind_ fd)) l))]
        | CMap kk vk, GMap [] => []
        | CMap kk vk, GMap kvs => [(fnum fd, GMap (sort_entries (map (fun '(k, y) => (k, norm_elem vk y)) kvs)))]
        | _, _ => [(fnum fd, norm_elem (fkind_ fd) x)]
        end in
      GMsg (flat_map one (mfields md)) u
  | _, _ => v
  end.
