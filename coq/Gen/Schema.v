(* Schemas and Go-level message values for the generated-code model (C04-C10, C17).
   A message value records the state of the generated Go struct only as far as the templates can
   tell states apart: a nil pointer / nil slice / nil oneof / zero value of an implicit-presence field
   is [GAbsent].  Definitions only. *)
From CsProto Require Import Prelude Varint ZigZag Codec RefWire WireStmts.
Local Open Scope N_scope.

Inductive fkind :=
| FNum (k : skind)          (* bool, the ten integer kinds, float, double (bit patterns) *)
| FEnum
| FString
| FBytes
| FMsg (ty : nat).          (* index into the schema *)

Inductive fcard :=
| CImplicit                 (* proto3 singular, no presence: Go value field *)
| COptional                 (* proto2 optional / proto3 optional: Go pointer (nil slice for bytes) *)
| CRequired                 (* proto2 required *)
| CPacked                   (* repeated, packed encoding *)
| CUnpacked                 (* repeated, one key per element *)
| COneof (g : nat)          (* member of the g-th real oneof *)
| CMap (kk vk : fkind).     (* map<kk, vk> *)

Record fdesc := { fnum : N; fkind_ : fkind; fcard_ : fcard }.
Record mdesc := { mproto2 : bool; mfields : list fdesc }.        (* fields in declaration order *)
Definition schema := list mdesc.
Definition empty_md : mdesc := {| mproto2 := false; mfields := [] |}.

Inductive gval :=
| GAbsent
| GNum (z : Z)
| GBytes (b : list byte)
| GList (l : list gval)
| GMap (kvs : list (gval * gval))
| GMsg (fields : list (N * gval)) (unknown : list byte).

Fixpoint lookup_field (n : N) (fs : list (N * gval)) : gval :=
  match fs with [] => GAbsent | (k, v) :: r => if k =? n then v else lookup_field n r end.

(* the "is this implicit-presence field unset" test: integers, bools and enums `m.X != 0`; floats
   `math.Float32bits(m.X) != 0` (only +0 is the unset state; -0 is a value and is written) *)
Definition zero_like (k : fkind) (z : Z) : bool := (z =? 0)%Z.

Definition is_num_kind (k : fkind) : option skind :=
  match k with FNum s => Some s | FEnum => Some KInt32 | _ => None end.

(* nesting depth of a value: the fuel the interpreters need *)
Fixpoint vdepth (v : gval) : nat :=
  match v with
  | GList l => S ((fix go (l : list gval) : nat := match l with [] => O | x :: r => Nat.max (vdepth x) (go r) end) l)
  | GMap kvs => S ((fix go (l : list (gval * gval)) : nat :=
                      match l with [] => O | (k, x) :: r => Nat.max (Nat.max (vdepth k) (vdepth x)) (go r) end) kvs)
  | GMsg fs _ => S ((fix go (l : list (N * gval)) : nat :=
                       match l with [] => O | (_, x) :: r => Nat.max (vdepth x) (go r) end) fs)
  | _ => O
  end.

(* oneof groups of a message, ascending *)
Definition oneof_groups (md : mdesc) : list nat :=
  let gs := flat_map (fun f => match fcard_ f with COneof g => [g] | _ => [] end) (mfields md) in
  match gs with [] => [] | _ => seq 0 (S (fold_right Nat.max O gs)) end.
Definition in_group (g : nat) (f : fdesc) : bool :=
  match fcard_ f with COneof g' => Nat.eqb g g' | _ => false end.
Definition is_oneof_member (f : fdesc) : bool := match fcard_ f with COneof _ => true | _ => false end.
