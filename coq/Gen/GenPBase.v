(* Shared plumbing for the generated-code proofs (C04 C17): lookups, schema well-formedness facts. *)
From CsProto Require Import Prelude Varint ZigZag Codec RefWire WireStmts CodecBase Schema GenMarshal RefMsg GenStmts.
Local Open Scope N_scope.

(* ---------- outcomes ---------- *)
Lemma obind_Ok_inv {A B} (o : outcome A) (f : A -> outcome B) b :
  obind o f = Ok b -> exists a, o = Ok a /\ f a = Ok b.
Proof. destruct o as [a| |]; cbn [obind]; intros H; [exists a; auto|discriminate|discriminate]. Qed.

(* ---------- schema facts ---------- *)
Lemma mdesc_ok_empty sc : mdesc_ok sc empty_md = true.
Proof. reflexivity. Qed.

Lemma schema_nth_ok sc ty : schema_ok sc = true -> mdesc_ok sc (nth ty sc empty_md) = true.
Proof.
  intros Hsc. unfold schema_ok in Hsc. rewrite forallb_forall in Hsc.
  destruct (Nat.lt_ge_cases ty (length sc)) as [Hlt|Hge].
  - apply Hsc. apply nth_In. exact Hlt.
  - rewrite nth_overflow by exact Hge. apply mdesc_ok_empty.
Qed.

Lemma mdesc_field_ok sc md f : mdesc_ok sc md = true -> In f (mfields md) -> field_ok sc md f = true.
Proof.
  unfold mdesc_ok. intros Hmd Hin. apply andb_true_iff in Hmd. destruct Hmd as [Hall _].
  rewrite forallb_forall in Hall. apply Hall. exact Hin.
Qed.

Lemma field_ok_tag sc md f : field_ok sc md f = true -> tag_ok (fnum f).
Proof.
  unfold field_ok, tag_ok. intros H.
  apply andb_true_iff in H. destruct H as [H _].
  apply andb_true_iff in H. destruct H as [H1 H2].
  apply N.leb_le in H1. apply N.leb_le in H2. split; assumption.
Qed.

Lemma mdesc_tag_ok sc md f : mdesc_ok sc md = true -> In f (mfields md) -> tag_ok (fnum f).
Proof. intros Hmd Hin. eapply field_ok_tag. eapply mdesc_field_ok; eassumption. Qed.

Lemma field_ok_card sc md f : field_ok sc md f = true ->
  match fcard_ f with
  | CPacked => exists s, is_num_kind (fkind_ f) = Some s
  | CMap kk vk => key_kind_ok kk = true /\ kind_ok sc vk = true
  | _ => kind_ok sc (fkind_ f) = true
  end.
Proof.
  unfold field_ok. intros H. apply andb_true_iff in H. destruct H as [_ H].
  destruct (fcard_ f) as [| | | | |g|kk vk].
  - apply andb_true_iff in H. apply H.
  - exact H.
  - apply andb_true_iff in H. apply H.
  - destruct (is_num_kind (fkind_ f)) as [s|]; [exists s; reflexivity|discriminate].
  - exact H.
  - exact H.
  - apply andb_true_iff in H. exact H.
Qed.

Lemma tag_ok_1 : tag_ok 1. Proof. unfold tag_ok, max_tag. lia. Qed.
Lemma tag_ok_2 : tag_ok 2. Proof. unfold tag_ok, max_tag. lia. Qed.

(* ---------- lookups ---------- *)
Lemma lookup_In n fs : lookup_field n fs <> GAbsent -> In (n, lookup_field n fs) fs.
Proof.
  induction fs as [|[k x] r IH]; cbn [lookup_field]; intros H.
  - congruence.
  - destruct (N.eqb_spec k n) as [->|Hne].
    + left. reflexivity.
    + right. apply IH. exact H.
Qed.

Lemma nodupb_not_in x l : existsb (N.eqb x) l = false -> ~ In x l.
Proof.
  intros H Hin. assert (Ht : existsb (N.eqb x) l = true).
  { apply existsb_exists. exists x. split; [exact Hin|apply N.eqb_refl]. }
  congruence.
Qed.

Lemma find_field_self md f : nodupb (map fnum (mfields md)) = true -> In f (mfields md) ->
  find_field md (fnum f) = Some f.
Proof.
  unfold find_field. generalize (mfields md) as l. induction l as [|g l IH]; cbn [map nodupb find In]; intros Hnd Hin.
  - contradiction.
  - apply andb_true_iff in Hnd. destruct Hnd as [Hx Hnd]. apply negb_true_iff in Hx.
    destruct Hin as [->|Hin].
    + rewrite N.eqb_refl. reflexivity.
    + destruct (N.eqb_spec (fnum g) (fnum f)) as [He|Hne].
      * exfalso. apply (nodupb_not_in _ _ Hx). rewrite He. apply in_map. exact Hin.
      * apply IH; assumption.
Qed.

Lemma field_value_ok_absent msg_ok f : field_value_ok msg_ok f GAbsent = true.
Proof. unfold field_value_ok. destruct (fcard_ f); reflexivity. Qed.

(* the value a declared field holds fits the field *)
Lemma field_lookup_ok sc msg_ok md fs f :
  mdesc_ok sc md = true -> msg_value_ok msg_ok md fs = true -> In f (mfields md) ->
  field_value_ok msg_ok f (lookup_field (fnum f) fs) = true.
Proof.
  intros Hmd Hv Hin.
  destruct (lookup_field (fnum f) fs) eqn:Hl; try apply field_value_ok_absent; rewrite <- Hl.
  all: unfold msg_value_ok in Hv; apply andb_true_iff in Hv; destruct Hv as [Hv _];
    apply andb_true_iff in Hv; destruct Hv as [_ Hv]; rewrite forallb_forall in Hv.
  all: assert (Hne : lookup_field (fnum f) fs <> GAbsent) by (rewrite Hl; discriminate).
  all: specialize (Hv _ (lookup_In _ _ Hne)); cbv beta iota in Hv.
  all: unfold mdesc_ok in Hmd; apply andb_true_iff in Hmd; destruct Hmd as [_ Hnd].
  all: rewrite (find_field_self md f Hnd Hin) in Hv; exact Hv.
Qed.

Lemma msg_value_groups_ok msg_ok md fs : msg_value_ok msg_ok md fs = true -> groups_ok md fs = true.
Proof. unfold msg_value_ok. intros H. apply andb_true_iff in H. apply H. Qed.

(* value_ok unfolds *)
Lemma value_ok_S sc f ty fs u :
  value_ok sc (S f) ty (GMsg fs u) = msg_value_ok (value_ok sc f) (nth ty sc empty_md) fs && forallb (fun x => x <? 256) u.
Proof. reflexivity. Qed.

Lemma value_ok_inv sc fuel ty v : value_ok sc fuel ty v = true ->
  exists f fs u, fuel = S f /\ v = GMsg fs u /\ msg_value_ok (value_ok sc f) (nth ty sc empty_md) fs = true.
Proof.
  destruct fuel as [|f]; [cbn; discriminate|].
  destruct v as [|z|b|l|kvs|fs u]; cbn [value_ok]; try discriminate.
  intros H. apply andb_true_iff in H. destruct H as [H _]. exists f, fs, u. auto.
Qed.

Lemma gen_size_S sc f ty fs u :
  gen_size sc (S f) ty (GMsg fs u) = msg_size_with (gen_size sc f) (nth ty sc empty_md) fs u.
Proof. reflexivity. Qed.
Lemma gen_ops_S sc f ty fs u :
  gen_ops sc (S f) ty (GMsg fs u) = msg_ops_with (gen_size sc f) (gen_ops sc f) (nth ty sc empty_md) fs u.
Proof. reflexivity. Qed.

(* elem_ok facts *)
Lemma elem_ok_msg_inv msg_ok ty v : elem_ok msg_ok (FMsg ty) v = true -> msg_ok ty v = true.
Proof. destruct v; cbn [elem_ok]; try discriminate. auto. Qed.
