(* Line-protocol driver around the extracted Coq models (model.ml).
   One case per input line, one canonical result line per case.  All numbers are hexadecimal
   (optional leading '-'), byte strings are hex ('-' = empty).  No arithmetic of its own: every
   value is converted bit by bit into the extracted positive/N/Z/nat and back. *)
open Model

(* ---------- conversions ---------- *)
let hexdigit c = match c with
  | '0'..'9' -> Char.code c - 48 | 'a'..'f' -> Char.code c - 87 | 'A'..'F' -> Char.code c - 55
  | _ -> failwith ("bad hex digit " ^ String.make 1 c)

(* bits, least significant first *)
let bits_of_hex (s : string) : bool list =
  let l = ref [] in
  String.iter (fun c -> let d = hexdigit c in
    (* most significant nibble first in the string: prepend so the final list is LSB first *)
    l := ((d land 1) = 1) :: ((d land 2) = 2) :: ((d land 4) = 4) :: ((d land 8) = 8) :: !l) s;
  !l

let rec pos_of_bits (bs : bool list) : positive option =
  (* bs LSB first; strip high zero bits *)
  match bs with
  | [] -> None
  | b :: r -> (match pos_of_bits r with
      | None -> if b then Some XH else None
      | Some p -> Some (if b then XI p else XO p))

let n_of_hex s : n = match pos_of_bits (bits_of_hex s) with None -> N0 | Some p -> Npos p
let z_of_hex s : z =
  if String.length s > 0 && s.[0] = '-' then
    (match pos_of_bits (bits_of_hex (String.sub s 1 (String.length s - 1))) with None -> Z0 | Some p -> Zneg p)
  else (match pos_of_bits (bits_of_hex s) with None -> Z0 | Some p -> Zpos p)

let rec bits_of_pos p = match p with XH -> [true] | XO q -> false :: bits_of_pos q | XI q -> true :: bits_of_pos q
let hex_of_bits (bs : bool list) : string =
  (* LSB first *)
  let rec nibbles bs acc = match bs with
    | [] -> acc
    | _ ->
      let take k l = let rec go k l a = if k = 0 then (List.rev a, l) else match l with [] -> go (k-1) [] (false :: a) | x :: r -> go (k-1) r (x :: a) in go k l [] in
      let (nb, rest) = take 4 bs in
      let v = List.fold_right (fun b a -> a * 2 + (if b then 1 else 0)) nb 0 in
      nibbles rest ("0123456789abcdef".[v] :: acc) in
  let cs = nibbles bs [] in
  let s = String.of_seq (List.to_seq cs) in
  (* strip leading zeros *)
  let n = String.length s in
  let i = ref 0 in
  while !i < n - 1 && s.[!i] = '0' do incr i done;
  if n = 0 then "0" else String.sub s !i (n - !i)
let hex_of_pos p = hex_of_bits (bits_of_pos p)
let hex_of_n = function N0 -> "0" | Npos p -> hex_of_pos p
let hex_of_z = function Z0 -> "0" | Zpos p -> hex_of_pos p | Zneg p -> "-" ^ hex_of_pos p

let rec nat_of_int i : nat = if i <= 0 then O else S (nat_of_int (i - 1))
let rec int_of_nat n = match n with O -> 0 | S m -> 1 + int_of_nat m
let int_of_n x = int_of_string ("0x" ^ hex_of_n x)          (* only for small values (bytes) *)
let n_of_int i = n_of_hex (Printf.sprintf "%x" i)

let bytes_of_hex (s : string) : n list =
  if s = "-" then [] else begin
    let n = String.length s / 2 in
    let rec go i acc = if i < 0 then acc else go (i - 1) (n_of_int (hexdigit s.[2*i] * 16 + hexdigit s.[2*i+1]) :: acc) in
    go (n - 1) []
  end
let hex_of_bytes (l : n list) : string =
  if l = [] then "-" else begin
    let b = Buffer.create 64 in
    List.iter (fun x -> Buffer.add_string b (Printf.sprintf "%02x" (int_of_n x))) l;
    Buffer.contents b
  end

let split c s = String.split_on_char c s
let zlist_of s = if s = "-" then [] else List.map z_of_hex (split ',' s)
let str_zlist l = if l = [] then "-" else String.concat "," (List.map hex_of_z l)

(* ---------- wire codec ---------- *)
let skind_of = function
  | "bool" -> KBool | "int32" -> KInt32 | "int64" -> KInt64 | "uint32" -> KUInt32 | "uint64" -> KUInt64
  | "sint32" -> KSInt32 | "sint64" -> KSInt64 | "fixed32" -> KFixed32 | "fixed64" -> KFixed64
  | "sfixed32" -> KSFixed32 | "sfixed64" -> KSFixed64 | "float" -> KFloat | "double" -> KDouble
  | s -> failwith ("bad kind " ^ s)

let eop_of (t : string) : eop =
  match split ':' t with
  | ["S"; k; tag; v] -> EScalar (skind_of k, n_of_hex tag, z_of_hex v)
  | ["B"; tag; h] -> EBytes (n_of_hex tag, bytes_of_hex h)
  | ["P"; k; tag; vs] -> EPacked (skind_of k, n_of_hex tag, zlist_of vs)
  | ["R"; h] -> ERaw (bytes_of_hex h)
  | ["M"; tag; sz] -> EMapHeader (n_of_hex tag, n_of_hex sz)
  | _ -> failwith ("bad eop " ^ t)

let dop_of (t : string) : dop * bool =
  match split ':' t with
  | ["T"] -> (DTag, true)
  | ["S"; k] -> (DScalar (skind_of k), true)
  | ["Y"] -> (DBytes, true)
  | ["G"] -> (DString, true)
  | ["P"; k] -> (DPacked (skind_of k), true)
  | ["N"; b] -> (DNested, b = "1")
  | ["K"; tag; wt] -> (DSkip (z_of_hex tag, z_of_hex wt), true)
  | ["Z"; o; wh] -> (DSeek (z_of_hex o, z_of_hex wh), true)
  | ["R"] -> (DReset, true)
  | ["M"; b] -> (DSetMode (b = "1"), true)
  | _ -> failwith ("bad dop " ^ t)

let str_dval = function
  | VTag (t, wt) -> "t:" ^ hex_of_n t ^ "/" ^ hex_of_n wt
  | VNum z -> "n:" ^ hex_of_z z
  | VBytes (b, a) -> "b:" ^ hex_of_bytes b ^ (if b = [] then "" else if a then ":a" else ":c")
  | VList l -> "l:" ^ str_zlist l
  | VRaw b -> "r:" ^ hex_of_bytes b
  | VNested b -> "m:" ^ hex_of_bytes b
  | VPos z -> "p:" ^ hex_of_z z
  | VUnit -> "u"

let run_dec fast buf off (ops : string list) : string =
  let d = ref (Some { dbuf = buf; doff = nat_of_int off; dfast = fast }) in
  let out = List.map (fun t ->
    match !d with
    | None -> "dead"
    | Some d0 ->
      let (op, nres) = dop_of t in
      (match dstep (fun _ -> nres) d0 op with
       | DOk (v, d1) -> d := Some d1; "ok:" ^ str_dval v ^ "@" ^ string_of_int (int_of_nat d1.doff)
       | DErr d1 -> d := Some d1; "err"
       | DPanic -> d := None; "panic")) ops in
  String.concat " " out

let wire_case (toks : string list) : string =
  match toks with
  | "ENC" :: buflen :: ops ->
    let e0 = { ebuf = List.init (int_of_string buflen) (fun _ -> n_of_int 0xA5); eoff = O } in
    (match erun e0 (List.map eop_of ops) with
     | Ok e -> "ok " ^ hex_of_bytes e.ebuf ^ " " ^ string_of_int (int_of_nat e.eoff)
     | Err -> "err" | Panic -> "panic")
  | ["ESZ"; op] -> let o = eop_of op in
    string_of_int (int_of_nat (esize o)) ^ " " ^ hex_of_bytes (ebytes o)
  | ["NEST"; buflen; tag; fl; msize; mres] ->
    let e0 = { ebuf = List.init (int_of_string buflen) (fun _ -> n_of_int 0xA5); eoff = O } in
    let fl = (match fl with "to" -> NMarshalTo | "m" -> NMarshal | _ -> NFallback) in
    let mres = if mres = "E" then None else Some (bytes_of_hex mres) in
    (match enc_nested e0 (n_of_hex tag) fl (nat_of_int (int_of_string msize)) mres with
     | Ok (e, okb) -> (if okb then "nil " else "error ") ^ hex_of_bytes e.ebuf ^ " " ^ string_of_int (int_of_nat e.eoff)
     | Err -> "err" | Panic -> "panic")
  | "DEC" :: mode :: buf :: off :: ops ->
    run_dec (mode = "fast") (bytes_of_hex buf) (int_of_string off) ops
  | ["EV"; v] -> hex_of_bytes (enc_varint (n_of_hex v))
  | ["DV"; h] -> (match dec_varint (bytes_of_hex h) with
      | Inl (v, n) -> "ok " ^ hex_of_n v ^ " " ^ string_of_int (int_of_nat n) | Inr _ -> "err")
  | ["SZV"; v] -> string_of_int (int_of_nat (size_of_varint (n_of_hex v)))
  | ["SZZ"; v] -> string_of_int (int_of_nat (size_of_zigzag (n_of_hex v)))
  | ["SZK"; v] -> string_of_int (int_of_nat (size_key (n_of_hex v)))
  | _ -> failwith "bad wire case"

(* ---------- tools: annotated hex, protodump ---------- *)
let nlist_of s = if s = "-" then [] else List.map n_of_hex (split ',' s)
let paths_of s = if s = "-" then [] else
  List.map (fun p -> List.map (fun t -> n_of_hex (Printf.sprintf "%x" (int_of_string t))) (split '.' p)) (split ',' s)
let dec_of_n x = string_of_int (int_of_n x)        (* field numbers and indents: small *)
let wtname w = match int_of_n w with 0 -> "varint" | 1 -> "fixed64" | 2 -> "length-delimited" | 5 -> "fixed32" | _ -> "unknown"
let str_rec = function
  | RecVarint (i, t, v) -> Printf.sprintf "V%d:%s:%s" (int_of_nat i) (dec_of_n t) (hex_of_z v)
  | RecFixed32 (i, t, v) -> Printf.sprintf "F%d:%s:%s" (int_of_nat i) (dec_of_n t) (hex_of_z v)
  | RecFixed64 (i, t, v) -> Printf.sprintf "D%d:%s:%s" (int_of_nat i) (dec_of_n t) (hex_of_z v)
  | RecBytes (i, t, b) -> Printf.sprintf "B%d:%s:%s" (int_of_nat i) (dec_of_n t) (hex_of_bytes b)
  | RecString (i, t, b) -> Printf.sprintf "S%d:%s:%s" (int_of_nat i) (dec_of_n t) (hex_of_bytes b)
  | RecHeader (i, t, w) -> Printf.sprintf "H%d:%s:%s" (int_of_nat i) (dec_of_n t) (wtname w)
let tools_case (fam : string) (toks : string list) : string =
  match fam, toks with
  | "H", ["PARSE"; rs] -> (match parse (nlist_of rs) with Some b -> "ok " ^ hex_of_bytes b | None -> "err")
  | "D", ["DUMP"; ex; st; input] ->
    let (recs, status) = protodump { cexpand = paths_of ex; cstrings = paths_of st } (bytes_of_hex input) in
    String.concat " " (List.map str_rec recs @ [match status with DumpOk -> "ok" | DumpErr -> "err" | DumpPanic -> "panic"])
  | _ -> failwith "bad tools case"

(* ---------- lazyproto ---------- *)
let z_of_dec (s : string) : z =
  let neg = String.length s > 0 && s.[0] = '-' in
  let a = if neg then String.sub s 1 (String.length s - 1) else s in
  let h = Printf.sprintf "%x" (int_of_string a) in
  z_of_hex (if neg then "-" ^ h else h)
(* def syntax: [k,k:[...],...] *)
let parse_def (s : string) : ldef =
  let pos = ref 0 in
  let peek () = if !pos < String.length s then s.[!pos] else '$' in
  let rec def () : ldef =
    if peek () <> '[' then failwith "def: expected [";
    incr pos;
    let entries = ref [] in
    while peek () <> ']' do
      let st = !pos in
      while (match peek () with '0'..'9' | '-' -> true | _ -> false) do incr pos done;
      let k = z_of_dec (String.sub s st (!pos - st)) in
      let v = if peek () = ':' then (incr pos; Some (def ())) else None in
      entries := (k, v) :: !entries;
      if peek () = ',' then incr pos
    done;
    incr pos;
    LDef (List.rev !entries) in
  def ()
let akind_of = function
  | "bool" -> ABool | "string" -> AString | "bytes" -> ABytes | "uint32" -> AUInt32 | "int32" -> AInt32
  | "sint32" -> ASInt32 | "uint64" -> AUInt64 | "int64" -> AInt64 | "sint64" -> ASInt64
  | "fixed32" -> AFixed32 | "fixed64" -> AFixed64 | "float32" -> AFloat32 | "float64" -> AFloat64
  | s -> failwith ("bad akind " ^ s)
let path_of s = if s = "-" then [] else List.map z_of_dec (split '.' s)
let str_aerr = function
  | ENotFound -> "e:notfound" | ENotDefined -> "e:notdefined" | ENestingNotDefined -> "e:nestingnotdefined"
  | EMismatch -> "e:mismatch" | EOther -> "e:other"
let hexb_plain (b : n list) = hex_of_bytes b
let str_aout = function
  | AOk (AvNum z) -> "n:" ^ hex_of_z z
  | AOk (AvBytes b) -> "b:" ^ hex_of_bytes b
  | AOk (AvNums l) -> "l:" ^ str_zlist l
  | AOk (AvBytesList l) -> "bl:" ^ String.concat ";" (List.map hex_of_bytes l)
  | AErr e -> str_aerr e
  | APanic -> "panic"
let str_nouts = function
  | NErr e -> str_aerr e | NPanic -> "panic"
  | NList l -> "[" ^ String.concat "|" (List.map str_aout l) ^ "]"
let str_range l = "r:" ^ String.concat "," (List.map (fun (t, b) -> dec_of_n t ^ (if b then "+" else "-")) l)
let str_obs = function
  | ObsOut o -> str_aout o | ObsNested n -> str_nouts n | ObsRange l -> str_range l
let aop_of (t : string) : aop =
  match split ':' t with
  | ["F"; p; k; s] -> OpField (path_of p, akind_of k, s = "v")
  | ["H"; p; tg; k; s] -> OpHelper (path_of p, z_of_dec tg, akind_of k, s = "v")
  | ["N"; p; tg; inner; k; s] -> OpNested (path_of p, z_of_dec tg, z_of_dec inner, akind_of k, s = "v")
  | ["R"; p] -> OpRange (path_of p)
  | _ -> failwith ("bad aop " ^ t)
let lazy_case (toks : string list) : string =
  match toks with
  | entry :: _mode :: d :: input :: ops ->
    let d = parse_def d in
    let input = bytes_of_hex input in
    let r = if entry = "fn" then lazy_decode_fn d input else lazy_decode_dec d input in
    (match r with
     | LFail -> "err"
     | LCrash -> "panic"
     | LNil -> String.concat " " ("nil" :: List.map (fun t -> str_obs (observe None (aop_of t))) ops)
     | LRes res -> String.concat " " ("ok" :: List.map (fun t -> str_obs (observe (Some res) (aop_of t))) ops))
  | _ -> failwith "bad lazy case"

let pop_of (t : string) : pop =
  match split ':' t with
  | ["D"; h; input] -> PDecode (nat_of_int (int_of_string h), bytes_of_hex input, O)
  | ["F"; h; p; k; s] -> PField (nat_of_int (int_of_string h), path_of p, akind_of k, s = "v", [])
  | ["N"; h; tg; inner; k; s] -> PNestedObs (nat_of_int (int_of_string h), z_of_dec tg, z_of_dec inner, akind_of k, s = "v", [])
  | ["R"; h] -> PRange (nat_of_int (int_of_string h))
  | ["C"; h] -> PClose (nat_of_int (int_of_string h))
  | _ -> failwith ("bad pop " ^ t)
let str_pobs = function
  | QNil -> "nil" | QErr -> "err" | QOk -> "ok" | QOut o -> str_aout o | QNested n -> str_nouts n
  | QRange l -> str_range l | QMisuse -> "misuse"
(* pool picks: always the most recently returned object (maximal reuse); trunc outcomes: the max
   buffer value with cap > n.  The theorem C14_isolation says the observations do not depend on these. *)
let pool_case (toks : string list) : string =
  match toks with
  | mb :: d :: ops ->
    let d = parse_def d in
    let truncs = if mb = "-" then (fun _ -> []) else (fun _ -> [(nat_of_int (int_of_string mb), true)]) in
    let rec go s ops acc = match ops with
      | [] -> List.rev acc
      | t :: r ->
        (match pstep d false truncs s (pop_of t) with
         | None -> List.rev ("panic" :: acc)
         | Some (o, s') -> go s' r (str_pobs o :: acc)) in
    String.concat " " (go pinit ops [])
  | _ -> failwith "bad pool case"

let dispatch (line : string) : string =
  match split ' ' line with
  | "L" :: rest -> lazy_case rest
  | "P" :: rest -> pool_case rest
  | "W" :: rest -> wire_case rest
  | "H" :: rest -> tools_case "H" rest
  | "D" :: rest -> tools_case "D" rest
  | _ -> failwith ("unknown case family: " ^ line)

let () =
  let ic = if Array.length Sys.argv > 1 then open_in Sys.argv.(1) else stdin in
  let oc = if Array.length Sys.argv > 2 then open_out Sys.argv.(2) else stdout in
  (try
    while true do
      let line = input_line ic in
      if line <> "" then begin
        let r = (try dispatch line with
                 | Stack_overflow -> "MODEL-STACK-OVERFLOW"
                 | Failure m -> "MODEL-FAIL " ^ m
                 | Not_found -> "MODEL-FAIL notfound") in
        output_string oc r; output_char oc '\n'
      end
    done
  with End_of_file -> ());
  close_out oc
