(* Line-protocol driver around the extracted Coq models (model.ml).
   One case per input line, one canonical result line per case.  All numbers are hexadecimal
   (optional leading '-'), byte strings are hex ('-' = empty).  No arithmetic of its own: every
   value is converted bit by bit into the extracted positive/N/Z/nat and back. *)
open Model

(* ---------- conversions ---------- *)
let hexdigit c = match c with
  | '0'..'9' -> Char.code c - 48 | 'a'..'f' -> Char.code c - 87 | 'A'..'F' -> Char.code c - 55
  | _ -> failwith ("bad hex digit " ^ String.make 1 c)

(* bits, least significant first *)
let bits_of_hex (s : string) : bool list =
  let l = ref [] in
  String.iter (fun c -> let d = hexdigit c in
    (* most significant nibble first in the string: prepend so the final list is LSB first *)
    l := ((d land 1) = 1) :: ((d land 2) = 2) :: ((d land 4) = 4) :: ((d land 8) = 8) :: !l) s;
  !l

let rec pos_of_bits (bs : bool list) : positive option =
  (* bs LSB first; strip high zero bits *)
  match bs with
  | [] -> None
  | b :: r -> (match pos_of_bits r with
      | None -> if b then Some XH else None
      | Some p -> Some (if b then XI p else XO p))

let n_of_hex s : n = match pos_of_bits (bits_of_hex s) with None -> N0 | Some p -> Npos p
let z_of_hex s : z =
  if String.length s > 0 && s.[0] = '-' then
    (match pos_of_bits (bits_of_hex (String.sub s 1 (String.length s - 1))) with None -> Z0 | Some p -> Zneg p)
  else (match pos_of_bits (bits_of_hex s) with None -> Z0 | Some p -> Zpos p)

let rec bits_of_pos p = match p with XH -> [true] | XO q -> false :: bits_of_pos q | XI q -> true :: bits_of_pos q
let hex_of_bits (bs : bool list) : string =
  (* LSB first *)
  let rec nibbles bs acc = match bs with
    | [] -> acc
    | _ ->
      let take k l = let rec go k l a = if k = 0 then (List.rev a, l) else match l with [] -> go (k-1) [] (false :: a) | x :: r -> go (k-1) r (x :: a) in go k l [] in
      let (nb, rest) = take 4 bs in
      let v = List.fold_right (fun b a -> a * 2 + (if b then 1 else 0)) nb 0 in
      nibbles rest ("0123456789abcdef".[v] :: acc) in
  let cs = nibbles bs [] in
  let s = String.of_seq (List.to_seq cs) in
  (* strip leading zeros *)
  let n = String.length s in
  let i = ref 0 in
  while !i < n - 1 && s.[!i] = '0' do incr i done;
  if n = 0 then "0" else String.sub s !i (n - !i)
let hex_of_pos p = hex_of_bits (bits_of_pos p)
let hex_of_n = function N0 -> "0" | Npos p -> hex_of_pos p
let hex_of_z = function Z0 -> "0" | Zpos p -> hex_of_pos p | Zneg p -> "-" ^ hex_of_pos p

let rec nat_of_int i : nat = if i <= 0 then O else S (nat_of_int (i - 1))
let rec int_of_nat n = match n with O -> 0 | S m -> 1 + int_of_nat m
let int_of_n x = int_of_string ("0x" ^ hex_of_n x)          (* only for small values (bytes) *)
let n_of_int i = n_of_hex (Printf.sprintf "%x" i)

let bytes_of_hex (s : string) : n list =
  if s = "-" then [] else begin
    let n = String.length s / 2 in
    let rec go i acc = if i < 0 then acc else go (i - 1) (n_of_int (hexdigit s.[2*i] * 16 + hexdigit s.[2*i+1]) :: acc) in
    go (n - 1) []
  end
let hex_of_bytes (l : n list) : string =
  if l = [] then "-" else begin
    let b = Buffer.create 64 in
    List.iter (fun x -> Buffer.add_string b (Printf.sprintf "%02x" (int_of_n x))) l;
    Buffer.contents b
  end

let split c s = String.split_on_char c s
let zlist_of s = if s = "-" then [] else List.map z_of_hex (split ',' s)
let str_zlist l = if l = [] then "-" else String.concat "," (List.map hex_of_z l)

(* ---------- wire codec ---------- *)
let skind_of = function
  | "bool" -> KBool | "int32" -> KInt32 | "int64" -> KInt64 | "uint32" -> KUInt32 | "uint64" -> KUInt64
  | "sint32" -> KSInt32 | "sint64" -> KSInt64 | "fixed32" -> KFixed32 | "fixed64" -> KFixed64
  | "sfixed32" -> KSFixed32 | "sfixed64" -> KSFixed64 | "float" -> KFloat | "double" -> KDouble
  | s -> failwith ("bad kind " ^ s)

let eop_of (t : string) : eop =
  match split ':' t with
  | ["S"; k; tag; v] -> EScalar (skind_of k, n_of_hex tag, z_of_hex v)
  | ["B"; tag; h] -> EBytes (n_of_hex tag, bytes_of_hex h)
  | ["P"; k; tag; vs] -> EPacked (skind_of k, n_of_hex tag, zlist_of vs)
  | ["R"; h] -> ERaw (bytes_of_hex h)
  | ["M"; tag; sz] -> EMapHeader (n_of_hex tag, n_of_hex sz)
  | _ -> failwith ("bad eop " ^ t)

let dop_of (t : string) : dop * bool =
  match split ':' t with
  | ["T"] -> (DTag, true)
  | ["S"; k] -> (DScalar (skind_of k), true)
  | ["Y"] -> (DBytes, true)
  | ["G"] -> (DString, true)
  | ["P"; k] -> (DPacked (skind_of k), true)
  | ["N"; b] -> (DNested, b = "1")
  | ["K"; tag; wt] -> (DSkip (z_of_hex tag, z_of_hex wt), true)
  | ["Z"; o; wh] -> (DSeek (z_of_hex o, z_of_hex wh), true)
  | ["R"] -> (DReset, true)
  | ["M"; b] -> (DSetMode (b = "1"), true)
  | _ -> failwith ("bad dop " ^ t)

let str_dval = function
  | VTag (t, wt) -> "t:" ^ hex_of_n t ^ "/" ^ hex_of_n wt
  | VNum z -> "n:" ^ hex_of_z z
  | VBytes (b, a) -> "b:" ^ hex_of_bytes b ^ (if b = [] then "" else if a then ":a" else ":c")
  | VList l -> "l:" ^ str_zlist l
  | VRaw b -> "r:" ^ hex_of_bytes b
  | VNested b -> "m:" ^ hex_of_bytes b
  | VPos z -> "p:" ^ hex_of_z z
  | VUnit -> "u"

let run_dec fast buf off (ops : string list) : string =
  let d = ref (Some { dbuf = buf; doff = nat_of_int off; dfast = fast }) in
  let out = List.map (fun t ->
    match !d with
    | None -> "dead"
    | Some d0 ->
      let (op, nres) = dop_of t in
      (match dstep (fun _ -> nres) d0 op with
       | DOk (v, d1) -> d := Some d1; "ok:" ^ str_dval v ^ "@" ^ string_of_int (int_of_nat d1.doff)
       | DErr d1 -> d := Some d1; "err"
       | DPanic -> d := None; "panic")) ops in
  String.concat " " out

let wire_case (toks : string list) : string =
  match toks with
  | "ENC" :: buflen :: ops ->
    let e0 = { ebuf = List.init (int_of_string buflen) (fun _ -> n_of_int 0xA5); eoff = O } in
    (match erun e0 (List.map eop_of ops) with
     | Ok e -> "ok " ^ hex_of_bytes e.ebuf ^ " " ^ string_of_int (int_of_nat e.eoff)
     | Err -> "err" | Panic -> "panic")
  | ["ESZ"; op] -> let o = eop_of op in
    string_of_int (int_of_nat (esize o)) ^ " " ^ hex_of_bytes (ebytes o)
  | ["NEST"; buflen; tag; fl; msize; mres] ->
    let e0 = { ebuf = List.init (int_of_string buflen) (fun _ -> n_of_int 0xA5); eoff = O } in
    let fl = (match fl with "to" -> NMarshalTo | "m" -> NMarshal | _ -> NFallback) in
    let mres = if mres = "E" then None else Some (bytes_of_hex mres) in
    (match enc_nested e0 (n_of_hex tag) fl (nat_of_int (int_of_string msize)) mres with
     | Ok (e, okb) -> (if okb then "nil " else "error ") ^ hex_of_bytes e.ebuf ^ " " ^ string_of_int (int_of_nat e.eoff)
     | Err -> "err" | Panic -> "panic")
  | "DEC" :: mode :: buf :: off :: ops ->
    run_dec (mode = "fast") (bytes_of_hex buf) (int_of_string off) ops
  | ["EV"; v] -> hex_of_bytes (enc_varint (n_of_hex v))
  | ["DV"; h] -> (match dec_varint (bytes_of_hex h) with
      | Inl (v, n) -> "ok " ^ hex_of_n v ^ " " ^ string_of_int (int_of_nat n) | Inr _ -> "err")
  | ["SZV"; v] -> string_of_int (int_of_nat (size_of_varint (n_of_hex v)))
  | ["SZZ"; v] -> string_of_int (int_of_nat (size_of_zigzag (n_of_hex v)))
  | ["SZK"; v] -> string_of_int (int_of_nat (size_key (n_of_hex v)))
  | _ -> failwith "bad wire case"

(* ---------- tools: annotated hex, protodump ---------- *)
let nlist_of s = if s = "-" then [] else List.map n_of_hex (split ',' s)
let paths_of s = if s = "-" then [] else
  List.map (fun p -> List.map (fun t -> n_of_hex (Printf.sprintf "%x" (int_of_string t))) (split '.' p)) (split ',' s)
let dec_of_n x = string_of_int (int_of_n x)        (* field numbers and indents: small *)
let wtname w = match int_of_n w with 0 -> "varint" | 1 -> "fixed64" | 2 -> "length-delimited" | 5 -> "fixed32" | _ -> "unknown"
let str_rec = function
  | RecVarint (i, t, v) -> Printf.sprintf "V%d:%s:%s" (int_of_nat i) (dec_of_n t) (hex_of_z v)
  | RecFixed32 (i, t, v) -> Printf.sprintf "F%d:%s:%s" (int_of_nat i) (dec_of_n t) (hex_of_z v)
  | RecFixed64 (i, t, v) -> Printf.sprintf "D%d:%s:%s" (int_of_nat i) (dec_of_n t) (hex_of_z v)
  | RecBytes (i, t, b) -> Printf.sprintf "B%d:%s:%s" (int_of_nat i) (dec_of_n t) (hex_of_bytes b)
  | RecString (i, t, b) -> Printf.sprintf "S%d:%s:%s" (int_of_nat i) (dec_of_n t) (hex_of_bytes b)
  | RecHeader (i, t, w) -> Printf.sprintf "H%d:%s:%s" (int_of_nat i) (dec_of_n t) (wtname w)
let tools_case (fam : string) (toks : string list) : string =
  match fam, toks with
  | "H", ["PARSE"; rs] -> (match parse (nlist_of rs) with Some b -> "ok " ^ hex_of_bytes b | None -> "err")
  | "D", ["DUMP"; ex; st; input] ->
    let (recs, status) = protodump { cexpand = paths_of ex; cstrings = paths_of st } (bytes_of_hex input) in
    String.concat " " (List.map str_rec recs @ [match status with DumpOk -> "ok" | DumpErr -> "err" | DumpPanic -> "panic"])
  | _ -> failwith "bad tools case"

(* ---------- lazyproto ---------- *)
let z_of_dec (s : string) : z =
  let neg = String.length s > 0 && s.[0] = '-' in
  let a = if neg then String.sub s 1 (String.length s - 1) else s in
  let h = Printf.sprintf "%x" (int_of_string a) in
  z_of_hex (if neg then "-" ^ h else h)
(* def syntax: [k,k:[...],...] *)
let parse_def (s : string) : ldef =
  let pos = ref 0 in
  let peek () = if !pos < String.length s then s.[!pos] else '$' in
  let rec def () : ldef =
    if peek () <> '[' then failwith "def: expected [";
    incr pos;
    let entries = ref [] in
    while peek () <> ']' do
      let st = !pos in
      while (match peek () with '0'..'9' | '-' -> true | _ -> false) do incr pos done;
      let k = z_of_dec (String.sub s st (!pos - st)) in
      let v = if peek () = ':' then (incr pos; Some (def ())) else None in
      entries := (k, v) :: !entries;
      if peek () = ',' then incr pos
    done;
    incr pos;
    LDef (List.rev !entries) in
  def ()
let akind_of = function
  | "bool" -> ABool | "string" -> AString | "bytes" -> ABytes | "uint32" -> AUInt32 | "int32" -> AInt32
  | "sint32" -> ASInt32 | "uint64" -> AUInt64 | "int64" -> AInt64 | "sint64" -> ASInt64
  | "fixed32" -> AFixed32 | "fixed64" -> AFixed64 | "float32" -> AFloat32 | "float64" -> AFloat64
  | s -> failwith ("bad akind " ^ s)
let path_of s = if s = "-" then [] else List.map z_of_dec (split '.' s)
let str_aerr = function
  | ENotFound -> "e:notfound" | ENotDefined -> "e:notdefined" | ENestingNotDefined -> "e:nestingnotdefined"
  | EMismatch -> "e:mismatch" | EOther -> "e:other"
let hexb_plain (b : n list) = hex_of_bytes b
let str_aout = function
  | AOk (AvNum z) -> "n:" ^ hex_of_z z
  | AOk (AvBytes b) -> "b:" ^ hex_of_bytes b
  | AOk (AvNums l) -> "l:" ^ str_zlist l
  | AOk (AvBytesList l) -> "bl:" ^ String.concat ";" (List.map hex_of_bytes l)
  | AErr e -> str_aerr e
  | APanic -> "panic"
let str_nouts = function
  | NErr e -> str_aerr e | NPanic -> "panic"
  | NList l -> "[" ^ String.concat "|" (List.map str_aout l) ^ "]"
let str_range l = "r:" ^ String.concat "," (List.map (fun (t, b) -> dec_of_n t ^ (if b then "+" else "-")) l)
let str_obs = function
  | ObsOut o -> str_aout o | ObsNested n -> str_nouts n | ObsRange l -> str_range l
let aop_of (t : string) : aop =
  match split ':' t with
  | ["F"; p; k; s] -> OpField (path_of p, akind_of k, s = "v")
  | ["H"; p; tg; k; s] -> OpHelper (path_of p, z_of_dec tg, akind_of k, s = "v")
  | ["N"; p; tg; inner; k; s] -> OpNested (path_of p, z_of_dec tg, z_of_dec inner, akind_of k, s = "v")
  | ["R"; p] -> OpRange (path_of p)
  | _ -> failwith ("bad aop " ^ t)
let lazy_case (toks : string list) : string =
  match toks with
  | entry :: _mode :: d :: input :: ops ->
    let d = parse_def d in
    let input = bytes_of_hex input in
    let r = if entry = "fn" then lazy_decode_fn d input else lazy_decode_dec d input in
    (match r with
     | LFail -> "err"
     | LCrash -> "panic"
     | LNil -> String.concat " " ("nil" :: List.map (fun t -> str_obs (observe None (aop_of t))) ops)
     | LRes res -> String.concat " " ("ok" :: List.map (fun t -> str_obs (observe (Some res) (aop_of t))) ops))
  | _ -> failwith "bad lazy case"

let pop_of (t : string) : pop =
  match split ':' t with
  | ["D"; h; input] -> PDecode (nat_of_int (int_of_string h), bytes_of_hex input, O)
  | ["F"; h; p; k; s] -> PField (nat_of_int (int_of_string h), path_of p, akind_of k, s = "v", [])
  | ["N"; h; tg; inner; k; s] -> PNestedObs (nat_of_int (int_of_string h), z_of_dec tg, z_of_dec inner, akind_of k, s = "v", [])
  | ["R"; h] -> PRange (nat_of_int (int_of_string h))
  | ["C"; h] -> PClose (nat_of_int (int_of_string h))
  | _ -> failwith ("bad pop " ^ t)
let str_pobs = function
  | QNil -> "nil" | QErr -> "err" | QOk -> "ok" | QOut o -> str_aout o | QNested n -> str_nouts n
  | QRange l -> str_range l | QMisuse -> "misuse"
(* pool picks: always the most recently returned object (maximal reuse); trunc outcomes: the max
   buffer value with cap > n.  The theorem C14_isolation says the observations do not depend on these. *)
let pool_case (toks : string list) : string =
  match toks with
  | mb :: d :: ops ->
    let d = parse_def d in
    let truncs = if mb = "-" then (fun _ -> []) else (fun _ -> [(nat_of_int (int_of_string mb), true)]) in
    let rec go s ops acc = match ops with
      | [] -> List.rev acc
      | t :: r ->
        (match pstep d false truncs s (pop_of t) with
         | None -> List.rev ("panic" :: acc)
         | Some (o, s') -> go s' r (str_pobs o :: acc)) in
    String.concat " " (go pinit ops [])
  | _ -> failwith "bad pool case"

(* ---------- generated code (Gen/*.v) ---------- *)
let skind_of_name = function
  | "bool" -> Some KBool | "int32" -> Some KInt32 | "int64" -> Some KInt64 | "uint32" -> Some KUInt32
  | "uint64" -> Some KUInt64 | "sint32" -> Some KSInt32 | "sint64" -> Some KSInt64 | "fixed32" -> Some KFixed32
  | "fixed64" -> Some KFixed64 | "sfixed32" -> Some KSFixed32 | "sfixed64" -> Some KSFixed64
  | "float" -> Some KFloat | "double" -> Some KDouble | _ -> None
let fkind_of (s : string) : fkind =
  match skind_of_name s with
  | Some k -> FNum k
  | None ->
    (match s with
     | "enum" -> FEnum | "string" -> FString | "bytes" -> FBytes
     | _ when String.length s > 3 && String.sub s 0 3 = "msg" -> FMsg (nat_of_int (int_of_string (String.sub s 3 (String.length s - 3))))
     | _ -> failwith ("bad field kind " ^ s))
(* schema term: idx=p2|p3:num,kind,card;...|idx=...   (messages in index order) *)
let parse_schema (s : string) : mdesc list =
  List.map (fun ms ->
    match split '=' ms with
    | [_; body] ->
      (match split ':' body with
       | syn :: rest ->
         let fields = String.concat ":" rest in
         let fds = if fields = "" then [] else List.map (fun f ->
           match split ',' f with
           | [num; kind; card] ->
             let fc = (match split ':' card with
               | ["i"] -> CImplicit | ["o"] -> COptional | ["q"] -> CRequired | ["rp"] -> CPacked | ["ru"] -> CUnpacked
               | ["m"; kk; vk] -> CMap (fkind_of kk, fkind_of vk)
               | [u] when String.length u > 1 && u.[0] = 'u' -> COneof (nat_of_int (int_of_string (String.sub u 1 (String.length u - 1))))
               | _ -> failwith ("bad card " ^ card)) in
             { fnum = n_of_int (int_of_string num); fkind_ = (if kind = "map" then FBytes else fkind_of kind); fcard_ = fc }
           | _ -> failwith ("bad field " ^ f)) (split ';' fields) in
         { mproto2 = (syn = "p2"); mfields = fds }
       | _ -> failwith "bad message term")
    | _ -> failwith "bad message term") (split '|' s)

(* value text (pbrender format) *)
let parse_value (s : string) : gval =
  let pos = ref 0 in
  let peek () = if !pos < String.length s then s.[!pos] else '$' in
  let take_while p = let st = !pos in while !pos < String.length s && p s.[!pos] do incr pos done; String.sub s st (!pos - st) in
  let is_hex c = (c >= '0' && c <= '9') || (c >= 'a' && c <= 'f') || c = '-' in
  let rec value () : gval =
    match peek () with
    | 'n' -> incr pos; GNum (z_of_hex (take_while is_hex))
    | 'b' -> incr pos; GBytes (bytes_of_hex (take_while is_hex))
    | '[' -> incr pos;
      let items = ref [] in
      while peek () <> ']' do items := value () :: !items; if peek () = ',' then incr pos done;
      incr pos; GList (List.rev !items)
    | '{' -> incr pos;
      let items = ref [] in
      while peek () <> '}' do
        let k = value () in
        if peek () <> ':' then failwith "map: expected :"; incr pos;
        let v = value () in
        items := (k, v) :: !items; if peek () = ',' then incr pos done;
      incr pos; GMap (List.rev !items)
    | '(' -> incr pos;
      let fields = ref [] and unknown = ref [] in
      while peek () <> ')' do
        if peek () = 'u' then begin
          incr pos; incr pos; unknown := bytes_of_hex (take_while is_hex)
        end else begin
          let num = int_of_string (take_while (fun c -> c >= '0' && c <= '9')) in
          if peek () <> '=' then failwith "msg: expected ="; incr pos;
          fields := (n_of_int num, value ()) :: !fields
        end;
        if peek () = ';' then incr pos
      done;
      incr pos; GMsg (List.rev !fields, !unknown)
    | c -> failwith (Printf.sprintf "bad value at %d (%c)" !pos c) in
  value ()

(* canonical map-entry order (Go iterates maps in random order): runs of entries of one map field
   are sorted bytewise, recursively inside nested messages -- mirror of canonBytes in cmd/gen *)
let rec canon_msg (sc : mdesc list) (ty : int) (b : int list) : int list =
  let md = (try Some (List.nth sc ty) with _ -> None) in
  match md with None -> b | Some md ->
  let find num = List.find_opt (fun f -> int_of_n f.fnum = num) md.mfields in
  canon_fields sc b (fun num -> match find num with
      | Some f -> (match f.fcard_, f.fkind_ with
          | CMap (_, vk), _ -> `Map vk
          | _, FMsg t -> `Msg (int_of_nat t)
          | _ -> `Other)
      | None -> `Other)
and canon_fields sc (b : int list) (classify : int -> [`Map of fkind | `Msg of int | `Other]) : int list =
  let arr = Array.of_list b in
  let n = Array.length arr in
  let rd_varint i = (* value, next index; raises on malformed *)
    let v = ref 0 and sh = ref 0 and j = ref i and fin = ref false in
    while not !fin do
      if !j >= n then failwith "trunc";
      let c = arr.(!j) in
      if !sh < 56 then v := !v lor ((c land 0x7f) lsl !sh);
      sh := !sh + 7; incr j;
      if c < 0x80 then fin := true
    done; (!v, !j) in
  (try
    let fields = ref [] in
    let i = ref 0 in
    while !i < n do
      let (key, j) = rd_varint !i in
      let num = key lsr 3 and wt = key land 7 in
      let (stop, payload) = (match wt with
        | 0 -> let (_, k) = rd_varint j in (k, None)
        | 1 -> (j + 8, None)
        | 5 -> (j + 4, None)
        | 2 -> let (l, k) = rd_varint j in (k + l, Some (k, l))
        | _ -> failwith "wt") in
      if stop > n then failwith "trunc";
      let raw = Array.to_list (Array.sub arr !i (stop - !i)) in
      let raw = (match payload, classify num with
        | Some (k, l), `Msg t ->
          let sub = canon_msg sc t (Array.to_list (Array.sub arr k l)) in
          Array.to_list (Array.sub arr !i (j - !i)) @ varint_bytes (List.length sub) @ sub
        | Some (k, l), `Map vk ->
          let sub = canon_fields sc (Array.to_list (Array.sub arr k l))
              (fun n2 -> match n2, vk with 2, FMsg t -> `Msg (int_of_nat t) | _ -> `Other) in
          Array.to_list (Array.sub arr !i (j - !i)) @ varint_bytes (List.length sub) @ sub
        | _ -> raw) in
      fields := (num, raw, (match classify num with `Map _ -> true | _ -> false)) :: !fields;
      i := stop
    done;
    let fields = List.rev !fields in
    (* sort runs of the same map field *)
    let rec runs = function
      | [] -> []
      | (num, raw, true) :: rest ->
        let rec span acc = function
          | (n2, r2, true) :: tl when n2 = num -> span (r2 :: acc) tl
          | tl -> (List.rev acc, tl) in
        let (run, tl) = span [raw] rest in
        List.concat (List.sort compare run) @ runs tl
      | (_, raw, false) :: rest -> raw @ runs rest in
    runs fields
  with _ -> b)
and varint_bytes (v : int) : int list =
  if v < 128 then [v] else (v land 0x7f lor 0x80) :: varint_bytes (v lsr 7)

let ints_of_bytes (l : n list) : int list = List.map int_of_n l
let hex_of_ints (l : int list) : string =
  if l = [] then "-" else String.concat "" (List.map (Printf.sprintf "%02x") l)

(* gval in the pbrender text format: fields by ascending number, map entries by key text.
   protoreflect hands float32 values out as float64, and the conversion quiets signalling NaNs: the
   renderer on the Go side therefore never shows a float32 signalling-NaN payload; mirror that here *)
let quiet32 (z : z) : z =
  let h = hex_of_z z in
  (try let v = int_of_string ("0x" ^ h) in
     if v land 0x7f800000 = 0x7f800000 && v land 0x007fffff <> 0 then z_of_hex (Printf.sprintf "%x" (v lor 0x00400000)) else z
   with _ -> z)
let rec str_val (sc : mdesc list) (k : fkind option) (v : gval) : string =
  match v with
  | GAbsent -> "?"
  | GNum z -> "n" ^ hex_of_z (match k with Some (FNum KFloat) -> quiet32 z | _ -> z)
  | GBytes b -> "b" ^ hex_of_bytes b
  | GList l -> "[" ^ String.concat "," (List.map (str_val sc k) l) ^ "]"
  | GMap kvs ->
    let (kk, vk) = (match k with Some (FMsg _) | None -> (None, None) | _ -> (None, None)) in
    ignore kk; ignore vk;
    "{}"
  | GMsg (_, _) -> (match k with Some (FMsg t) -> str_msg sc (int_of_nat t) v | _ -> str_msg sc (-1) v)
and str_msg (sc : mdesc list) (ty : int) (v : gval) : string =
  match v with
  | GMsg (fs, u) ->
    let md = (try Some (List.nth sc ty) with _ -> None) in
    let fdesc_of n = match md with None -> None | Some md -> List.find_opt (fun f -> int_of_n f.fnum = int_of_n n) md.mfields in
    let fs = List.sort (fun (a, _) (b, _) -> compare (int_of_n a) (int_of_n b)) fs in
    let parts = List.map (fun (n, x) ->
      let s = (match fdesc_of n, x with
        | Some { fcard_ = CMap (kk, vk); _ }, GMap kvs ->
          let es = List.map (fun (k, y) -> (str_val sc (Some kk) k, str_val sc (Some vk) y)) kvs in
          let es = List.sort (fun (a, _) (b, _) -> compare a b) es in
          "{" ^ String.concat "," (List.map (fun (k, y) -> k ^ ":" ^ y) es) ^ "}"
        | Some f, _ -> str_val sc (Some f.fkind_) x
        | None, _ -> str_val sc None x) in
      dec_of_n n ^ "=" ^ s) fs in
    let parts = if u = [] then parts else parts @ ["u=" ^ hex_of_bytes u] in
    "(" ^ String.concat ";" parts ^ ")"
  | _ -> str_val sc None v

let gen_case (toks : string list) : string =
  match toks with
  | [op; schema; ty; input] when String.length op >= 2 && String.sub op 0 2 = "RD" ->
    let sc = parse_schema schema in
    let tyi = nat_of_int (int_of_string ty) in
    let p = bytes_of_hex input in
    let fuel = nat_of_int (List.length p + 2) in
    (match ref_decode sc fuel tyi p with
     | None -> "err"
     | Some v -> "ok " ^ str_msg sc (int_of_string ty) (normalize sc fuel tyi v))
  | [op; schema; ty; value] when String.length op >= 2 && String.sub op 0 2 = "SM" ->
    let sc = parse_schema schema in
    let tyi = int_of_string ty in
    let v = parse_value value in
    let fuel = S (vdepth v) in
    let sz = int_of_nat (gen_size sc fuel (nat_of_int tyi) v) in
    (match gen_marshal sc (nat_of_int tyi) v with
     | MErr -> "err"
     | MPanic -> "panic"
     | MBytes b -> string_of_int sz ^ " " ^ hex_of_ints (canon_msg sc tyi (ints_of_bytes b)))
  | [op; schema; ty; input] when String.length op >= 2 && (String.sub op 0 2 = "UM" || String.sub op 0 2 = "RT" || String.sub op 0 2 = "AL") ->
    let sc = parse_schema schema in
    let tyi = nat_of_int (int_of_string ty) in
    let p = bytes_of_hex input in
    let fast = (let n = String.length op in n >= 6 && String.sub op (n - 6) 6 = "unsafe") in
    let fuel = nat_of_int (List.length p + 2) in
    (match gen_unmarshal sc fast fuel tyi p with
     | UErr -> "err"
     | UPanic -> "panic"
     | UOk (v, al) ->
       (match String.sub op 0 2 with
        | "UM" -> "ok " ^ str_msg sc (int_of_string ty) (normalize sc (S (vdepth v)) tyi v)
        | "AL" -> if al then "ok changed" else "ok same"
        | _ ->
          let f2 = S (vdepth v) in
          let sz = int_of_nat (gen_size sc f2 tyi v) in
          (match gen_marshal sc tyi v with
           | MErr -> "merr" | MPanic -> "panic"
           | MBytes b -> string_of_int sz ^ " " ^ hex_of_ints (canon_msg sc (int_of_string ty) (ints_of_bytes b)))))
  | op :: schema :: ty :: google :: ops when String.length op >= 2 && String.sub op 0 2 = "HI" ->
    (* a history on one message (C09); everything from the first assignment that meets a cached size on its
       path onward prints "?" (recorded finding G14: the harness computes the same predicate on its mirror) *)
    let sc = parse_schema schema in
    let tyi = int_of_string ty in
    let google = (google = "1") in
    let st = ref (hinit (nat_of_int tyi)) in
    let stale = ref false in
    let out = List.map (fun tok ->
      let hop = (match String.split_on_char ':' tok with
        | ["S"; path; num; h] ->
          let p = if path = "-" then [] else List.map (fun x -> n_of_int (int_of_string x)) (String.split_on_char '.' path) in
          let numn = n_of_int (int_of_string num) in
          let x = (match msg_at sc !st.hty !st.hroot p with
            | Some (t, _) ->
              let b = bytes_of_hex h in
              (match ref_decode sc (nat_of_int (List.length b + 2)) t b with
               | Some (GMsg (fs, _)) -> lookup_field numn fs
               | _ -> GAbsent)
            | None -> GAbsent) in
          HSet (p, numn, x)
        | ["Z"] -> HSize | ["M"] -> HMarshal | ["T"] -> HMarshalTo | ["RS"] -> HRtSize
        | ["U"; h] -> HUnmarshal (bytes_of_hex h)
        | ["R"] -> HReset | ["K"] -> HClone
        | _ -> failwith ("bad history op " ^ tok)) in
      if not (mutation_fresh !st hop) then stale := true;
      let (o, s1) = hstep sc google !st hop in
      st := s1;
      if !stale then "?" else
      (match o with
       | BOk -> "ok" | BNoPath -> "nopath" | BErr -> "err" | BPanic -> "panic"
       | BSize n -> string_of_int (int_of_nat n)
       | BBytes b -> hex_of_ints (canon_msg sc tyi (ints_of_bytes b)))) ops in
    String.concat " " out
  | [op; schema; ty; input] when String.length op >= 2 && String.sub op 0 2 = "RA" ->
    (* the reference semantics on ARBITRARY bytes, as a conforming parser behaves: RefMsg.v accepts varints of
       more than 64 bits (it keeps the unbounded value), a real parser rejects them: that is varints_fit *)
    let sc = parse_schema schema in
    let tyi = nat_of_int (int_of_string ty) in
    let p = bytes_of_hex input in
    let fuel = nat_of_int (List.length p + 2) in
    (match ref_decode sc fuel tyi p with
     | None -> "err"
     | Some v -> if varints_fit sc fuel tyi p then "ok " ^ str_msg sc (int_of_string ty) (normalize sc fuel tyi v) else "err")
  | [op; schema; ty; input] when String.length op >= 2 && String.sub op 0 2 = "LG" ->
    let sc = parse_schema schema in
    let tyi = nat_of_int (int_of_string ty) in
    let p = bytes_of_hex input in
    let fuel = nat_of_int (List.length p + 2) in
    (if legal_msg sc fuel tyi p then "legal" else "illegal") ^ " " ^ (if no_dup_msgs sc fuel tyi p then "nodup" else "dup")
  | [op; pm; prefix; forest] when String.length op >= 2 && String.sub op 0 2 = "NM" ->
    (* forest syntax: Name(Kid,Kid(Kid)),Name  or - *)
    let codes (x : string) : n list = List.map (fun c -> n_of_int (Char.code c)) (List.of_seq (String.to_seq x)) in
    let pos = ref 0 in
    let peek () = if !pos < String.length forest then forest.[!pos] else '$' in
    let rec nodes () : mnode list =
      let acc = ref [] in
      let continue = ref true in
      while !continue do
        let st = !pos in
        while (match peek () with '(' | ')' | ',' | '$' -> false | _ -> true) do incr pos done;
        let name = String.sub forest st (!pos - st) in
        let kids = if peek () = '(' then (incr pos; let k = nodes () in incr pos; k) else [] in
        acc := MNode (codes name, kids) :: !acc;
        if peek () = ',' then incr pos else continue := false
      done;
      List.rev !acc in
    let forest_v = if forest = "-" then [] else nodes () in
    let names = out_names (codes prefix) (pm = "1") forest_v in
    String.concat " " (List.map (fun l -> String.concat "" (List.map (fun c -> String.make 1 (Char.chr (int_of_n c))) l)) names)
  | "OP" :: [param] ->
    (* name=value,... (paths= is protogen's own); accepted iff every parameter is accepted *)
    let codes (x : string) : n list = List.map (fun c -> n_of_int (Char.code c)) (List.of_seq (String.to_seq x)) in
    let ok = List.fold_left (fun acc kv ->
      match acc with None -> None | Some o ->
        (match split '=' kv with
         | [k; v] ->
           (match k with
            | "paths" -> Some o
            | "apiversion" -> apply_opt o KApi (codes v)
            | "filepermessage" -> apply_opt o KPerMsg (codes v)
            | "enableunsafedecode" -> apply_opt o KUnsafe (codes v)
            | "specialname" -> apply_opt o KSpecial (codes v)
            | _ -> apply_opt o KOtherKey (codes v))
         | _ -> None)) (Some default_opts) (split ',' param) in
    (match ok with Some _ -> "accepted" | None -> "rejected")
  | _ -> failwith "bad gen case"

(* ---------- runtime shim (Shim/*.v) ---------- *)
let caps_of_bits (b : string) : caps =
  let g i = b.[i] = '1' in
  { c_nil = g 0; c_ptr = g 1; c_v2 = g 2; c_v1 = g 3; c_gogo_reg = g 4; c_sizer = g 5; c_marshaler = g 6; c_unmarshaler = g 7;
    c_xxx_marshal = g 8; c_xxx_size = g 9; c_xxx_unmarshal = g 10; c_text = g 11; c_reset = g 12 }
let mt_name = function TUnknown -> "unknown" | TGogo -> "gogo" | TGoogleV1 -> "googlev1" | TGoogle -> "google"
let mtype_of = function "google" -> TGoogle | "gogo" -> TGogo | "googlev1" -> TGoogleV1 | _ -> TUnknown
let dflavour_of = function "v2" -> DV2 | "v1" -> DGoogleV1 | "gogo" -> DGogo | _ -> DOther
let shim_case (toks : string list) : string =
  match toks with
  | ["CAPS"; bits] ->
    let c = caps_of_bits bits in
    let okerr a = (match a with AErr0 -> "err" | ABadAssert -> "panic" | ADocPanic -> "panic" | _ -> "ok") in
    String.concat " " [
      mt_name (deduce c);
      "marshal:" ^ okerr (marshal_action c);
      "unmarshal:" ^ okerr (unmarshal_action c);
      "size:" ^ (match size_action c with AZero -> "zero" | _ -> "pos");
      "clone:" ^ (match clone_action deduce c with AZero -> "nil" | ABadAssert -> "panic" | _ -> "val");
      "equal:" ^ (match equal_action deduce c c with AZero -> "false" | ABadAssert -> "panic" | _ -> "true");
      "text:" ^ okerr (text_action deduce c);
      "range:" ^ (match range_ext_action deduce c with ABadAssert -> "panic" | _ -> "done");
      "reset:" ^ okerr (reset_action deduce c) ]
  | ["RACE"; bits; g] ->
    let c = caps_of_bits bits in
    let n = int_of_string g in
    (* all goroutines load (and miss) first, then all store, then one more load each *)
    let ids = List.init n (fun i -> nat_of_int i) in
    let sched = List.map (fun i -> TLoad i) ids @ List.map (fun i -> TStore i) ids @ List.map (fun i -> TLoad i) ids in
    let s = crun c sched in
    let names = List.sort_uniq compare (List.map (fun (_, t) -> mt_name t) s.results) in
    String.concat "," names
  | "EXT" :: rt :: ops ->
    let rt = mtype_of rt in
    let op_of t = (match split ':' t with
      | ["set"; fl; n; v] -> XSet (dflavour_of fl, n_of_int (int_of_string n), z_of_hex v)
      | ["get"; fl; n] -> XGet (dflavour_of fl, n_of_int (int_of_string n))
      | ["has"; fl; n] -> XHas (dflavour_of fl, n_of_int (int_of_string n))
      | ["clear"; fl; n] -> XClear (dflavour_of fl, n_of_int (int_of_string n))
      | ["clearall"] -> XClearAll | ["range"] -> XRange
      | ["number"; fl; n] -> XNumber (dflavour_of fl, n_of_int (int_of_string n))
      | _ -> failwith ("bad ext op " ^ t)) in
    let (obs, _) = ext_run rt [] (List.map op_of ops) in
    String.concat " " (List.map (function
      | ONone -> "none" | OErr -> "err" | OBool b -> "bool:" ^ string_of_bool b
      | OVal None -> "val:none" | OVal (Some v) -> "val:" ^ hex_of_z v
      | ONums l -> "nums:" ^ String.concat "," (List.sort compare (List.map dec_of_n l) |> List.map (fun x -> x) |> fun l -> List.sort (fun a b -> compare (int_of_string a) (int_of_string b)) l)
      | ONum n -> "num:" ^ dec_of_n n | OPanicDoc -> "docpanic") obs)
  | ("JM" | "JU") :: bits :: rest ->
    let g i = bits.[i] = '1' in
    let c = { jc_nil = g 0; jc_json = g 1; jc_v2 = g 2; jc_v1 = g 3; jc_gogo = g 4 } in
    let codes (x : string) : n list = List.map (fun ch -> n_of_int (Char.code ch)) (List.of_seq (String.to_seq x)) in
    let unhex_str (h : string) : n list = if h = "-" then [] else bytes_of_hex h in
    let opts_of (t : string) : jopts =
      if t = "-" then jdefault else
      jbuild (List.map (fun kv -> match split '=' kv with
        | ["indent"; h] -> JIndent (unhex_str h)
        | ["enum"; b] -> JEnumNumbers (b = "1")
        | ["zero"; b] -> JZero (b = "1")
        | ["unknown"; b] -> JUnknown (b = "1")
        | ["partial"; b] -> JPartial (b = "1")
        | _ -> failwith ("bad json option " ^ kv)) (split ',' t)) in
    ignore codes;
    let hexs (l : n list) = hex_of_bytes l in
    let b2s b = if b then "1" else "0" in
    (match List.hd toks, rest with
     | "JM", [o] ->
       (match marshal_json c (opts_of o) with
        | MNothing -> "nothing" | MOwn -> "own" | MUnsupported -> "unsupported"
        | MV2 (i, e, z) -> "v2 indent=" ^ hexs i ^ " enum=" ^ b2s e ^ " zero=" ^ b2s z
        | MV1 (i, e, z) -> "v1 indent=" ^ hexs i ^ " enum=" ^ b2s e ^ " zero=" ^ b2s z
        | MGogo (i, e, z) -> "gogo indent=" ^ hexs i ^ " enum=" ^ b2s e ^ " zero=" ^ b2s z)
     | "JU", [o; scenario] ->
       (match unmarshal_json c (opts_of o), scenario with
        | UNilError, _ -> "nilerror"
        | UV2 (partial, unknown), "unknownkey" -> if unknown then "ok" else "err"
        | (UV1 unknown | UGogo unknown), "unknownkey" -> if unknown then "ok" else "err"
        | UV2 (partial, _), "missingrequired" -> if partial then "ok" else "err"
        | (UV1 _ | UGogo _), "missingrequired" -> "err"
        | UOwn, _ -> "own" | _, _ -> "unsupported")
     | _ -> failwith "bad json case")
  | _ -> failwith "bad shim case"

let dispatch (line : string) : string =
  match split ' ' line with
  | "S" :: rest -> shim_case rest
  | ["L10"; mode; _; _] ->
    (* C10, lazyproto half: may a string/bytes value handed out share memory with the input? *)
    if acc_aliases_input (mode = "fast") AString || acc_aliases_input (mode = "fast") ABytes then "unspecified" else "same"
  | "G" :: rest -> gen_case rest
  | "L" :: rest -> lazy_case rest
  | "P" :: rest -> pool_case rest
  | "W" :: rest -> wire_case rest
  | "H" :: rest -> tools_case "H" rest
  | "D" :: rest -> tools_case "D" rest
  | _ -> failwith ("unknown case family: " ^ line)

let () =
  let ic = if Array.length Sys.argv > 1 then open_in Sys.argv.(1) else stdin in
  let oc = if Array.length Sys.argv > 2 then open_out Sys.argv.(2) else stdout in
  (try
    while true do
      let line = input_line ic in
      if line <> "" then begin
        let r = (try dispatch line with
                 | Stack_overflow -> "MODEL-STACK-OVERFLOW"
                 | Failure m -> "MODEL-FAIL " ^ m
                 | Not_found -> "MODEL-FAIL notfound") in
        output_string oc r; output_char oc '\n'
      end
    done
  with End_of_file -> ());
  close_out oc
