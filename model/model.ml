
(** val negb : bool -> bool **)

let negb = function
| true -> false
| false -> true

type nat =
| O
| S of nat

type ('a, 'b) sum =
| Inl of 'a
| Inr of 'b

(** val fst : ('a1 * 'a2) -> 'a1 **)

let fst = function
| (x, _) -> x

(** val snd : ('a1 * 'a2) -> 'a2 **)

let snd = function
| (_, y) -> y

(** val length : 'a1 list -> nat **)

let rec length = function
| [] -> O
| _ :: l' -> S (length l')

(** val app : 'a1 list -> 'a1 list -> 'a1 list **)

let rec app l m =
  match l with
  | [] -> m
  | a :: l1 -> a :: (app l1 m)

type comparison =
| Eq
| Lt
| Gt

(** val compOpp : comparison -> comparison **)

let compOpp = function
| Eq -> Eq
| Lt -> Gt
| Gt -> Lt

module Coq__1 = struct
 (** val add : nat -> nat -> nat **)
 let rec add n0 m =
   match n0 with
   | O -> m
   | S p -> S (add p m)
end
include Coq__1

(** val sub : nat -> nat -> nat **)

let rec sub n0 m =
  match n0 with
  | O -> n0
  | S k -> (match m with
            | O -> n0
            | S l -> sub k l)

module Nat =
 struct
  (** val eqb : nat -> nat -> bool **)

  let rec eqb n0 m =
    match n0 with
    | O -> (match m with
            | O -> true
            | S _ -> false)
    | S n' -> (match m with
               | O -> false
               | S m' -> eqb n' m')

  (** val leb : nat -> nat -> bool **)

  let rec leb n0 m =
    match n0 with
    | O -> true
    | S n' -> (match m with
               | O -> false
               | S m' -> leb n' m')

  (** val ltb : nat -> nat -> bool **)

  let ltb n0 m =
    leb (S n0) m
 end

(** val rev : 'a1 list -> 'a1 list **)

let rec rev = function
| [] -> []
| x :: l' -> app (rev l') (x :: [])

(** val concat : 'a1 list list -> 'a1 list **)

let rec concat = function
| [] -> []
| x :: l0 -> app x (concat l0)

(** val map : ('a1 -> 'a2) -> 'a1 list -> 'a2 list **)

let rec map f = function
| [] -> []
| a :: t -> (f a) :: (map f t)

(** val fold_left : ('a1 -> 'a2 -> 'a1) -> 'a2 list -> 'a1 -> 'a1 **)

let rec fold_left f l a0 =
  match l with
  | [] -> a0
  | b :: t -> fold_left f t (f a0 b)

(** val firstn : nat -> 'a1 list -> 'a1 list **)

let rec firstn n0 l =
  match n0 with
  | O -> []
  | S n1 -> (match l with
             | [] -> []
             | a :: l0 -> a :: (firstn n1 l0))

(** val skipn : nat -> 'a1 list -> 'a1 list **)

let rec skipn n0 l =
  match n0 with
  | O -> l
  | S n1 -> (match l with
             | [] -> []
             | _ :: l0 -> skipn n1 l0)

type positive =
| XI of positive
| XO of positive
| XH

type n =
| N0
| Npos of positive

type z =
| Z0
| Zpos of positive
| Zneg of positive

module Pos =
 struct
  type mask =
  | IsNul
  | IsPos of positive
  | IsNeg
 end

module Coq_Pos =
 struct
  (** val succ : positive -> positive **)

  let rec succ = function
  | XI p -> XO (succ p)
  | XO p -> XI p
  | XH -> XO XH

  (** val add : positive -> positive -> positive **)

  let rec add x y =
    match x with
    | XI p ->
      (match y with
       | XI q -> XO (add_carry p q)
       | XO q -> XI (add p q)
       | XH -> XO (succ p))
    | XO p ->
      (match y with
       | XI q -> XI (add p q)
       | XO q -> XO (add p q)
       | XH -> XI p)
    | XH -> (match y with
             | XI q -> XO (succ q)
             | XO q -> XI q
             | XH -> XO XH)

  (** val add_carry : positive -> positive -> positive **)

  and add_carry x y =
    match x with
    | XI p ->
      (match y with
       | XI q -> XI (add_carry p q)
       | XO q -> XO (add_carry p q)
       | XH -> XI (succ p))
    | XO p ->
      (match y with
       | XI q -> XO (add_carry p q)
       | XO q -> XI (add p q)
       | XH -> XO (succ p))
    | XH ->
      (match y with
       | XI q -> XI (succ q)
       | XO q -> XO (succ q)
       | XH -> XI XH)

  (** val pred_double : positive -> positive **)

  let rec pred_double = function
  | XI p -> XI (XO p)
  | XO p -> XI (pred_double p)
  | XH -> XH

  (** val pred_N : positive -> n **)

  let pred_N = function
  | XI p -> Npos (XO p)
  | XO p -> Npos (pred_double p)
  | XH -> N0

  type mask = Pos.mask =
  | IsNul
  | IsPos of positive
  | IsNeg

  (** val succ_double_mask : mask -> mask **)

  let succ_double_mask = function
  | IsNul -> IsPos XH
  | IsPos p -> IsPos (XI p)
  | IsNeg -> IsNeg

  (** val double_mask : mask -> mask **)

  let double_mask = function
  | IsPos p -> IsPos (XO p)
  | x0 -> x0

  (** val double_pred_mask : positive -> mask **)

  let double_pred_mask = function
  | XI p -> IsPos (XO (XO p))
  | XO p -> IsPos (XO (pred_double p))
  | XH -> IsNul

  (** val sub_mask : positive -> positive -> mask **)

  let rec sub_mask x y =
    match x with
    | XI p ->
      (match y with
       | XI q -> double_mask (sub_mask p q)
       | XO q -> succ_double_mask (sub_mask p q)
       | XH -> IsPos (XO p))
    | XO p ->
      (match y with
       | XI q -> succ_double_mask (sub_mask_carry p q)
       | XO q -> double_mask (sub_mask p q)
       | XH -> IsPos (pred_double p))
    | XH -> (match y with
             | XH -> IsNul
             | _ -> IsNeg)

  (** val sub_mask_carry : positive -> positive -> mask **)

  and sub_mask_carry x y =
    match x with
    | XI p ->
      (match y with
       | XI q -> succ_double_mask (sub_mask_carry p q)
       | XO q -> double_mask (sub_mask p q)
       | XH -> IsPos (pred_double p))
    | XO p ->
      (match y with
       | XI q -> double_mask (sub_mask_carry p q)
       | XO q -> succ_double_mask (sub_mask_carry p q)
       | XH -> double_pred_mask p)
    | XH -> IsNeg

  (** val mul : positive -> positive -> positive **)

  let rec mul x y =
    match x with
    | XI p -> add y (XO (mul p y))
    | XO p -> XO (mul p y)
    | XH -> y

  (** val iter : ('a1 -> 'a1) -> 'a1 -> positive -> 'a1 **)

  let rec iter f x = function
  | XI n' -> f (iter f (iter f x n') n')
  | XO n' -> iter f (iter f x n') n'
  | XH -> f x

  (** val pow : positive -> positive -> positive **)

  let pow x =
    iter (mul x) XH

  (** val div2 : positive -> positive **)

  let div2 = function
  | XI p0 -> p0
  | XO p0 -> p0
  | XH -> XH

  (** val div2_up : positive -> positive **)

  let div2_up = function
  | XI p0 -> succ p0
  | XO p0 -> p0
  | XH -> XH

  (** val size : positive -> positive **)

  let rec size = function
  | XI p0 -> succ (size p0)
  | XO p0 -> succ (size p0)
  | XH -> XH

  (** val compare_cont : comparison -> positive -> positive -> comparison **)

  let rec compare_cont r x y =
    match x with
    | XI p ->
      (match y with
       | XI q -> compare_cont r p q
       | XO q -> compare_cont Gt p q
       | XH -> Gt)
    | XO p ->
      (match y with
       | XI q -> compare_cont Lt p q
       | XO q -> compare_cont r p q
       | XH -> Gt)
    | XH -> (match y with
             | XH -> r
             | _ -> Lt)

  (** val compare : positive -> positive -> comparison **)

  let compare =
    compare_cont Eq

  (** val eqb : positive -> positive -> bool **)

  let rec eqb p q =
    match p with
    | XI p0 -> (match q with
                | XI q0 -> eqb p0 q0
                | _ -> false)
    | XO p0 -> (match q with
                | XO q0 -> eqb p0 q0
                | _ -> false)
    | XH -> (match q with
             | XH -> true
             | _ -> false)

  (** val coq_Nsucc_double : n -> n **)

  let coq_Nsucc_double = function
  | N0 -> Npos XH
  | Npos p -> Npos (XI p)

  (** val coq_Ndouble : n -> n **)

  let coq_Ndouble = function
  | N0 -> N0
  | Npos p -> Npos (XO p)

  (** val coq_lor : positive -> positive -> positive **)

  let rec coq_lor p q =
    match p with
    | XI p0 ->
      (match q with
       | XI q0 -> XI (coq_lor p0 q0)
       | XO q0 -> XI (coq_lor p0 q0)
       | XH -> p)
    | XO p0 ->
      (match q with
       | XI q0 -> XI (coq_lor p0 q0)
       | XO q0 -> XO (coq_lor p0 q0)
       | XH -> XI p0)
    | XH -> (match q with
             | XO q0 -> XI q0
             | _ -> q)

  (** val coq_land : positive -> positive -> n **)

  let rec coq_land p q =
    match p with
    | XI p0 ->
      (match q with
       | XI q0 -> coq_Nsucc_double (coq_land p0 q0)
       | XO q0 -> coq_Ndouble (coq_land p0 q0)
       | XH -> Npos XH)
    | XO p0 ->
      (match q with
       | XI q0 -> coq_Ndouble (coq_land p0 q0)
       | XO q0 -> coq_Ndouble (coq_land p0 q0)
       | XH -> N0)
    | XH -> (match q with
             | XO _ -> N0
             | _ -> Npos XH)

  (** val ldiff : positive -> positive -> n **)

  let rec ldiff p q =
    match p with
    | XI p0 ->
      (match q with
       | XI q0 -> coq_Ndouble (ldiff p0 q0)
       | XO q0 -> coq_Nsucc_double (ldiff p0 q0)
       | XH -> Npos (XO p0))
    | XO p0 ->
      (match q with
       | XI q0 -> coq_Ndouble (ldiff p0 q0)
       | XO q0 -> coq_Ndouble (ldiff p0 q0)
       | XH -> Npos p)
    | XH -> (match q with
             | XO _ -> Npos XH
             | _ -> N0)

  (** val coq_lxor : positive -> positive -> n **)

  let rec coq_lxor p q =
    match p with
    | XI p0 ->
      (match q with
       | XI q0 -> coq_Ndouble (coq_lxor p0 q0)
       | XO q0 -> coq_Nsucc_double (coq_lxor p0 q0)
       | XH -> Npos (XO p0))
    | XO p0 ->
      (match q with
       | XI q0 -> coq_Nsucc_double (coq_lxor p0 q0)
       | XO q0 -> coq_Ndouble (coq_lxor p0 q0)
       | XH -> Npos (XI p0))
    | XH ->
      (match q with
       | XI q0 -> Npos (XO q0)
       | XO q0 -> Npos (XI q0)
       | XH -> N0)

  (** val shiftl : positive -> n -> positive **)

  let shiftl p = function
  | N0 -> p
  | Npos n1 -> iter (fun x -> XO x) p n1

  (** val iter_op : ('a1 -> 'a1 -> 'a1) -> positive -> 'a1 -> 'a1 **)

  let rec iter_op op p a =
    match p with
    | XI p0 -> op a (iter_op op p0 (op a a))
    | XO p0 -> iter_op op p0 (op a a)
    | XH -> a

  (** val to_nat : positive -> nat **)

  let to_nat x =
    iter_op Coq__1.add x (S O)

  (** val of_succ_nat : nat -> positive **)

  let rec of_succ_nat = function
  | O -> XH
  | S x -> succ (of_succ_nat x)
 end

module N =
 struct
  (** val succ_double : n -> n **)

  let succ_double = function
  | N0 -> Npos XH
  | Npos p -> Npos (XI p)

  (** val double : n -> n **)

  let double = function
  | N0 -> N0
  | Npos p -> Npos (XO p)

  (** val succ_pos : n -> positive **)

  let succ_pos = function
  | N0 -> XH
  | Npos p -> Coq_Pos.succ p

  (** val add : n -> n -> n **)

  let add n0 m =
    match n0 with
    | N0 -> m
    | Npos p -> (match m with
                 | N0 -> n0
                 | Npos q -> Npos (Coq_Pos.add p q))

  (** val sub : n -> n -> n **)

  let sub n0 m =
    match n0 with
    | N0 -> N0
    | Npos n' ->
      (match m with
       | N0 -> n0
       | Npos m' ->
         (match Coq_Pos.sub_mask n' m' with
          | Coq_Pos.IsPos p -> Npos p
          | _ -> N0))

  (** val mul : n -> n -> n **)

  let mul n0 m =
    match n0 with
    | N0 -> N0
    | Npos p -> (match m with
                 | N0 -> N0
                 | Npos q -> Npos (Coq_Pos.mul p q))

  (** val compare : n -> n -> comparison **)

  let compare n0 m =
    match n0 with
    | N0 -> (match m with
             | N0 -> Eq
             | Npos _ -> Lt)
    | Npos n' -> (match m with
                  | N0 -> Gt
                  | Npos m' -> Coq_Pos.compare n' m')

  (** val eqb : n -> n -> bool **)

  let eqb n0 m =
    match n0 with
    | N0 -> (match m with
             | N0 -> true
             | Npos _ -> false)
    | Npos p -> (match m with
                 | N0 -> false
                 | Npos q -> Coq_Pos.eqb p q)

  (** val leb : n -> n -> bool **)

  let leb x y =
    match compare x y with
    | Gt -> false
    | _ -> true

  (** val ltb : n -> n -> bool **)

  let ltb x y =
    match compare x y with
    | Lt -> true
    | _ -> false

  (** val div2 : n -> n **)

  let div2 = function
  | N0 -> N0
  | Npos p0 -> (match p0 with
                | XI p -> Npos p
                | XO p -> Npos p
                | XH -> N0)

  (** val pow : n -> n -> n **)

  let pow n0 = function
  | N0 -> Npos XH
  | Npos p0 -> (match n0 with
                | N0 -> N0
                | Npos q -> Npos (Coq_Pos.pow q p0))

  (** val size : n -> n **)

  let size = function
  | N0 -> N0
  | Npos p -> Npos (Coq_Pos.size p)

  (** val pos_div_eucl : positive -> n -> n * n **)

  let rec pos_div_eucl a b =
    match a with
    | XI a' ->
      let (q, r) = pos_div_eucl a' b in
      let r' = succ_double r in
      if leb b r' then ((succ_double q), (sub r' b)) else ((double q), r')
    | XO a' ->
      let (q, r) = pos_div_eucl a' b in
      let r' = double r in
      if leb b r' then ((succ_double q), (sub r' b)) else ((double q), r')
    | XH ->
      (match b with
       | N0 -> (N0, (Npos XH))
       | Npos p -> (match p with
                    | XH -> ((Npos XH), N0)
                    | _ -> (N0, (Npos XH))))

  (** val div_eucl : n -> n -> n * n **)

  let div_eucl a b =
    match a with
    | N0 -> (N0, N0)
    | Npos na -> (match b with
                  | N0 -> (N0, a)
                  | Npos _ -> pos_div_eucl na b)

  (** val div : n -> n -> n **)

  let div a b =
    fst (div_eucl a b)

  (** val modulo : n -> n -> n **)

  let modulo a b =
    snd (div_eucl a b)

  (** val coq_lor : n -> n -> n **)

  let coq_lor n0 m =
    match n0 with
    | N0 -> m
    | Npos p -> (match m with
                 | N0 -> n0
                 | Npos q -> Npos (Coq_Pos.coq_lor p q))

  (** val coq_land : n -> n -> n **)

  let coq_land n0 m =
    match n0 with
    | N0 -> N0
    | Npos p -> (match m with
                 | N0 -> N0
                 | Npos q -> Coq_Pos.coq_land p q)

  (** val ldiff : n -> n -> n **)

  let ldiff n0 m =
    match n0 with
    | N0 -> N0
    | Npos p -> (match m with
                 | N0 -> n0
                 | Npos q -> Coq_Pos.ldiff p q)

  (** val coq_lxor : n -> n -> n **)

  let coq_lxor n0 m =
    match n0 with
    | N0 -> m
    | Npos p -> (match m with
                 | N0 -> n0
                 | Npos q -> Coq_Pos.coq_lxor p q)

  (** val shiftl : n -> n -> n **)

  let shiftl a n0 =
    match a with
    | N0 -> N0
    | Npos a0 -> Npos (Coq_Pos.shiftl a0 n0)

  (** val shiftr : n -> n -> n **)

  let shiftr a = function
  | N0 -> a
  | Npos p -> Coq_Pos.iter div2 a p

  (** val to_nat : n -> nat **)

  let to_nat = function
  | N0 -> O
  | Npos p -> Coq_Pos.to_nat p

  (** val of_nat : nat -> n **)

  let of_nat = function
  | O -> N0
  | S n' -> Npos (Coq_Pos.of_succ_nat n')
 end

module Z =
 struct
  (** val double : z -> z **)

  let double = function
  | Z0 -> Z0
  | Zpos p -> Zpos (XO p)
  | Zneg p -> Zneg (XO p)

  (** val succ_double : z -> z **)

  let succ_double = function
  | Z0 -> Zpos XH
  | Zpos p -> Zpos (XI p)
  | Zneg p -> Zneg (Coq_Pos.pred_double p)

  (** val pred_double : z -> z **)

  let pred_double = function
  | Z0 -> Zneg XH
  | Zpos p -> Zpos (Coq_Pos.pred_double p)
  | Zneg p -> Zneg (XI p)

  (** val pos_sub : positive -> positive -> z **)

  let rec pos_sub x y =
    match x with
    | XI p ->
      (match y with
       | XI q -> double (pos_sub p q)
       | XO q -> succ_double (pos_sub p q)
       | XH -> Zpos (XO p))
    | XO p ->
      (match y with
       | XI q -> pred_double (pos_sub p q)
       | XO q -> double (pos_sub p q)
       | XH -> Zpos (Coq_Pos.pred_double p))
    | XH ->
      (match y with
       | XI q -> Zneg (XO q)
       | XO q -> Zneg (Coq_Pos.pred_double q)
       | XH -> Z0)

  (** val add : z -> z -> z **)

  let add x y =
    match x with
    | Z0 -> y
    | Zpos x' ->
      (match y with
       | Z0 -> x
       | Zpos y' -> Zpos (Coq_Pos.add x' y')
       | Zneg y' -> pos_sub x' y')
    | Zneg x' ->
      (match y with
       | Z0 -> x
       | Zpos y' -> pos_sub y' x'
       | Zneg y' -> Zneg (Coq_Pos.add x' y'))

  (** val opp : z -> z **)

  let opp = function
  | Z0 -> Z0
  | Zpos x0 -> Zneg x0
  | Zneg x0 -> Zpos x0

  (** val sub : z -> z -> z **)

  let sub m n0 =
    add m (opp n0)

  (** val mul : z -> z -> z **)

  let mul x y =
    match x with
    | Z0 -> Z0
    | Zpos x' ->
      (match y with
       | Z0 -> Z0
       | Zpos y' -> Zpos (Coq_Pos.mul x' y')
       | Zneg y' -> Zneg (Coq_Pos.mul x' y'))
    | Zneg x' ->
      (match y with
       | Z0 -> Z0
       | Zpos y' -> Zneg (Coq_Pos.mul x' y')
       | Zneg y' -> Zpos (Coq_Pos.mul x' y'))

  (** val pow_pos : z -> positive -> z **)

  let pow_pos z0 =
    Coq_Pos.iter (mul z0) (Zpos XH)

  (** val pow : z -> z -> z **)

  let pow x = function
  | Z0 -> Zpos XH
  | Zpos p -> pow_pos x p
  | Zneg _ -> Z0

  (** val compare : z -> z -> comparison **)

  let compare x y =
    match x with
    | Z0 -> (match y with
             | Z0 -> Eq
             | Zpos _ -> Lt
             | Zneg _ -> Gt)
    | Zpos x' -> (match y with
                  | Zpos y' -> Coq_Pos.compare x' y'
                  | _ -> Gt)
    | Zneg x' ->
      (match y with
       | Zneg y' -> compOpp (Coq_Pos.compare x' y')
       | _ -> Lt)

  (** val leb : z -> z -> bool **)

  let leb x y =
    match compare x y with
    | Gt -> false
    | _ -> true

  (** val ltb : z -> z -> bool **)

  let ltb x y =
    match compare x y with
    | Lt -> true
    | _ -> false

  (** val eqb : z -> z -> bool **)

  let eqb x y =
    match x with
    | Z0 -> (match y with
             | Z0 -> true
             | _ -> false)
    | Zpos p -> (match y with
                 | Zpos q -> Coq_Pos.eqb p q
                 | _ -> false)
    | Zneg p -> (match y with
                 | Zneg q -> Coq_Pos.eqb p q
                 | _ -> false)

  (** val to_nat : z -> nat **)

  let to_nat = function
  | Zpos p -> Coq_Pos.to_nat p
  | _ -> O

  (** val to_N : z -> n **)

  let to_N = function
  | Zpos p -> Npos p
  | _ -> N0

  (** val of_nat : nat -> z **)

  let of_nat = function
  | O -> Z0
  | S n1 -> Zpos (Coq_Pos.of_succ_nat n1)

  (** val of_N : n -> z **)

  let of_N = function
  | N0 -> Z0
  | Npos p -> Zpos p

  (** val pos_div_eucl : positive -> z -> z * z **)

  let rec pos_div_eucl a b =
    match a with
    | XI a' ->
      let (q, r) = pos_div_eucl a' b in
      let r' = add (mul (Zpos (XO XH)) r) (Zpos XH) in
      if ltb r' b
      then ((mul (Zpos (XO XH)) q), r')
      else ((add (mul (Zpos (XO XH)) q) (Zpos XH)), (sub r' b))
    | XO a' ->
      let (q, r) = pos_div_eucl a' b in
      let r' = mul (Zpos (XO XH)) r in
      if ltb r' b
      then ((mul (Zpos (XO XH)) q), r')
      else ((add (mul (Zpos (XO XH)) q) (Zpos XH)), (sub r' b))
    | XH -> if leb (Zpos (XO XH)) b then (Z0, (Zpos XH)) else ((Zpos XH), Z0)

  (** val div_eucl : z -> z -> z * z **)

  let div_eucl a b =
    match a with
    | Z0 -> (Z0, Z0)
    | Zpos a' ->
      (match b with
       | Z0 -> (Z0, a)
       | Zpos _ -> pos_div_eucl a' b
       | Zneg b' ->
         let (q, r) = pos_div_eucl a' (Zpos b') in
         (match r with
          | Z0 -> ((opp q), Z0)
          | _ -> ((opp (add q (Zpos XH))), (add b r))))
    | Zneg a' ->
      (match b with
       | Z0 -> (Z0, a)
       | Zpos _ ->
         let (q, r) = pos_div_eucl a' b in
         (match r with
          | Z0 -> ((opp q), Z0)
          | _ -> ((opp (add q (Zpos XH))), (sub b r)))
       | Zneg b' -> let (q, r) = pos_div_eucl a' (Zpos b') in (q, (opp r)))

  (** val modulo : z -> z -> z **)

  let modulo a b =
    let (_, r) = div_eucl a b in r

  (** val div2 : z -> z **)

  let div2 = function
  | Z0 -> Z0
  | Zpos p -> (match p with
               | XH -> Z0
               | _ -> Zpos (Coq_Pos.div2 p))
  | Zneg p -> Zneg (Coq_Pos.div2_up p)

  (** val shiftl : z -> z -> z **)

  let shiftl a = function
  | Z0 -> a
  | Zpos p -> Coq_Pos.iter (mul (Zpos (XO XH))) a p
  | Zneg p -> Coq_Pos.iter div2 a p

  (** val shiftr : z -> z -> z **)

  let shiftr a n0 =
    shiftl a (opp n0)

  (** val coq_land : z -> z -> z **)

  let coq_land a b =
    match a with
    | Z0 -> Z0
    | Zpos a0 ->
      (match b with
       | Z0 -> Z0
       | Zpos b0 -> of_N (Coq_Pos.coq_land a0 b0)
       | Zneg b0 -> of_N (N.ldiff (Npos a0) (Coq_Pos.pred_N b0)))
    | Zneg a0 ->
      (match b with
       | Z0 -> Z0
       | Zpos b0 -> of_N (N.ldiff (Npos b0) (Coq_Pos.pred_N a0))
       | Zneg b0 ->
         Zneg (N.succ_pos (N.coq_lor (Coq_Pos.pred_N a0) (Coq_Pos.pred_N b0))))

  (** val coq_lxor : z -> z -> z **)

  let coq_lxor a b =
    match a with
    | Z0 -> b
    | Zpos a0 ->
      (match b with
       | Z0 -> a
       | Zpos b0 -> of_N (Coq_Pos.coq_lxor a0 b0)
       | Zneg b0 ->
         Zneg (N.succ_pos (N.coq_lxor (Npos a0) (Coq_Pos.pred_N b0))))
    | Zneg a0 ->
      (match b with
       | Z0 -> a
       | Zpos b0 ->
         Zneg (N.succ_pos (N.coq_lxor (Coq_Pos.pred_N a0) (Npos b0)))
       | Zneg b0 -> of_N (N.coq_lxor (Coq_Pos.pred_N a0) (Coq_Pos.pred_N b0)))
 end

type 'a outcome =
| Ok of 'a
| Err
| Panic

(** val obind : 'a1 outcome -> ('a1 -> 'a2 outcome) -> 'a2 outcome **)

let obind o f =
  match o with
  | Ok a -> f a
  | Err -> Err
  | Panic -> Panic

(** val slice : 'a1 list -> nat -> nat -> 'a1 list **)

let slice l lo hi =
  firstn (sub hi lo) (skipn lo l)

(** val enc_varint_fuel : nat -> n -> n list **)

let rec enc_varint_fuel fuel v =
  match fuel with
  | O -> (N.modulo v (Npos (XO (XO (XO (XO (XO (XO (XO (XO XH)))))))))) :: []
  | S f ->
    if N.leb (Npos (XO (XO (XO (XO (XO (XO (XO XH)))))))) v
    then (N.coq_lor (N.coq_land v (Npos (XI (XI (XI (XI (XI (XI XH))))))))
           (Npos (XO (XO (XO (XO (XO (XO (XO XH))))))))) :: (enc_varint_fuel
                                                              f
                                                              (N.shiftr v
                                                                (Npos (XI (XI
                                                                XH)))))
    else (N.modulo v (Npos (XO (XO (XO (XO (XO (XO (XO (XO XH)))))))))) :: []

(** val enc_varint : n -> n list **)

let enc_varint v =
  enc_varint_fuel (S (S (S (S (S (S (S (S (S (S O)))))))))) v

(** val size_of_varint : n -> nat **)

let size_of_varint v =
  N.to_nat
    (N.div (N.add (N.size (N.coq_lor v (Npos XH))) (Npos (XO (XI XH)))) (Npos
      (XI (XI XH))))

type derr =
| EInvalidVarint
| EUnexpectedEOF
| EOverflow

(** val dv_small : nat -> n list -> n -> n -> nat -> (n * nat, derr) sum **)

let rec dv_small fuel p shift v n0 =
  match fuel with
  | O -> Inr EOverflow
  | S f ->
    (match p with
     | [] -> Inr EUnexpectedEOF
     | b :: p' ->
       let v' =
         N.coq_lor v
           (N.modulo
             (N.shiftl (N.coq_land b (Npos (XI (XI (XI (XI (XI (XI XH))))))))
               shift)
             (N.pow (Npos (XO XH)) (Npos (XO (XO (XO (XO (XO (XO XH)))))))))
       in
       if N.eqb (N.coq_land b (Npos (XO (XO (XO (XO (XO (XO (XO XH))))))))) N0
       then Inl (v', (S n0))
       else dv_small f p' (N.add shift (Npos (XI (XI XH)))) v' (S n0))

(** val dec_varint : n list -> (n * nat, derr) sum **)

let dec_varint p = match p with
| [] -> Inr EInvalidVarint
| b0 :: _ ->
  if N.ltb b0 (Npos (XO (XO (XO (XO (XO (XO (XO XH))))))))
  then Inl (b0, (S O))
  else if Nat.ltb (length p) (S (S (S (S (S (S (S (S (S (S O))))))))))
       then dv_small (S (S (S (S (S (S (S (S (S (S O)))))))))) p N0 N0 O
       else dv_small (S (S (S (S (S (S (S (S (S (S O))))))))))
              (firstn (S (S (S (S (S (S (S (S (S (S O)))))))))) p) N0 N0 O

(** val two : z -> z **)

let two w =
  Z.pow (Zpos (XO XH)) w

(** val half : z -> z **)

let half w =
  Z.pow (Zpos (XO XH)) (Z.sub w (Zpos XH))

(** val uw : z -> z -> z **)

let uw w z0 =
  Z.modulo z0 (two w)

(** val iw : z -> z -> z **)

let iw w z0 =
  let m = Z.modulo z0 (two w) in
  if Z.ltb m (half w) then m else Z.sub m (two w)

(** val enc_zz : z -> z -> z **)

let enc_zz w v =
  Z.coq_lxor (uw w (Z.shiftl v (Zpos XH)))
    (uw w (Z.shiftr v (Z.sub w (Zpos XH))))

(** val dec_zz : z -> z -> z **)

let dec_zz w dv =
  iw w
    (Z.coq_lxor (Z.shiftr (uw w dv) (Zpos XH))
      (uw w
        (Z.shiftr
          (iw w
            (Z.shiftl (iw w (Z.coq_land dv (Zpos XH))) (Z.sub w (Zpos XH))))
          (Z.sub w (Zpos XH)))))

(** val enc_zz64 : z -> z **)

let enc_zz64 =
  enc_zz (Zpos (XO (XO (XO (XO (XO (XO XH)))))))

(** val dec_zz64 : z -> z **)

let dec_zz64 =
  dec_zz (Zpos (XO (XO (XO (XO (XO (XO XH)))))))

(** val enc_zz32 : z -> z **)

let enc_zz32 =
  enc_zz (Zpos (XO (XO (XO (XO (XO XH))))))

(** val dec_zz32 : z -> z **)

let dec_zz32 =
  dec_zz (Zpos (XO (XO (XO (XO (XO XH))))))

(** val u64z : z -> n **)

let u64z z0 =
  Z.to_N
    (Z.modulo z0
      (Z.pow (Zpos (XO XH)) (Zpos (XO (XO (XO (XO (XO (XO XH)))))))))

(** val u32z : z -> n **)

let u32z z0 =
  Z.to_N
    (Z.modulo z0 (Z.pow (Zpos (XO XH)) (Zpos (XO (XO (XO (XO (XO XH))))))))

(** val i64n : n -> z **)

let i64n n0 =
  let m =
    Z.of_N
      (N.modulo n0
        (N.pow (Npos (XO XH)) (Npos (XO (XO (XO (XO (XO (XO XH)))))))))
  in
  if Z.ltb m (Z.pow (Zpos (XO XH)) (Zpos (XI (XI (XI (XI (XI XH)))))))
  then m
  else Z.sub m (Z.pow (Zpos (XO XH)) (Zpos (XO (XO (XO (XO (XO (XO XH))))))))

(** val i32n : n -> z **)

let i32n n0 =
  let m =
    Z.of_N
      (N.modulo n0 (N.pow (Npos (XO XH)) (Npos (XO (XO (XO (XO (XO XH))))))))
  in
  if Z.ltb m (Z.pow (Zpos (XO XH)) (Zpos (XI (XI (XI (XI XH))))))
  then m
  else Z.sub m (Z.pow (Zpos (XO XH)) (Zpos (XO (XO (XO (XO (XO XH)))))))

type skind =
| KBool
| KInt32
| KInt64
| KUInt32
| KUInt64
| KSInt32
| KSInt64
| KFixed32
| KFixed64
| KSFixed32
| KSFixed64
| KFloat
| KDouble

(** val in_dom : skind -> z -> bool **)

let in_dom k v =
  match k with
  | KBool -> (&&) (Z.leb Z0 v) (Z.leb v (Zpos XH))
  | KInt32 ->
    (&&)
      (Z.leb (Z.opp (Z.pow (Zpos (XO XH)) (Zpos (XI (XI (XI (XI XH))))))) v)
      (Z.ltb v (Z.pow (Zpos (XO XH)) (Zpos (XI (XI (XI (XI XH)))))))
  | KInt64 ->
    (&&)
      (Z.leb
        (Z.opp (Z.pow (Zpos (XO XH)) (Zpos (XI (XI (XI (XI (XI XH)))))))) v)
      (Z.ltb v (Z.pow (Zpos (XO XH)) (Zpos (XI (XI (XI (XI (XI XH))))))))
  | KUInt32 ->
    (&&) (Z.leb Z0 v)
      (Z.ltb v (Z.pow (Zpos (XO XH)) (Zpos (XO (XO (XO (XO (XO XH))))))))
  | KSInt32 ->
    (&&)
      (Z.leb (Z.opp (Z.pow (Zpos (XO XH)) (Zpos (XI (XI (XI (XI XH))))))) v)
      (Z.ltb v (Z.pow (Zpos (XO XH)) (Zpos (XI (XI (XI (XI XH)))))))
  | KSInt64 ->
    (&&)
      (Z.leb
        (Z.opp (Z.pow (Zpos (XO XH)) (Zpos (XI (XI (XI (XI (XI XH)))))))) v)
      (Z.ltb v (Z.pow (Zpos (XO XH)) (Zpos (XI (XI (XI (XI (XI XH))))))))
  | KFixed32 ->
    (&&) (Z.leb Z0 v)
      (Z.ltb v (Z.pow (Zpos (XO XH)) (Zpos (XO (XO (XO (XO (XO XH))))))))
  | KSFixed32 ->
    (&&)
      (Z.leb (Z.opp (Z.pow (Zpos (XO XH)) (Zpos (XI (XI (XI (XI XH))))))) v)
      (Z.ltb v (Z.pow (Zpos (XO XH)) (Zpos (XI (XI (XI (XI XH)))))))
  | KSFixed64 ->
    (&&)
      (Z.leb
        (Z.opp (Z.pow (Zpos (XO XH)) (Zpos (XI (XI (XI (XI (XI XH)))))))) v)
      (Z.ltb v (Z.pow (Zpos (XO XH)) (Zpos (XI (XI (XI (XI (XI XH))))))))
  | KFloat ->
    (&&) (Z.leb Z0 v)
      (Z.ltb v (Z.pow (Zpos (XO XH)) (Zpos (XO (XO (XO (XO (XO XH))))))))
  | _ ->
    (&&) (Z.leb Z0 v)
      (Z.ltb v (Z.pow (Zpos (XO XH)) (Zpos (XO (XO (XO (XO (XO (XO XH)))))))))

(** val wt_of : skind -> n **)

let wt_of = function
| KFixed32 -> Npos (XI (XO XH))
| KFixed64 -> Npos XH
| KSFixed32 -> Npos (XI (XO XH))
| KSFixed64 -> Npos XH
| KFloat -> Npos (XI (XO XH))
| KDouble -> Npos XH
| _ -> N0

(** val width_of : skind -> nat **)

let width_of = function
| KFixed32 -> S (S (S (S O)))
| KFixed64 -> S (S (S (S (S (S (S (S O)))))))
| KSFixed32 -> S (S (S (S O)))
| KSFixed64 -> S (S (S (S (S (S (S (S O)))))))
| KFloat -> S (S (S (S O)))
| KDouble -> S (S (S (S (S (S (S (S O)))))))
| _ -> O

(** val is_varint_kind : skind -> bool **)

let is_varint_kind k =
  Nat.eqb (width_of k) O

(** val to_wire : skind -> z -> n **)

let to_wire k v =
  match k with
  | KBool -> if Z.eqb v Z0 then N0 else Npos XH
  | KSInt32 -> Z.to_N (enc_zz32 v)
  | KSInt64 -> Z.to_N (enc_zz64 v)
  | KFixed32 -> u32z v
  | KSFixed32 -> u32z v
  | KFloat -> u32z v
  | _ -> u64z v

(** val of_wire : skind -> n -> z option **)

let of_wire k n0 =
  match k with
  | KBool -> Some (if N.eqb n0 N0 then Z0 else Zpos XH)
  | KInt32 ->
    let i = i64n n0 in
    if (||)
         (Z.ltb (Zpos (XI (XI (XI (XI (XI (XI (XI (XI (XI (XI (XI (XI (XI (XI
           (XI (XI (XI (XI (XI (XI (XI (XI (XI (XI (XI (XI (XI (XI (XI (XI
           XH))))))))))))))))))))))))))))))) i)
         (Z.ltb i (Zneg (XO (XO (XO (XO (XO (XO (XO (XO (XO (XO (XO (XO (XO
           (XO (XO (XO (XO (XO (XO (XO (XO (XO (XO (XO (XO (XO (XO (XO (XO
           (XO (XO XH)))))))))))))))))))))))))))))))))
    then None
    else Some i
  | KInt64 -> Some (i64n n0)
  | KUInt32 ->
    if N.ltb (Npos (XI (XI (XI (XI (XI (XI (XI (XI (XI (XI (XI (XI (XI (XI
         (XI (XI (XI (XI (XI (XI (XI (XI (XI (XI (XI (XI (XI (XI (XI (XI (XI
         XH)))))))))))))))))))))))))))))))) n0
    then None
    else Some (Z.of_N n0)
  | KSInt32 -> Some (dec_zz32 (Z.of_N n0))
  | KSInt64 -> Some (dec_zz64 (Z.of_N n0))
  | KSFixed32 -> Some (i32n n0)
  | KSFixed64 -> Some (i64n n0)
  | _ -> Some (Z.of_N n0)

(** val le_bytes : nat -> n -> n list **)

let rec le_bytes w n0 =
  match w with
  | O -> []
  | S w' ->
    (N.modulo n0 (Npos (XO (XO (XO (XO (XO (XO (XO (XO XH)))))))))) :: 
      (le_bytes w'
        (N.div n0 (Npos (XO (XO (XO (XO (XO (XO (XO (XO XH)))))))))))

(** val le_val : n list -> n **)

let rec le_val = function
| [] -> N0
| b :: r ->
  N.add b (N.mul (Npos (XO (XO (XO (XO (XO (XO (XO (XO XH))))))))) (le_val r))

(** val size_of_zigzag : n -> nat **)

let size_of_zigzag n0 =
  size_of_varint (Z.to_N (enc_zz64 (i64n n0)))

(** val size_key : n -> nat **)

let size_key tag =
  size_of_varint
    (N.modulo (N.shiftl tag (Npos (XI XH)))
      (N.pow (Npos (XO XH)) (Npos (XO (XO (XO (XO (XO (XO XH)))))))))

type encoder = { ebuf : n list; eoff : nat }

(** val put : encoder -> n list -> encoder outcome **)

let put e bs =
  if Nat.leb (add e.eoff (length bs)) (length e.ebuf)
  then Ok { ebuf =
         (app (firstn e.eoff e.ebuf)
           (app bs (skipn (add e.eoff (length bs)) e.ebuf))); eoff =
         (add e.eoff (length bs)) }
  else Panic

(** val put_copy : encoder -> n list -> encoder outcome **)

let put_copy e bs =
  if Nat.ltb (length e.ebuf) e.eoff
  then Panic
  else let room = sub (length e.ebuf) e.eoff in
       Ok { ebuf =
       (app (firstn e.eoff e.ebuf)
         (app (firstn room bs) (skipn (add e.eoff (length bs)) e.ebuf)));
       eoff = (add e.eoff (length bs)) }

(** val enc_key : n -> n -> n list **)

let enc_key tag wt =
  enc_varint
    (N.coq_lor
      (N.modulo (N.shiftl tag (Npos (XI XH)))
        (N.pow (Npos (XO XH)) (Npos (XO (XO (XO (XO (XO (XO XH))))))))) wt)

(** val enc_payload : skind -> z -> n list **)

let enc_payload k v =
  if is_varint_kind k
  then enc_varint (to_wire k v)
  else le_bytes (width_of k) (to_wire k v)

(** val enc_scalar : encoder -> skind -> n -> z -> encoder outcome **)

let enc_scalar e k tag v =
  obind (put e (enc_key tag (wt_of k))) (fun e1 -> put e1 (enc_payload k v))

(** val enc_bytes : encoder -> n -> n list -> encoder outcome **)

let enc_bytes e tag b =
  obind (put e (enc_key tag (Npos (XO XH)))) (fun e1 ->
    obind (put e1 (enc_varint (N.of_nat (length b)))) (fun e2 ->
      put_copy e2 b))

(** val packed_elem_size : skind -> z -> nat **)

let packed_elem_size k v =
  match k with
  | KBool -> S O
  | KInt32 -> size_of_varint (u64z v)
  | KInt64 -> size_of_varint (u64z v)
  | KUInt32 -> size_of_varint (u64z v)
  | KUInt64 -> size_of_varint (u64z v)
  | KSInt32 -> size_of_zigzag (u64z v)
  | KSInt64 -> size_of_zigzag (u64z v)
  | _ -> width_of k

(** val packed_len : skind -> z list -> nat **)

let packed_len k vs =
  fold_left (fun acc v -> add acc (packed_elem_size k v)) vs O

(** val put_all : encoder -> n list list -> encoder outcome **)

let rec put_all e = function
| [] -> Ok e
| c :: r -> obind (put e c) (fun e1 -> put_all e1 r)

(** val enc_packed : encoder -> skind -> n -> z list -> encoder outcome **)

let enc_packed e k tag vs = match vs with
| [] -> Ok e
| _ :: _ ->
  obind (put e (enc_key tag (Npos (XO XH)))) (fun e1 ->
    obind (put e1 (enc_varint (N.of_nat (packed_len k vs)))) (fun e2 ->
      put_all e2 (map (enc_payload k) vs)))

(** val enc_raw : encoder -> n list -> encoder outcome **)

let enc_raw e b = match b with
| [] -> Ok e
| _ :: _ -> put_copy e b

(** val enc_map_header : encoder -> n -> n -> encoder outcome **)

let enc_map_header e tag size0 =
  obind (put e (enc_key tag (Npos (XO XH)))) (fun e1 ->
    put e1 (enc_varint size0))

type nflavour =
| NMarshalTo
| NMarshal
| NFallback

(** val enc_nested :
    encoder -> n -> nflavour -> nat -> n list option -> (encoder * bool)
    outcome **)

let enc_nested e tag fl msize mres =
  obind (put e (enc_key tag (Npos (XO XH)))) (fun e1 ->
    obind (put e1 (enc_varint (N.of_nat msize))) (fun e2 ->
      match mres with
      | Some b ->
        (match fl with
         | NMarshalTo ->
           obind (put e2 b) (fun e3 -> Ok ({ ebuf = e3.ebuf; eoff =
             (add e2.eoff msize) }, true))
         | _ ->
           obind (put_copy e2 b) (fun e3 -> Ok ({ ebuf = e3.ebuf; eoff =
             (add e2.eoff msize) }, true)))
      | None -> Ok (e2, false)))

type eop =
| EScalar of skind * n * z
| EBytes of n * n list
| EPacked of skind * n * z list
| ERaw of n list
| EMapHeader of n * n

(** val estep : encoder -> eop -> encoder outcome **)

let estep e = function
| EScalar (k, tag, v) -> enc_scalar e k tag v
| EBytes (tag, b) -> enc_bytes e tag b
| EPacked (k, tag, vs) -> enc_packed e k tag vs
| ERaw b -> enc_raw e b
| EMapHeader (tag, size0) -> enc_map_header e tag size0

(** val erun : encoder -> eop list -> encoder outcome **)

let rec erun e = function
| [] -> Ok e
| op :: r -> obind (estep e op) (fun e1 -> erun e1 r)

(** val ebytes : eop -> n list **)

let ebytes = function
| EScalar (k, tag, v) -> app (enc_key tag (wt_of k)) (enc_payload k v)
| EBytes (tag, b) ->
  app (enc_key tag (Npos (XO XH))) (app (enc_varint (N.of_nat (length b))) b)
| EPacked (k, tag, vs) ->
  (match vs with
   | [] -> []
   | _ :: _ ->
     app (enc_key tag (Npos (XO XH)))
       (app (enc_varint (N.of_nat (packed_len k vs)))
         (concat (map (enc_payload k) vs))))
| ERaw b -> b
| EMapHeader (tag, size0) ->
  app (enc_key tag (Npos (XO XH))) (enc_varint size0)

(** val scalar_size : skind -> z -> nat **)

let scalar_size k v =
  match k with
  | KBool -> S O
  | KInt32 -> size_of_varint (u64z v)
  | KInt64 -> size_of_varint (u64z v)
  | KUInt32 -> size_of_varint (u64z v)
  | KUInt64 -> size_of_varint (u64z v)
  | KSInt32 -> size_of_zigzag (u64z v)
  | KSInt64 -> size_of_zigzag (u64z v)
  | _ -> width_of k

(** val esize : eop -> nat **)

let esize = function
| EScalar (k, tag, v) -> add (size_key tag) (scalar_size k v)
| EBytes (tag, b) ->
  add (add (size_key tag) (size_of_varint (N.of_nat (length b)))) (length b)
| EPacked (k, tag, vs) ->
  (match vs with
   | [] -> O
   | _ :: _ ->
     add (add (size_key tag) (size_of_varint (N.of_nat (packed_len k vs))))
       (packed_len k vs))
| ERaw b -> length b
| EMapHeader (tag, size0) -> add (size_key tag) (size_of_varint size0)

type decoder = { dbuf : n list; doff : nat; dfast : bool }

(** val drest : decoder -> n list **)

let drest d =
  skipn d.doff d.dbuf

(** val dadv : decoder -> nat -> decoder **)

let dadv d n0 =
  { dbuf = d.dbuf; doff = (add d.doff n0); dfast = d.dfast }

(** val at_eof : decoder -> bool **)

let at_eof d =
  Nat.leb (length d.dbuf) d.doff

(** val max_tag : n **)

let max_tag =
  Npos (XI (XI (XI (XI (XI (XI (XI (XI (XI (XI (XI (XI (XI (XI (XI (XI (XI
    (XI (XI (XI (XI (XI (XI (XI (XI (XI (XI (XI XH))))))))))))))))))))))))))))

(** val max_len : n **)

let max_len =
  Npos (XI (XI (XI (XI (XI (XI (XI (XI (XI (XI (XI (XI (XI (XI (XI (XI (XI
    (XI (XI (XI (XI (XI (XI (XI (XI (XI (XI (XI (XI (XI
    XH))))))))))))))))))))))))))))))

type 'a dres =
| DOk of 'a * decoder
| DErr of decoder
| DPanic

(** val dec_tag : decoder -> (n * n) dres **)

let dec_tag d =
  if at_eof d
  then DErr d
  else (match dec_varint (drest d) with
        | Inl p ->
          let (v, n0) = p in
          if (||) (N.ltb v (Npos XH))
               (N.ltb max_tag (N.shiftr v (Npos (XI XH))))
          then DErr d
          else DOk (((N.shiftr v (Npos (XI XH))),
                 (N.coq_land v (Npos (XI (XI XH))))), (dadv d n0))
        | Inr _ -> DErr d)

(** val read_elem : skind -> n list -> (z * nat) option **)

let read_elem k p =
  if is_varint_kind k
  then (match dec_varint p with
        | Inl p0 ->
          let (v, n0) = p0 in
          (match of_wire k v with
           | Some z0 -> Some (z0, n0)
           | None -> None)
        | Inr _ -> None)
  else let w = width_of k in
       if Nat.ltb (length p) w
       then None
       else (match of_wire k (le_val (firstn w p)) with
             | Some z0 -> Some (z0, w)
             | None -> None)

(** val dec_scalar : decoder -> skind -> z dres **)

let dec_scalar d k =
  if at_eof d
  then DErr d
  else (match read_elem k (drest d) with
        | Some p -> let (z0, n0) = p in DOk (z0, (dadv d n0))
        | None -> DErr d)

(** val dec_bytes : decoder -> n list dres **)

let dec_bytes d =
  if at_eof d
  then DErr d
  else (match dec_varint (drest d) with
        | Inl p ->
          let (l, n0) = p in
          if N.ltb max_len l
          then DErr d
          else if N.ltb (N.of_nat (length d.dbuf))
                    (N.add (N.of_nat (add d.doff n0)) l)
               then DErr d
               else let nb = N.to_nat l in
                    DOk
                    ((slice d.dbuf (add d.doff n0) (add (add d.doff n0) nb)),
                    (dadv d (add n0 nb)))
        | Inr _ -> DErr d)

(** val packed_loop :
    nat -> skind -> n -> decoder -> n -> z list -> z list dres **)

let rec packed_loop fuel k l d nread acc =
  if N.ltb nread l
  then (match fuel with
        | O -> DErr d
        | S f ->
          if at_eof d
          then DErr d
          else (match read_elem k (drest d) with
                | Some p ->
                  let (z0, n0) = p in
                  packed_loop f k l (dadv d n0) (N.add nread (N.of_nat n0))
                    (z0 :: acc)
                | None -> DErr d))
  else if N.eqb nread l then DOk ((rev acc), d) else DErr d

(** val dec_packed : decoder -> skind -> z list dres **)

let dec_packed d k =
  if at_eof d
  then DErr d
  else (match dec_varint (drest d) with
        | Inl p ->
          let (l, n0) = p in
          let d1 = dadv d n0 in
          (match k with
           | KFloat ->
             if N.ltb (N.of_nat (sub (length d1.dbuf) d1.doff)) l
             then DErr d1
             else packed_loop (S (length d.dbuf)) k l d1 N0 []
           | _ -> packed_loop (S (length d.dbuf)) k l d1 N0 [])
        | Inr _ -> DErr d)

(** val dec_nested : (n list -> bool) -> decoder -> n list dres **)

let dec_nested nested d =
  if at_eof d
  then DErr d
  else (match dec_varint (drest d) with
        | Inl p ->
          let (l, n0) = p in
          if N.ltb max_len l
          then DErr d
          else if N.ltb (N.of_nat (length d.dbuf))
                    (N.add (N.of_nat (add d.doff n0)) l)
               then DErr d
               else let nb = N.to_nat l in
                    let b =
                      slice d.dbuf (add d.doff n0) (add (add d.doff n0) nb)
                    in
                    if nested b then DOk (b, (dadv d (add n0 nb))) else DErr d
        | Inr _ -> DErr d)

(** val dec_skip : decoder -> n -> n -> n list dres **)

let dec_skip d tag wt =
  if at_eof d
  then DErr d
  else let sz = size_key tag in
       let bof = sub d.doff sz in
       let key_ok =
         if d.dfast
         then true
         else (match dec_varint (skipn bof d.dbuf) with
               | Inl p ->
                 let (v, n0) = p in
                 (&&)
                   ((&&) (Nat.eqb n0 sz)
                     (N.eqb (N.shiftr v (Npos (XI XH))) tag))
                   (N.eqb (N.coq_land v (Npos (XI (XI XH)))) wt)
               | Inr _ -> false)
       in
       if negb key_ok
       then DErr d
       else let fin = fun skipped ->
              if Nat.ltb (length d.dbuf) (add d.doff skipped)
              then DErr d
              else DOk ((slice d.dbuf bof (add d.doff skipped)),
                     (dadv d skipped))
            in
            if N.eqb wt N0
            then (match dec_varint (drest d) with
                  | Inl p -> let (_, n0) = p in fin n0
                  | Inr _ -> DErr d)
            else if N.eqb wt (Npos XH)
                 then fin (S (S (S (S (S (S (S (S O))))))))
                 else if N.eqb wt (Npos (XI (XO XH)))
                      then fin (S (S (S (S O))))
                      else if N.eqb wt (Npos (XO XH))
                           then (match dec_varint (drest d) with
                                 | Inl p ->
                                   let (l, n0) = p in
                                   if N.ltb max_len l
                                   then DErr d
                                   else if N.ltb (N.of_nat (length d.dbuf))
                                             (N.add
                                               (N.of_nat (add d.doff n0)) l)
                                        then DErr d
                                        else fin (add n0 (N.to_nat l))
                                 | Inr _ -> DErr d)
                           else DErr d

(** val wrap64 : z -> z **)

let wrap64 z0 =
  i64n (u64z z0)

(** val dec_seek : decoder -> z -> z -> z dres **)

let dec_seek d o whence =
  let pos =
    if Z.eqb whence Z0
    then Some o
    else if Z.eqb whence (Zpos XH)
         then Some (wrap64 (Z.add o (Z.of_nat d.doff)))
         else if Z.eqb whence (Zpos (XO XH))
              then Some (wrap64 (Z.add o (Z.of_nat (length d.dbuf))))
              else None
  in
  (match pos with
   | Some p ->
     if (||) (Z.ltb p Z0) (Z.ltb (Z.of_nat (length d.dbuf)) p)
     then DErr d
     else DOk (p, { dbuf = d.dbuf; doff = (Z.to_nat p); dfast = d.dfast })
   | None -> DErr d)

type dop =
| DTag
| DScalar of skind
| DBytes
| DString
| DPacked of skind
| DNested
| DSkip of n * n
| DSeek of z * z
| DReset
| DSetMode of bool

type dval =
| VTag of n * n
| VNum of z
| VBytes of n list * bool
| VList of z list
| VRaw of n list
| VNested of n list
| VPos of z
| VUnit

(** val dmap : ('a1 -> 'a2) -> 'a1 dres -> 'a2 dres **)

let dmap f = function
| DOk (a, d) -> DOk ((f a), d)
| DErr d -> DErr d
| DPanic -> DPanic

(** val dstep : (n list -> bool) -> decoder -> dop -> dval dres **)

let dstep nested d = function
| DTag -> dmap (fun pat -> let (t, wt) = pat in VTag (t, wt)) (dec_tag d)
| DScalar k -> dmap (fun x -> VNum x) (dec_scalar d k)
| DBytes -> dmap (fun b -> VBytes (b, true)) (dec_bytes d)
| DString -> dmap (fun b -> VBytes (b, d.dfast)) (dec_bytes d)
| DPacked k -> dmap (fun x -> VList x) (dec_packed d k)
| DNested -> dmap (fun x -> VNested x) (dec_nested nested d)
| DSkip (tag, wt) -> dmap (fun x -> VRaw x) (dec_skip d tag wt)
| DSeek (o, wh) -> dmap (fun x -> VPos x) (dec_seek d o wh)
| DReset -> DOk (VUnit, { dbuf = d.dbuf; doff = O; dfast = d.dfast })
| DSetMode f -> DOk (VUnit, { dbuf = d.dbuf; doff = d.doff; dfast = f })

(** val drun :
    (n list -> bool) -> decoder -> dop list -> dval dres list * decoder option **)

let rec drun nested d = function
| [] -> ([], (Some d))
| op :: r ->
  let o = dstep nested d op in
  (match o with
   | DOk (_, d') -> let (os, fin) = drun nested d' r in ((o :: os), fin)
   | DErr d' -> let (os, fin) = drun nested d' r in ((o :: os), fin)
   | DPanic -> ((o :: []), None))
