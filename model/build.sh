#!/bin/sh
# Extract the executable Coq models (coq/Extract/Extract.v) and build the line-protocol runner.
set -e
cd "$(dirname "$0")"
rm -f model.ml model.mli
(cd ../coq && { [ -f Makefile ] || coq_makefile -f _CoqProject -o Makefile >/dev/null; } && timeout 3000 make -j16 -k >/dev/null 2>&1 || true)   # -k: files tied to the generated Src/SrcWire.v may fail without affecting Extract.v; coqc below decides
timeout 600 coqc -Q ../coq CsProto -w -notation-overridden,-deprecated-hint-without-locality,-deprecated-instance-without-locality,-extraction-opaque-accessed,-extraction-reserved-identifier ../coq/Extract/Extract.v 2>&1 | grep -v "^$" | grep -iv "warning\|extraction\|\[.*\]$" || true
test -f model.ml
ocamlfind ocamlopt -O2 -w -a -package str model.mli model.ml run.ml -o modelrun 2>/dev/null || ocamlfind ocamlopt -w -a model.mli model.ml run.ml -o modelrun
echo "model runner built: $(pwd)/modelrun"
