
val negb : bool -> bool

type nat =
| O
| S of nat

type ('a, 'b) sum =
| Inl of 'a
| Inr of 'b

val fst : ('a1 * 'a2) -> 'a1

val snd : ('a1 * 'a2) -> 'a2

val length : 'a1 list -> nat

val app : 'a1 list -> 'a1 list -> 'a1 list

type comparison =
| Eq
| Lt
| Gt

val compOpp : comparison -> comparison

val add : nat -> nat -> nat

val sub : nat -> nat -> nat

module Nat :
 sig
  val eqb : nat -> nat -> bool

  val leb : nat -> nat -> bool

  val ltb : nat -> nat -> bool
 end

val rev : 'a1 list -> 'a1 list

val concat : 'a1 list list -> 'a1 list

val map : ('a1 -> 'a2) -> 'a1 list -> 'a2 list

val fold_left : ('a1 -> 'a2 -> 'a1) -> 'a2 list -> 'a1 -> 'a1

val firstn : nat -> 'a1 list -> 'a1 list

val skipn : nat -> 'a1 list -> 'a1 list

type positive =
| XI of positive
| XO of positive
| XH

type n =
| N0
| Npos of positive

type z =
| Z0
| Zpos of positive
| Zneg of positive

module Pos :
 sig
  type mask =
  | IsNul
  | IsPos of positive
  | IsNeg
 end

module Coq_Pos :
 sig
  val succ : positive -> positive

  val add : positive -> positive -> positive

  val add_carry : positive -> positive -> positive

  val pred_double : positive -> positive

  val pred_N : positive -> n

  type mask = Pos.mask =
  | IsNul
  | IsPos of positive
  | IsNeg

  val succ_double_mask : mask -> mask

  val double_mask : mask -> mask

  val double_pred_mask : positive -> mask

  val sub_mask : positive -> positive -> mask

  val sub_mask_carry : positive -> positive -> mask

  val mul : positive -> positive -> positive

  val iter : ('a1 -> 'a1) -> 'a1 -> positive -> 'a1

  val pow : positive -> positive -> positive

  val div2 : positive -> positive

  val div2_up : positive -> positive

  val size : positive -> positive

  val compare_cont : comparison -> positive -> positive -> comparison

  val compare : positive -> positive -> comparison

  val eqb : positive -> positive -> bool

  val coq_Nsucc_double : n -> n

  val coq_Ndouble : n -> n

  val coq_lor : positive -> positive -> positive

  val coq_land : positive -> positive -> n

  val ldiff : positive -> positive -> n

  val coq_lxor : positive -> positive -> n

  val shiftl : positive -> n -> positive

  val iter_op : ('a1 -> 'a1 -> 'a1) -> positive -> 'a1 -> 'a1

  val to_nat : positive -> nat

  val of_succ_nat : nat -> positive
 end

module N :
 sig
  val succ_double : n -> n

  val double : n -> n

  val succ_pos : n -> positive

  val add : n -> n -> n

  val sub : n -> n -> n

  val mul : n -> n -> n

  val compare : n -> n -> comparison

  val eqb : n -> n -> bool

  val leb : n -> n -> bool

  val ltb : n -> n -> bool

  val div2 : n -> n

  val pow : n -> n -> n

  val size : n -> n

  val pos_div_eucl : positive -> n -> n * n

  val div_eucl : n -> n -> n * n

  val div : n -> n -> n

  val modulo : n -> n -> n

  val coq_lor : n -> n -> n

  val coq_land : n -> n -> n

  val ldiff : n -> n -> n

  val coq_lxor : n -> n -> n

  val shiftl : n -> n -> n

  val shiftr : n -> n -> n

  val to_nat : n -> nat

  val of_nat : nat -> n
 end

module Z :
 sig
  val double : z -> z

  val succ_double : z -> z

  val pred_double : z -> z

  val pos_sub : positive -> positive -> z

  val add : z -> z -> z

  val opp : z -> z

  val sub : z -> z -> z

  val mul : z -> z -> z

  val pow_pos : z -> positive -> z

  val pow : z -> z -> z

  val compare : z -> z -> comparison

  val leb : z -> z -> bool

  val ltb : z -> z -> bool

  val eqb : z -> z -> bool

  val to_nat : z -> nat

  val to_N : z -> n

  val of_nat : nat -> z

  val of_N : n -> z

  val pos_div_eucl : positive -> z -> z * z

  val div_eucl : z -> z -> z * z

  val modulo : z -> z -> z

  val div2 : z -> z

  val shiftl : z -> z -> z

  val shiftr : z -> z -> z

  val coq_land : z -> z -> z

  val coq_lxor : z -> z -> z
 end

type 'a outcome =
| Ok of 'a
| Err
| Panic

val obind : 'a1 outcome -> ('a1 -> 'a2 outcome) -> 'a2 outcome

val slice : 'a1 list -> nat -> nat -> 'a1 list

val enc_varint_fuel : nat -> n -> n list

val enc_varint : n -> n list

val size_of_varint : n -> nat

type derr =
| EInvalidVarint
| EUnexpectedEOF
| EOverflow

val dv_small : nat -> n list -> n -> n -> nat -> (n * nat, derr) sum

val dec_varint : n list -> (n * nat, derr) sum

val two : z -> z

val half : z -> z

val uw : z -> z -> z

val iw : z -> z -> z

val enc_zz : z -> z -> z

val dec_zz : z -> z -> z

val enc_zz64 : z -> z

val dec_zz64 : z -> z

val enc_zz32 : z -> z

val dec_zz32 : z -> z

val u64z : z -> n

val u32z : z -> n

val i64n : n -> z

val i32n : n -> z

type skind =
| KBool
| KInt32
| KInt64
| KUInt32
| KUInt64
| KSInt32
| KSInt64
| KFixed32
| KFixed64
| KSFixed32
| KSFixed64
| KFloat
| KDouble

val in_dom : skind -> z -> bool

val wt_of : skind -> n

val width_of : skind -> nat

val is_varint_kind : skind -> bool

val to_wire : skind -> z -> n

val of_wire : skind -> n -> z option

val le_bytes : nat -> n -> n list

val le_val : n list -> n

val size_of_zigzag : n -> nat

val size_key : n -> nat

type encoder = { ebuf : n list; eoff : nat }

val put : encoder -> n list -> encoder outcome

val put_copy : encoder -> n list -> encoder outcome

val enc_key : n -> n -> n list

val enc_payload : skind -> z -> n list

val enc_scalar : encoder -> skind -> n -> z -> encoder outcome

val enc_bytes : encoder -> n -> n list -> encoder outcome

val packed_elem_size : skind -> z -> nat

val packed_len : skind -> z list -> nat

val put_all : encoder -> n list list -> encoder outcome

val enc_packed : encoder -> skind -> n -> z list -> encoder outcome

val enc_raw : encoder -> n list -> encoder outcome

val enc_map_header : encoder -> n -> n -> encoder outcome

type nflavour =
| NMarshalTo
| NMarshal
| NFallback

val enc_nested :
  encoder -> n -> nflavour -> nat -> n list option -> (encoder * bool) outcome

type eop =
| EScalar of skind * n * z
| EBytes of n * n list
| EPacked of skind * n * z list
| ERaw of n list
| EMapHeader of n * n

val estep : encoder -> eop -> encoder outcome

val erun : encoder -> eop list -> encoder outcome

val ebytes : eop -> n list

val scalar_size : skind -> z -> nat

val esize : eop -> nat

type decoder = { dbuf : n list; doff : nat; dfast : bool }

val drest : decoder -> n list

val dadv : decoder -> nat -> decoder

val at_eof : decoder -> bool

val max_tag : n

val max_len : n

type 'a dres =
| DOk of 'a * decoder
| DErr of decoder
| DPanic

val dec_tag : decoder -> (n * n) dres

val read_elem : skind -> n list -> (z * nat) option

val dec_scalar : decoder -> skind -> z dres

val dec_bytes : decoder -> n list dres

val packed_loop : nat -> skind -> n -> decoder -> n -> z list -> z list dres

val dec_packed : decoder -> skind -> z list dres

val dec_nested : (n list -> bool) -> decoder -> n list dres

val dec_skip : decoder -> n -> n -> n list dres

val wrap64 : z -> z

val dec_seek : decoder -> z -> z -> z dres

type dop =
| DTag
| DScalar of skind
| DBytes
| DString
| DPacked of skind
| DNested
| DSkip of n * n
| DSeek of z * z
| DReset
| DSetMode of bool

type dval =
| VTag of n * n
| VNum of z
| VBytes of n list * bool
| VList of z list
| VRaw of n list
| VNested of n list
| VPos of z
| VUnit

val dmap : ('a1 -> 'a2) -> 'a1 dres -> 'a2 dres

val dstep : (n list -> bool) -> decoder -> dop -> dval dres

val drun :
  (n list -> bool) -> decoder -> dop list -> dval dres list * decoder option
