"""Shared machinery of ./check: proof step (Coq), implementation build (Go), correspondence
(extracted model vs implementation), oracle verdicts, known findings, replay and evidence files."""
import hashlib, json, os, re, subprocess, sys, time, shutil

VERIF = os.path.dirname(os.path.dirname(os.path.abspath(__file__)))
REPO = os.environ.get("VERIF_REPO", "/repo")
COQ = os.path.join(VERIF, "coq")
WORK = os.path.join(VERIF, ".work")
BIN = os.path.join(VERIF, "bin")
COQ_WARN = "-notation-overridden,-deprecated-hint-without-locality,-deprecated-instance-without-locality"
NCPU = os.cpu_count() or 4

GOENV = dict(os.environ, GOFLAGS="-mod=mod", GOPROXY="off", GOSUMDB="off", GOTOOLCHAIN="local",
             CGO_ENABLED=os.environ.get("CGO_ENABLED", "1"))


def sh(cmd, cwd=None, timeout=1800, env=None, stdin=None):
    """run a command, return (rc, stdout+stderr)"""
    try:
        p = subprocess.run(cmd, cwd=cwd, env=env, stdout=subprocess.PIPE, stderr=subprocess.STDOUT,
                           timeout=timeout, shell=isinstance(cmd, str), input=stdin)
        return p.returncode, p.stdout.decode("utf-8", "replace")
    except subprocess.TimeoutExpired as e:
        return 124, (e.stdout or b"").decode("utf-8", "replace") + "\nTIMEOUT after %ss" % timeout


class Result:
    def __init__(self, prop, tier, seed):
        self.prop, self.tier, self.seed = prop, tier, seed
        self.t0 = time.time()
        self.proof = {}
        self.failures = []          # oracle failures on the implementation (dicts)
        self.mismatches = []        # model/implementation disagreements
        self.broken = []            # proof obligations / builds that no longer check
        self.coverage = {}
        self.assumptions = []
        self.notes = []


# ------------------------------------------------------------------------------------------------
# proofs

FORBIDDEN = re.compile(r"\b(Admitted|admit|Axiom|Parameter|Conjecture|Unset Guard Checking|bypass_check|"
                       r"Admit Obligations|type-in-type|impredicative-set)\b")


def strip_comments(src):
    out, depth, i = [], 0, 0
    while i < len(src):
        if src.startswith("(*", i):
            depth += 1; i += 2
        elif src.startswith("*)", i) and depth:
            depth -= 1; i += 2
        else:
            if not depth:
                out.append(src[i])
            i += 1
    return "".join(out)


def coq_sources():
    res = []
    for root, _, files in os.walk(COQ):
        for f in files:
            if f.endswith(".v"):
                res.append(os.path.join(root, f))
    return sorted(res)


def project_files():
    fs = []
    for line in open(os.path.join(COQ, "_CoqProject")):
        line = line.strip()
        if line.endswith(".v"):
            fs.append(line)
    return fs



# ------------------------------------------------------------------------------------------------
# source translation: coq/Src/SrcWire.v is generated from /repo's Go source by harness/cmd/go2coq

SRC_FUNCS = ["SizeOfVarint", "SizeOfTagKey", "SizeOfZigZag", "EncodeVarint", "EncodeTag", "EncodeZigZag32", "EncodeZigZag64",
             "DecodeVarint", "DecodeZigZag32", "DecodeZigZag64", "DecodeFixed32", "DecodeFixed64",
             "Decoder.Mode", "Decoder.SetMode", "Decoder.Seek", "Decoder.Reset", "Decoder.More", "Decoder.Offset", "Decoder.DecodeTag",
             "Decoder.DecodeBool", "Decoder.decodeBytes", "Decoder.DecodeUInt32", "Decoder.DecodeUInt64", "Decoder.DecodeInt32",
             "Decoder.DecodeInt64", "Decoder.DecodeSInt32", "Decoder.DecodeSInt64", "Decoder.DecodeFixed32", "Decoder.DecodeFixed64", "Decoder.Skip",
             "Decoder.DecodeFloat32", "Decoder.DecodeFloat64",
             "Encoder.EncodeBool", "Encoder.EncodeUInt32", "Encoder.EncodeUInt64", "Encoder.EncodeInt32", "Encoder.EncodeInt64",
             "Encoder.EncodeSInt32", "Encoder.EncodeSInt64", "Encoder.EncodeMapEntryHeader"]
# files whose checking depends on the generated file: a failure confined to these only concerns the properties stated there
SRC_TIED = ("Src/SrcWire.v", "Src/SrcLink.v", "Src/SrcEncProofs.v", "Src/SrcDecProofs.v", "Src/SrcCompose.v", "Src/SrcDecoderLink.v", "Src/SrcDecMethods.v",
            "Src/SrcDecSkip.v", "Src/SrcDecFloat.v", "Src/SrcSafe.v", "Src/SrcEncoderLink.v", "Src/SrcEncMethods.v", "Src/SrcEncCompose.v", "Props/C01src.v", "Props/C02src.v", "Props/C03src.v")


def _src_hash():
    h = hashlib.sha256()
    files = sorted(f for f in os.listdir(REPO) if f.endswith(".go") and not f.endswith("_test.go"))
    g2c = os.path.join(VERIF, "harness", "cmd", "go2coq")
    for p in [os.path.join(REPO, f) for f in files] + [os.path.join(g2c, f) for f in sorted(os.listdir(g2c))]:
        h.update(p.encode()); h.update(open(p, "rb").read())
    h.update(" ".join(SRC_FUNCS).encode())
    return h.hexdigest()


def regen_src():
    """Regenerate coq/Src/SrcWire.v from REPO's working tree. Returns {"ok", "regenerated", "changed", "detail"}.
    The Go package is only re-translated when its sources (or the translator) changed since the last translation."""
    target = os.path.join(COQ, "Src", "SrcWire.v")
    stamp = os.path.join(WORK, "srcwire.stamp")
    os.makedirs(WORK, exist_ok=True)
    cur = hashlib.sha256(open(target, "rb").read()).hexdigest() if os.path.exists(target) else ""
    want = _src_hash() + ":" + cur
    if os.path.exists(stamp) and open(stamp).read() == want:
        return {"ok": True, "regenerated": False, "changed": False, "detail": ""}
    os.makedirs(BIN, exist_ok=True)
    tool = os.path.join(BIN, "go2coq")
    rc, out = sh(["go", "build", "-o", tool, "./cmd/go2coq"], cwd=os.path.join(VERIF, "harness"), env=GOENV, timeout=600)
    if rc != 0:
        return {"ok": False, "regenerated": False, "changed": False, "detail": "go2coq does not build: " + out[-1500:]}
    tmp = os.path.join(WORK, "SrcWire.v.new")
    rc, out = sh([tool, REPO, tmp] + SRC_FUNCS, cwd=REPO, env=GOENV, timeout=600)
    if rc != 0:
        return {"ok": False, "regenerated": False, "changed": False,
                "detail": "the translator cannot translate the current source (outside its Go subset, or it does not type-check): " + out[-1500:]}
    new = open(tmp, "rb").read()
    changed = not os.path.exists(target) or open(target, "rb").read() != new
    if changed:
        with open(target, "wb") as f:
            f.write(new)
    with open(stamp, "w") as f:
        f.write(_src_hash() + ":" + hashlib.sha256(new).hexdigest())
    return {"ok": True, "regenerated": True, "changed": changed, "detail": ""}


def src_counterexamples(res):
    """The source-level theorems no longer check: evaluate the regenerated translation against the model on boundary inputs
    inside Coq (Src/SrcSweep.v, vm_compute) and record every input on which they differ - a concrete failing input of the
    translated source, to go with whatever the differential harness finds on the compiled code."""
    if not os.path.exists(os.path.join(COQ, "Src", "SrcWire.v")):
        return
    rc, out = sh("timeout 300 coqc -Q . CsProto Src/SrcWire.v && timeout 600 coqc -Q . CsProto Src/SrcSweep.v", cwd=COQ, timeout=1000)
    if rc != 0:
        res.notes.append("Coq-side sweep of the translated source could not run: " + out[-600:])
        return
    flat = re.sub(r"\s+", " ", out)
    for name, val in re.findall(r"(sweep_\w+) = (\[.*?\]) : list", flat):
        if val.strip() != "[]":
            res.failures.append({"property": res.prop, "kind": "oracle", "class": "src-" + name,
                                 "what": "the Gallina translation of the current Go source (coq/Src/SrcWire.v) differs from the wire model on these inputs "
                                         "(evaluated in Coq by vm_compute; the model is the one the property theorems are proved about)",
                                 "case": name + " differing inputs: " + val[:1500], "expected": "no differing input", "got": val[:1500]})


def proof_step(res, props_file, thorough=False):
    """Full .vo build of the development, then re-run coqc on the property file to capture
    Print Assumptions.  Records obligations/discharged; any failure goes to res.broken."""
    pf = res.proof
    pf["props_file"] = "coq/" + props_file
    src_tied = props_file in SRC_TIED
    # 0. the generated part of the development follows /repo's working tree
    rg = regen_src()
    pf["source_translation"] = {"file": "coq/Src/SrcWire.v", "functions": SRC_FUNCS, "retranslated_this_run": rg["regenerated"],
                                "differs_from_previous": rg["changed"], "ok": rg["ok"]}
    if not rg["ok"] and src_tied:
        res.broken.append({"what": "translation of /repo's Go source to Gallina (harness/cmd/go2coq -> coq/Src/SrcWire.v) failed: "
                                   "the theorems of %s are no longer tied to the source" % props_file, "detail": rg["detail"]})
        pf["obligations"], pf["discharged"] = 1, 0
        return False
    # 1. forbidden constructs anywhere in the development that is built
    bad = []
    for rel in project_files():
        src = strip_comments(open(os.path.join(COQ, rel)).read())
        for m in FORBIDDEN.finditer(src):
            bad.append("%s: %s" % (rel, m.group(0)))
    if bad:
        res.broken.append({"what": "forbidden construct in the Coq development", "detail": bad[:10]})
    # 2. build
    if not os.path.exists(os.path.join(COQ, "Makefile")):
        sh("coq_makefile -f _CoqProject -o Makefile", cwd=COQ)
    t = time.time()
    rc, out = sh("timeout 3000 make -j%d -k" % NCPU, cwd=COQ, timeout=3100)
    pf["make_s"] = round(time.time() - t, 1)
    if rc != 0 and not src_tied:
        # files that only state / prove facts about the generated translation of the Go source do not concern this property
        failed = set(re.findall(r"\*\*\* \[(?:[^\]]*:\s*)?([^\]\s:]+)\.vo\]", out))
        if failed and all(f + ".v" in SRC_TIED for f in failed):
            pf["ignored_failures_in_source_tied_files"] = sorted(failed)
            rc = 0
    if rc != 0:
        tail = "\n".join(out.strip().splitlines()[-25:])
        res.broken.append({"what": "Coq development does not build (make)", "detail": tail})
        pf["obligations"], pf["discharged"] = 1, 0
        return False
    # 3. the property file itself: statements + Print Assumptions
    src = strip_comments(open(os.path.join(COQ, props_file)).read())
    names = re.findall(r"^\s*(?:Theorem|Corollary|Lemma)\s+([A-Za-z0-9_']+)", src, re.M)
    examples = re.findall(r"^\s*Example\s+([A-Za-z0-9_']+)", src, re.M)
    t = time.time()
    rc, out = sh("timeout 900 coqc -Q . CsProto -w %s %s" % (COQ_WARN, props_file), cwd=COQ, timeout=1000)
    pf["props_coqc_s"] = round(time.time() - t, 1)
    if rc != 0:
        res.broken.append({"what": "property file %s does not check" % props_file,
                           "detail": "\n".join(out.strip().splitlines()[-25:])})
        pf["obligations"], pf["discharged"] = len(names) + len(examples), 0
        return False
    closed = out.count("Closed under the global context")
    axioms = []
    for blk in re.findall(r"Axioms:\n((?:.+\n?)+?)(?:\n|$)", out):
        axioms += [l.strip() for l in blk.splitlines() if l.strip()]
    n_pa = len(re.findall(r"Print Assumptions", src))
    pf["theorems"] = names
    pf["examples"] = examples
    pf["print_assumptions"] = n_pa
    pf["closed_under_global_context"] = closed
    pf["axioms"] = sorted(set(axioms))
    pf["obligations"] = len(names) + len(examples)
    pf["discharged"] = len(names) + len(examples)
    if n_pa < len(names):
        res.broken.append({"what": "a theorem of %s has no Print Assumptions" % props_file, "detail": ""})
    if closed != n_pa:
        res.broken.append({"what": "a property theorem depends on axioms", "detail": pf["axioms"]})
    if thorough:
        vo = props_file[:-2].replace("/", ".")
        t = time.time()
        rc, out = sh("timeout 3000 coqchk -silent -o -Q . CsProto CsProto.%s" % vo, cwd=COQ, timeout=3100)
        pf["coqchk_s"] = round(time.time() - t, 1)
        pf["coqchk_rc"] = rc
        pf["coqchk_tail"] = out.strip().splitlines()[-12:]
        if rc != 0:
            res.broken.append({"what": "coqchk rejects %s" % vo, "detail": pf["coqchk_tail"]})
    return not res.broken


# ------------------------------------------------------------------------------------------------
# implementation build

def go_build(res, pkg, out, tags="verif", cwd=None, timeout=1200, race=False):
    cwd = cwd or os.path.join(VERIF, "harness")
    os.makedirs(BIN, exist_ok=True)
    sums = set()
    for p in (os.path.join(REPO, "go.sum"), os.path.join(REPO, "example", "go.sum"), os.path.join(VERIF, "harness", "go.sum.extra")):
        if os.path.exists(p):
            sums.update(l for l in open(p).read().splitlines() if l.strip())
    with open(os.path.join(cwd, "go.sum"), "w") as f:
        f.write("\n".join(sorted(sums)) + "\n")
    rc, outp = sh(["go", "build"] + (["-race"] if race else []) + ["-tags", tags, "-o", os.path.join(BIN, out), pkg], cwd=cwd, env=GOENV, timeout=timeout)
    if rc != 0:
        res.broken.append({"what": "harness/%s does not build against /repo's working tree" % pkg,
                           "detail": "\n".join(outp.strip().splitlines()[-25:])})
        return False
    return True


def ensure_model(res):
    mr = os.path.join(VERIF, "model", "modelrun")
    src_t = max(os.path.getmtime(p) for p in coq_sources() + [os.path.join(VERIF, "model", "run.ml")])
    if not os.path.exists(mr) or os.path.getmtime(mr) < src_t:
        rc, out = sh("./build.sh", cwd=os.path.join(VERIF, "model"), timeout=1500)
        if rc != 0:
            res.broken.append({"what": "extraction / model runner build failed", "detail": out[-2000:]})
            return False
    return True


# ------------------------------------------------------------------------------------------------
# correspondence

def run_model(cases_path, out_path, shards=None):
    """evaluate every case line with the extracted model, sharded over the cores"""
    lines = open(cases_path).read().split("\n")
    if lines and lines[-1] == "":
        lines.pop()
    n = len(lines)
    shards = shards or (NCPU if n > 4000 else 1)
    mr = os.path.join(VERIF, "model", "modelrun")
    procs = []
    base = cases_path + ".shard"
    # round-robin sharding: the harnesses emit their cases grouped by schema / variant, contiguous blocks would be
    # very unequal in cost
    for i in range(shards):
        part = lines[i::shards]
        if not part:
            continue
        inp, outp = "%s%d.in" % (base, i), "%s%d.out" % (base, i)
        with open(inp, "w") as f:
            f.write("\n".join(part) + "\n")
        procs.append((subprocess.Popen(["bash", "-c", "ulimit -v 8000000; ulimit -s unlimited; exec timeout 5400 %s %s %s" % (mr, inp, outp)]), inp, outp, len(part), i))
    results = [None] * n
    ok = True
    for p, inp, outp, cnt, i in procs:
        rc = p.wait()
        got = open(outp).read().split("\n") if os.path.exists(outp) else []
        if got and got[-1] == "":
            got.pop()
        if rc != 0 or len(got) != cnt:
            ok = False
            got = got[:cnt] + ["MODEL-RUNNER-DIED"] * (cnt - len(got))
        results[i::shards] = got
        for f in (inp, outp):
            if os.path.exists(f):
                os.remove(f)
    with open(out_path, "w") as f:
        f.write("\n".join(results) + "\n")
    return lines, results, ok


def correspondence(res, workdir, label="wire"):
    cases_path = os.path.join(workdir, "cases.txt")
    lines, model, ok = run_model(cases_path, os.path.join(workdir, "model.txt"))
    impl = open(os.path.join(workdir, "impl.txt")).read().split("\n")
    if impl and impl[-1] == "":
        impl.pop()
    if len(impl) != len(lines):
        res.broken.append({"what": "harness wrote %d cases but %d results" % (len(lines), len(impl)), "detail": ""})
        return
    mism = []
    for i, (c, a, b) in enumerate(zip(lines, impl, model)):
        if a != b:
            mism.append({"case": c, "implementation": a, "model": b, "index": i})
            if len(mism) >= 50:
                break
    total_mism = sum(1 for a, b in zip(impl, model) if a != b)
    res.coverage.setdefault("correspondence", {})[label] = {"cases": len(lines), "mismatches": total_mism}
    res.mismatches += mism
    return total_mism


# ------------------------------------------------------------------------------------------------
# known findings, verdict, evidence

def load_known():
    p = os.path.join(VERIF, "known_findings.json")
    if not os.path.exists(p):
        return []
    return json.load(open(p)).get("findings", [])


def match_known(prop, failure, known):
    for k in known:
        if k.get("status") != "known" or (k.get("property") != prop and prop not in k.get("properties", [])):
            continue
        if k.get("class") and k["class"] != failure.get("class"):
            continue
        if k.get("class_re") and not re.search(k["class_re"], failure.get("class", "")):
            continue
        pat = k.get("match")
        if pat and not re.search(pat, failure.get("case", "") + " " + failure.get("what", "")):
            continue
        return k
    return None


def write_replay(res, kind, payload):
    os.makedirs(os.path.join(VERIF, "replays"), exist_ok=True)
    h = hashlib.sha256(json.dumps(payload, sort_keys=True).encode()).hexdigest()[:12]
    path = os.path.join(VERIF, "replays", "%s-%s.json" % (res.prop, h))
    doc = {"property": res.prop, "kind": kind, "tier": res.tier, "seed": res.seed,
           "replay_cmd": "VERIF_SEED=%d ./check %s --tier %s --replay %s" % (res.seed, res.prop, res.tier, path)}
    doc.update(payload)
    with open(path, "w") as f:
        json.dump(doc, f, indent=1)
    return path


def finish(res, level="proof", rule="", samples=None, trusted_base=None, checker_cmd=None, extra=None):
    """print KNOWN-FINDING / VIOLATION lines, write evidence, return the exit code"""
    known = load_known()
    violations = 0
    new_failures, known_hits = [], {}
    for f in res.failures:
        k = match_known(res.prop, f, known)
        if k:
            known_hits.setdefault(k["id"], [k, 0])[1] += 1
        else:
            new_failures.append(f)
    for kid, (k, n) in sorted(known_hits.items()):
        print("KNOWN-FINDING: property=%s %s (%s; %d occurrence(s) this run)" % (res.prop, k["what"], kid, n))
    # group new oracle failures by class: one VIOLATION line per class
    by_class = {}
    for f in new_failures:
        by_class.setdefault(f.get("class", "?"), []).append(f)
    for cls, fs in sorted(by_class.items()):
        path = write_replay(res, "oracle", {"class": cls, "what": fs[0].get("what"), "failing_input": fs[0].get("case"),
                                            "expected": fs[0].get("expected"), "got": fs[0].get("got"),
                                            "more": [x.get("case") for x in fs[1:6]], "count": len(fs)})
        print("VIOLATION property=%s replay=%s" % (res.prop, path))
        violations += 1
    if not by_class:
        # the property is no longer shown: a proof obligation or the correspondence broke, and the
        # oracle found no failing input
        if res.broken:
            path = write_replay(res, "proof-or-build", {"no_longer_checks": res.broken[:5]})
            print("VIOLATION property=%s replay=%s no-failing-input-found" % (res.prop, path))
            violations += 1
        elif res.mismatches:
            unexplained = res.mismatches
            path = write_replay(res, "correspondence", {
                "no_longer_checks": "correspondence between the Coq model and the implementation",
                "first_differing_cases": unexplained[:5], "count": len(unexplained)})
            print("VIOLATION property=%s replay=%s no-failing-input-found" % (res.prop, path))
            violations += 1
    elif res.broken or res.mismatches:
        res.notes.append("proof/correspondence also broken: %d broken, %d mismatches" % (len(res.broken), len(res.mismatches)))
    cov = dict(res.coverage)
    pf = res.proof
    cov["obligations"] = max(1, pf.get("obligations", 1))
    cov["discharged"] = pf.get("discharged", 0) if not res.broken else 0
    if cov["discharged"] < 1 and not res.broken:
        cov["discharged"] = cov["obligations"]
    cov["checker_cmd"] = checker_cmd or ("make -C coq -j%d (coq_makefile, full .vo build) && coqc -Q . CsProto %s" % (NCPU, pf.get("props_file", "")))
    cov["trusted_base"] = trusted_base or []
    cov["proof"] = pf
    cov["rule"] = rule
    cov["samples"] = samples or []
    cov["known_findings_hit"] = sorted(known_hits.keys())
    if extra:
        cov.update(extra)
    ev = {"property_id": res.prop, "tier": res.tier, "seed": res.seed, "level": level, "coverage": cov,
          "assumptions": res.assumptions, "wall_s": round(time.time() - res.t0, 1), "violations": violations,
          "notes": res.notes}
    os.makedirs(os.path.join(VERIF, "evidence"), exist_ok=True)
    with open(os.path.join(VERIF, "evidence", res.prop + ".json"), "w") as f:
        json.dump(ev, f, indent=1)
    if violations == 0:
        print("OK property=%s tier=%s obligations=%d evaluations=%s wall=%.0fs" % (
            res.prop, res.tier, cov["obligations"], cov.get("evaluations", "-"), time.time() - res.t0))
    return 1 if violations else 0


def load_summary(res, workdir):
    s = json.load(open(os.path.join(workdir, "summary.json")))
    res.failures += s.get("failures", [])
    cov = res.coverage
    cov["evaluations"] = cov.get("evaluations", 0) + s["evaluations"]
    cov["distinct_nontrivial"] = cov.get("distinct_nontrivial", 0) + s["distinct_nontrivial"]
    cov["oracle_evaluations"] = cov.get("oracle_evaluations", 0) + s.get("oracle_evaluations", 0)
    h = cov.setdefault("histogram", {})
    for k, v in s.get("histogram", {}).items():
        h[k] = h.get(k, 0) + v
    return s
