#!/bin/sh
# rebuild the fastmarshal plug-in from /repo and the gen harness
set -e
export GOFLAGS=-mod=mod GOPROXY=off GOSUMDB=off GOTOOLCHAIN=local
(cd /repo && go build -o /verif/bin/protoc-gen-fastmarshal ./cmd/protoc-gen-fastmarshal)
(cd /verif/harness && go build -tags verif -o ../bin/gen ./cmd/gen)
