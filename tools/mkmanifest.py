#!/usr/bin/env python3
"""Regenerates /verif/MANIFEST.json from the table below (kept in one place so that the file stays valid)."""
import json, os
V = os.path.dirname(os.path.dirname(os.path.abspath(__file__)))

PROOF_NOTE = ("Trusted: Coq 8.16.1 kernel (coqchk in the thorough tier), no axioms (Print Assumptions closed, re-checked every run), "
              "extraction with ExtrOcamlBasic only + the OCaml line driver, the Go harness and its generators. The Go code is "
              "modelled, not verified: the tie is the correspondence run on every check (extracted model vs /repo's working tree).")

CHECKS = {
 "C01": dict(text="Machine-checked theorems (Coq) over a faithful model of the Encoder/Decoder/size helpers: for every scalar kind, every value of the kind's domain, every field number 1..2^29-1, every packed list, both decoder modes, any surrounding bytes: the encoder fills exactly the predicted room, one byte less panics, and DecodeTag+DecodeX return the value and consume exactly the bytes written. The model is tied to the code by running both on ~85k generated cases per run (all bit-length classes, boundary values, NaN payloads, all field-number classes) and the property oracle runs on the real code.",
             technique="Coq proof (induction on varint groups, bit-level lemmas) + extracted-model vs implementation differential + round-trip oracle", design="4 C01",
             note=PROOF_NOTE + " Assumes 64-bit int. protowire is a second reference for sizes."),
 "C02": dict(text="Theorems: the model encoder's bytes equal an independently transcribed reference encoding (RefWire.v: varint by division, key=8n+wt, zig-zag by cases, two's complement, little endian) for every kind/value/field number; the decoder returns the reference value on every reference encoding incl. 10-byte negatives; iterating DecodeTag;Skip over any concatenation of well-formed fields returns each field's complete raw encoding and ends at the end of input (both modes). Correspondence: model vs code, and code vs protowire in both directions.",
             technique="Coq proof against an independent reference spec + differential vs protowire", design="4 C02", note=PROOF_NOTE + " protowire (google.golang.org/protobuf) is the independent reference implementation."),
 "C03": dict(text="Theorems over the full decoder state machine with Go's slice expressions modelled as partial operations: from any in-range cursor, on any byte string, for any sequence of calls (every Decode*/DecodePacked*/DecodeNested/Skip/Seek/Reset/SetMode) no call panics, the cursor stays in [0,len], a success advances by exactly the item's encoded length as an independent reference reader measures it, a declared length beyond the input is an error without consulting the nested unmarshaler, and packed readers return at most one element per consumed byte / reserve at most the bytes present. Correspondence is exhaustive over all byte strings up to length 3 (4 thorough) over a 13-symbol alphabet x all methods x all offsets x both modes, plus shape-exhaustive varints, mutation/truncation/inflation streams and random call sequences.",
             technique="Coq proof (invariant over operation sequences) + exhaustive small-scope differential + recover()/MemStats oracle", design="4 C03", note=PROOF_NOTE + " The Go allocator is outside the model (element counts are modelled; TotalAlloc is measured by the oracle)."),
 "C19": dict(text="Theorems: EncodeNested on each of its marshal paths writes key ++ varint|b| ++ b into exactly the predicted room and advances by that amount, a nested marshal error is returned; DecodeNested hands exactly the declared bytes to the nested unmarshaler, advances only on success, and rejects an overlong declared length without invoking it; round trip through both. The nested message's own Marshal/Unmarshal is a parameter. Correspondence + oracle over hand-written MarshalTo / Marshal(+Size) / Marshal-only probes, gogo, legacy-v1 and protobuf-go (well-known types) messages, failing marshalers/unmarshalers, all positions.",
             technique="Coq proof + extracted-model differential + byte-level oracle vs csproto.Marshal", design="4 C19", note=PROOF_NOTE + " The three runtimes' Marshal are oracles (section parameters of the model)."),
 "C20": dict(text="Theorems: ParseAnnotatedHex's model returns exactly the bytes denoted by the hex digits outside comments for every token layout (white space anywhere, comments, line breaks, digit case) and is characterised exactly by an independent one-pass reading (accepts iff every significant character is a hex digit, an even number per line); protodump's model prints, for every well-formed field tree laid out as -expand/-strings request, one record per field in wire order with the reference's number, wire type and value, recursing into exactly the requested paths, and never panics on any input. Correspondence: model vs the real function and the real binary (via -file, redirect and pipe), stdout parsed back into records.",
             technique="Coq proof + extracted-model differential against the function and the built binary", design="4 C20", note=PROOF_NOTE + " The harness's stdout parser and protowire are trusted for the record comparison."),

 "C13": dict(text="Theorems over an executable model of lazyproto (definition validation and tag tables, the single decoding pass on the wire-decoder model, all 26 typed accessors, FieldData paths, NestedResult(s), Range, both entry points): for every well-formed message tree, every valid definition (any depth, negative tags) with one wire type per requested number, decoding succeeds and records for each requested tag exactly the occurrences a reference parse finds (wire type, value bytes, wire order); single-value accessors read the last occurrence as the textbook value of the Go type (mismatch / overflow errors otherwise), slice accessors all occurrences with packed runs expanded, nested paths the reference record of the sub-message, absent tags not-found, undeclared not-defined; for every byte string and every accessor program nothing panics. Correspondence on random trees x definitions x accessor programs x modes x entry points plus mutated/truncated/random bytes.",
             technique="Coq proof (loop invariant vs reference record; bit-level zig-zag/two's-complement lemmas) + extracted-model differential + protowire oracle", design="4 C13", note=PROOF_NOTE + " protowire is the reference parser of the oracle. A 10-byte varint with more than 64 bits is read by csproto with the excess bits dropped; the reference rejects it: such element lists are outside the comparison."),
 "C14": dict(text="Theorem (all histories, all sync.Pool choices, all max-buffer/filter/capacity outcomes): in the ownership-passing state machine of pooled results (Get = any pooled object or a fresh clone; decode appends into whatever the object holds and keeps stale wire types; NestedResult(s) register closers; Close truncates, closes closers, trunc, Put) no operation panics and every observation equals the pure function (C13 model) of the observed result's own input; pools only ever hold objects with no recorded data and no closers. The pinned trunc() defect (nil closers) is expressed and refuted in the same model. Correspondence: histories with several live results over inputs of differing shapes x {safe,fast} x max buffer {none,0,1,2,1000} x filter, model vs implementation vs fresh never-pooled decode.",
             technique="Coq proof (refinement of the pool machine to a pool-free spec under an invariant) + history differential", design="4 C14", note=PROOF_NOTE + " sync.Pool's choice is not controllable in the implementation; the theorem shows observations do not depend on it. Usage precondition: a handle is closed at most once and not used afterwards; nested results are used through their root."),
 "C15": dict(text="Theorem: for every schedule interleaving the API calls of any number of goroutines on one shared Decoder (each goroutine using its own result handles), every pool choice and capacity outcome, no call panics and each goroutine observes exactly what it would observe alone on its own inputs (corollary of C14's refinement + a projection lemma). One step = one API call; Get/Put atomic. Memory-level race freedom is not expressible in the model: supported by running 2..64 goroutines x GOMAXPROCS {1,2,16} x thousands of iterations in a -race binary, each read checked against the single-threaded value, and a logged prefix of each real schedule replayed on the model.",
             technique="Coq proof (schedule independence) + race-detector run with per-goroutine value oracle", design="4 C15", note=PROOF_NOTE + " Assumes sync.Pool linearizability and sync/atomic. Data-race freedom below API-call granularity rests on the Go race detector run only (stated in evidence)."),

 "C04": dict(text="Theorems over a schema-generic interpreter that transcribes every Size and Marshal snippet of the templates (all kinds x singular/optional/required/packed/unpacked, maps, oneofs, nested and recursive messages, unknown fields) on top of the Encoder model: for EVERY well-formed schema and every message value that fits it, the program of encoder calls MarshalTo executes produces exactly Size() bytes, fills a buffer with exactly that much room exactly (no panic, no slack, nothing else touched), Marshal never panics and returns those bytes. Correspondence: the real plug-in built from /repo generates code for the feature-matrix corpus under 4 (thorough 8) option variants x 2 runtimes, which is compiled and run on ~17k values per run; Size/Marshal/MarshalTo outputs are compared byte for byte with the extracted model; the oracle checks len(Marshal)==Size, MarshalTo into 0xA5-filled exact buffers, no panic.",
             technique="Coq proof (open-recursion induction over schema/value; per-snippet size=length lemmas lifted through the Encoder exactness theorem) + generate-compile-run differential", design="4 C04", note=PROOF_NOTE + " Extensions and Go states the wire cannot produce (nil list elements, nil map values) are outside the model and the corpus. Total message size < 2^31 assumed."),
 "C05": dict(text="Theorem: for every well-formed schema and fitting value (well-formed unknown fields, no proto3 implicit float holding -0.0 = recorded finding G6), the bytes generated Marshal produces are decoded by the reference semantics (RefMsg.v, transcribed from the encoding spec: last-wins scalars, packed/unpacked lists, map entries with defaults, oneof, merge, unknown retention) into the original message with identical field presence, unknown fields preserved. Correspondence in two legs: generated code vs model (as C04), and RefMsg.v vs dynamicpb on ~33k byte strings per run; oracle: dynamicpb parse of every Marshal output rendered with Has() vs the original.",
             technique="Coq proof (decode-of-encode by induction on nesting, field by field against the reference fold) + reference-vs-dynamicpb differential", design="4 C05", note=PROOF_NOTE + " dynamicpb/protobuf-go is the reference runtime. Enums are treated as open (values from the declared set for proto2)."),
 "C17": dict(text="Theorems: generated Marshal returns the required-field error exactly when a required field of the message or of any message reachable through set fields, list elements, map values or oneof members is unset (empty message included); [unmarshal direction: see evidence]. Correspondence + oracle on every proto2 corpus type with required fields unset at every nesting position, both directions, vs proto.CheckInitialized / proto.Unmarshal of dynamicpb.",
             technique="Coq proof (error iff requireds_set, by induction along the marshal traversal) + differential vs dynamicpb CheckInitialized", design="4 C17", note=PROOF_NOTE),

 "C16": dict(category="other", text="Two parts. (1) Machine-checked theorems about the plug-in's decision logic (GenNames.v): every message definition at any nesting depth is visited exactly once, single-file mode writes exactly the documented name, per-message output names are pairwise distinct iff the lower-cased short names are (so the per-message mode is refuted for valid schemas whose names differ only in case or repeat in nested scopes: finding G17), documented option values accepted / others rejected. (2) What no Gallina model can carry -- that the emitted text is deterministic, valid, compiling Go -- is established by exhaustive generation over the corpus: feature matrix (all kinds x cardinalities x map pairs x oneofs x nesting, proto2+proto3) plus naming/import edge cases x all 8 option variants x both runtimes: plug-in run twice per request under different cwd/TZ, responses byte-identical, names compared with the model, every file parsed with go/parser and every package compiled.",
             technique="Coq proof of naming/traversal/option logic + exhaustive generate-twice-parse-compile over the corpus", design="4 C16", note="Validity of emitted Go for schemas outside the corpus is NOT proved (exploration strength for that clause). Trusted: Coq kernel for the theorems; go/parser, the Go compiler, protoc-gen-go/protoc-gen-gogo for the base types; the corpus builder."),
}

NOT_YET = {}
PENDING = set()   # statements written, proofs in progress

def main():
    props = [json.loads(l) for l in open(os.path.join(V, "properties.jsonl"))]
    checks, na = [], []
    for p in props:
        pid = p["id"]
        if pid in CHECKS and pid not in PENDING:
            c = CHECKS[pid]
            checks.append({
                "property_id": pid,
                "quick_cmd": "./check %s --tier quick" % pid,
                "thorough_cmd": "./check %s --tier thorough" % pid,
                "evidence_file": "/verif/evidence/%s.json" % pid,
                "replay_cmd_template": "./check %s --replay {path}" % pid,
                "engine": "coq-model+correspondence",
                "level_claimed": {"category": c.get("category", "proof"), "text": c["text"], "design_ref": "DESIGN.md section " + c["design"]},
                "level_note": c["note"],
                "technique": c["technique"],
            })
        else:
            na.append({"property_id": pid, "reason": NOT_YET.get(pid, "check not built yet in this snapshot (work in progress; the property is applicable and designed in DESIGN.md section 4)")})
    m = {
        "version": 1,
        "setup_cmd": "./setup.sh",
        "hooks": {
            "guard": "verif",
            "enable": "go build -tags verif (harness module /verif/harness with replace github.com/CrowdStrike/csproto => /repo)",
            "baseline_off_cmd": "cd /repo && GOFLAGS=-mod=mod GOPROXY=off go test -json -vet=off -count=1 -timeout 25m ./...",
            "source_commits": ["c728df2"],
            "add_only": True,
        },
        "engines": [{"name": "coq-model+correspondence", "path": "/verif/check",
                     "serves_properties": sorted(k for k in CHECKS if k not in PENDING),
                     "kind_free_text": "Coq 8.16.1 development (/verif/coq) + extracted OCaml model runner (/verif/model) + Go harness (/verif/harness) driven by /verif/check"}],
        "checks": checks,
        "not_applicable": na,
        "notes": "Every check: (1) full .vo build + Props/<ID>.v re-checked with Print Assumptions, (2) harness rebuilt against /repo's working tree with -tags verif, (3) extracted model vs implementation on seeded cases, (4) property oracle on the implementation, (5) verdict + evidence. known_findings.json lists recorded findings and fixed defects.",
    }
    json.dump(m, open(os.path.join(V, "MANIFEST.json"), "w"), indent=1)
    print("MANIFEST.json: %d checks, %d not_applicable" % (len(checks), len(na)))

if __name__ == "__main__":
    main()
