#!/bin/sh
# run every check of one tier in sequence; usage: tools/runall.sh quick|thorough [ids...]
cd "$(dirname "$0")/.."
tier=${1:-quick}; shift
ids=${*:-C01 C02 C03 C04 C05 C06 C07 C08 C09 C10 C11 C12 C13 C14 C15 C16 C17 C18 C19 C20}
for p in $ids; do
  s=$(date +%s)
  ./check $p --tier $tier 2>&1 | grep -v "^KNOWN-FINDING" | tail -2
  echo "   [$p $tier: $(( $(date +%s) - s ))s]"
done
