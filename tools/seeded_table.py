#!/usr/bin/env python3
"""Regenerates the table of seeded changes in DESIGN.md (between the SEEDED-TABLE markers) from
seeded/<prop>/<name>/meta.json and seeded/results.json."""
import json, os, re, sys

V = os.path.dirname(os.path.dirname(os.path.abspath(__file__)))


def key(name):
    p, n = name.split("/")
    m = re.match(r"(?:r(\d+))?m(\d+)", n)
    return (p, int(m.group(1) or 1), int(m.group(2)))


def main():
    res = json.load(open(os.path.join(V, "seeded", "results.json")))
    rows = ["| change | file(s) | mechanism (the sub-agent's words) | final state: quick check of the property |", "|---|---|---|---|"]
    caught = 0
    for name in sorted(res, key=key):
        meta = {}
        try:
            meta = json.load(open(os.path.join(V, "seeded", name, "meta.json")))
        except Exception:
            pass
        files = meta.get("files", [])
        if isinstance(files, str):
            files = [files]
        files = ",".join(os.path.basename(f) for f in files)
        mech = str(meta.get("mechanism", "")).replace("|", "\\|").replace("\n", " ")
        if len(mech) > 330:
            mech = mech[:327] + "..."
        r = res[name]
        states = []
        for p, c in sorted(r.get("checks", {}).items()):
            if c.get("caught"):
                v = " ".join(c.get("violation", []))
                states.append("caught" + (" (no-failing-input-found)" if "no-failing-input-found" in v else ""))
            else:
                states.append("**missed**")
        if not r.get("applied", True):
            states = ["patch does not apply"]
        if states and all(s.startswith("caught") for s in states):
            caught += 1
        rows.append("| %s | %s | %s | %s |" % (name, files, mech, ", ".join(states)))
    rows.append("")
    rows.append("(%d changes, %d caught by the quick check of their property in the last run of each; `seeded/results.json` holds that run, "
                "`tools/runseeded.py` re-runs them, `tools/seeded_table.py` regenerates this table.)" % (len(res), caught))
    text = "\n".join(rows)
    p = os.path.join(V, "DESIGN.md")
    s = open(p).read()
    a, b = "<!-- SEEDED-TABLE-BEGIN -->", "<!-- SEEDED-TABLE-END -->"
    if a not in s or b not in s:
        sys.exit("markers not found in DESIGN.md")
    s = s[:s.index(a) + len(a)] + "\n" + text + "\n" + s[s.index(b):]
    open(p, "w").write(s)
    print("%d changes, %d caught" % (len(res), caught))


if __name__ == "__main__":
    main()
