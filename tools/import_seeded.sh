#!/bin/sh
# copy the output of a seeding sub-agent (<dir>/<ID>.out/m<i>.*) into /verif/seeded/<ID>/<prefix>m<i>/
# usage: tools/import_seeded.sh <dir> <prefix> ID...      e.g. tools/import_seeded.sh /tmp/mut2 r2 C01 C02
set -e
dir=$1; pre=$2; shift 2
for id in "$@"; do
  for i in 1 2 3; do
    src=$dir/$id.out
    [ -f $src/m$i.diff ] || continue
    d=/verif/seeded/$id/${pre}m$i
    mkdir -p $d
    cp $src/m$i.diff $d/patch.diff
    cp $src/m$i.demo.md $d/demo.md 2>/dev/null || true
    cp $src/m$i.meta.json $d/meta.json 2>/dev/null || true
  done
done
