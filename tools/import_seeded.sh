#!/bin/sh
# copy the output of a seeding sub-agent (/tmp/mut/<ID>.out/m<i>.*) into /verif/seeded/<ID>/m<i>/
set -e
for id in "$@"; do
  for i in 1 2 3; do
    src=/tmp/mut/$id.out
    [ -f $src/m$i.diff ] || continue
    d=/verif/seeded/$id/m$i
    mkdir -p $d
    cp $src/m$i.diff $d/patch.diff
    cp $src/m$i.demo.md $d/demo.md 2>/dev/null || true
    cp $src/m$i.meta.json $d/meta.json 2>/dev/null || true
  done
done
