#!/usr/bin/env python3
"""Apply each seeded change under /verif/seeded/<prop>/<name>/patch.diff to /repo's working tree, run the
property's check, restore /repo, and record whether the check reported a violation.
usage: tools/runseeded.py [prop[/name] ...] [--tier quick|thorough] [--also C01,C02]"""
import json, os, subprocess, sys, time, glob
V = os.path.dirname(os.path.dirname(os.path.abspath(__file__)))
REPO = os.environ.get("VERIF_REPO", "/repo")

def sh(cmd, **kw):
    p = subprocess.run(cmd, stdout=subprocess.PIPE, stderr=subprocess.STDOUT, text=True, **kw)
    return p.returncode, p.stdout

def clean():
    rc, out = sh(["git", "-C", REPO, "status", "--porcelain"])
    return out.strip() == ""

def main():
    args = [a for a in sys.argv[1:] if not a.startswith("--")]
    tier = "quick"
    also = []
    for i, a in enumerate(sys.argv):
        if a == "--tier": tier = sys.argv[i + 1]
        if a == "--also": also = sys.argv[i + 1].split(",")
    args = [a for a in args if a not in (tier,) and a not in (",".join(also),)]
    if not clean():
        print("refusing: /repo working tree is not clean"); return 2
    dirs = sorted(glob.glob(os.path.join(V, "seeded", "*", "*", "patch.diff")))
    results_path = os.path.join(V, "seeded", "results.json")
    results = json.load(open(results_path)) if os.path.exists(results_path) else {}
    for pd in dirs:
        d = os.path.dirname(pd)
        prop, name = d.split(os.sep)[-2:]
        key = prop + "/" + name
        if args and prop not in args and key not in args:
            continue
        rc, out = sh(["git", "-C", REPO, "apply", pd])
        if rc != 0:
            print(key, "patch does not apply:", out.strip()[:200]); results[key] = {"applied": False}; continue
        entry = {"applied": True, "tier": tier, "checks": {}}
        try:
            for p in [prop] + also:
                t0 = time.time()
                rc, out = sh([os.path.join(V, "check"), p, "--tier", tier], cwd=V)
                viol = [l for l in out.splitlines() if l.startswith("VIOLATION")]
                entry["checks"][p] = {"exit": rc, "caught": rc == 1 and bool(viol), "violation": viol[:1], "seconds": round(time.time() - t0)}
                print(key, p, "CAUGHT" if entry["checks"][p]["caught"] else "missed (exit %d)" % rc, viol[:1], flush=True)
        finally:
            sh(["git", "-C", REPO, "checkout", "--", "."])
            sh(["git", "-C", REPO, "clean", "-fdq"])
            # coq/Src/SrcWire.v follows the source tree: bring it back to the clean tree's translation
            sh([sys.executable, "-c", "import sys; sys.path.insert(0, %r); import vcheck; vcheck.regen_src()" % os.path.join(V, "lib")])
        results[key] = entry
        json.dump(results, open(results_path, "w"), indent=1, sort_keys=True)
    assert clean()
    return 0

if __name__ == "__main__":
    sys.exit(main())
