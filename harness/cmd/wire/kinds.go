package main

import (
	"math"

	"github.com/CrowdStrike/csproto"
	"google.golang.org/protobuf/encoding/protowire"
)

// A scalar kind of the wire codec.  Values travel as raw uint64 bits; signed kinds are the
// int64 reinterpretation, bool is 0/1, floats are their IEEE bit patterns.
type kind int

const (
	kBool kind = iota
	kInt32
	kInt64
	kUInt32
	kUInt64
	kSInt32
	kSInt64
	kFixed32
	kFixed64
	kSFixed32
	kSFixed64
	kFloat
	kDouble
	nKinds
)

var kindName = [...]string{"bool", "int32", "int64", "uint32", "uint64", "sint32", "sint64",
	"fixed32", "fixed64", "sfixed32", "sfixed64", "float", "double"}

func (k kind) String() string { return kindName[k] }
func (k kind) signed() bool {
	switch k {
	case kInt32, kInt64, kSInt32, kSInt64, kSFixed32, kSFixed64:
		return true
	}
	return false
}
func (k kind) bits32() bool {
	switch k {
	case kInt32, kUInt32, kSInt32, kFixed32, kSFixed32, kFloat:
		return true
	}
	return false
}
func (k kind) width() int {
	switch k {
	case kFixed32, kSFixed32, kFloat:
		return 4
	case kFixed64, kSFixed64, kDouble:
		return 8
	}
	return 0
}
func (k kind) wt() int {
	switch k.width() {
	case 4:
		return 5
	case 8:
		return 1
	}
	return 0
}

// has a Decoder.DecodeX / DecodePackedX of its own (sfixed is read through the fixed readers + cast)
func (k kind) hasScalarEncoder() bool { return k != kSFixed32 && k != kSFixed64 }

// norm clamps raw bits into the kind's Go domain (what a Go variable of that type can hold).
func (k kind) norm(raw uint64) uint64 {
	switch k {
	case kBool:
		return raw & 1
	case kInt32, kSInt32, kSFixed32:
		return uint64(int64(int32(raw)))
	case kUInt32, kFixed32, kFloat:
		return uint64(uint32(raw))
	}
	return raw
}

// val renders the value as the model's mathematical integer.
func (k kind) val(raw uint64) string {
	if k.signed() {
		return hxI(int64(raw))
	}
	return hxU(raw)
}

// encode one scalar field on the real Encoder (sfixed: as the generated code does, through a cast).
func encScalar(e *csproto.Encoder, k kind, tag int, raw uint64) {
	switch k {
	case kBool:
		e.EncodeBool(tag, raw != 0)
	case kInt32:
		e.EncodeInt32(tag, int32(raw))
	case kInt64:
		e.EncodeInt64(tag, int64(raw))
	case kUInt32:
		e.EncodeUInt32(tag, uint32(raw))
	case kUInt64:
		e.EncodeUInt64(tag, raw)
	case kSInt32:
		e.EncodeSInt32(tag, int32(raw))
	case kSInt64:
		e.EncodeSInt64(tag, int64(raw))
	case kFixed32:
		e.EncodeFixed32(tag, uint32(raw))
	case kFixed64:
		e.EncodeFixed64(tag, raw)
	case kSFixed32:
		e.EncodeFixed32(tag, uint32(int32(raw)))
	case kSFixed64:
		e.EncodeFixed64(tag, uint64(int64(raw)))
	case kFloat:
		e.EncodeFloat32(tag, math.Float32frombits(uint32(raw)))
	case kDouble:
		e.EncodeFloat64(tag, math.Float64frombits(raw))
	}
}

func encPacked(e *csproto.Encoder, k kind, tag int, raws []uint64) {
	switch k {
	case kBool:
		vs := make([]bool, len(raws))
		for i, r := range raws {
			vs[i] = r != 0
		}
		e.EncodePackedBool(tag, vs)
	case kInt32:
		e.EncodePackedInt32(tag, conv(raws, func(r uint64) int32 { return int32(r) }))
	case kInt64:
		e.EncodePackedInt64(tag, conv(raws, func(r uint64) int64 { return int64(r) }))
	case kUInt32:
		e.EncodePackedUInt32(tag, conv(raws, func(r uint64) uint32 { return uint32(r) }))
	case kUInt64:
		e.EncodePackedUInt64(tag, conv(raws, func(r uint64) uint64 { return r }))
	case kSInt32:
		e.EncodePackedSInt32(tag, conv(raws, func(r uint64) int32 { return int32(r) }))
	case kSInt64:
		e.EncodePackedSInt64(tag, conv(raws, func(r uint64) int64 { return int64(r) }))
	case kFixed32:
		e.EncodePackedFixed32(tag, conv(raws, func(r uint64) uint32 { return uint32(r) }))
	case kFixed64:
		e.EncodePackedFixed64(tag, conv(raws, func(r uint64) uint64 { return r }))
	case kSFixed32:
		e.EncodePackedSFixed32(tag, conv(raws, func(r uint64) int32 { return int32(r) }))
	case kSFixed64:
		e.EncodePackedSFixed64(tag, conv(raws, func(r uint64) int64 { return int64(r) }))
	case kFloat:
		e.EncodePackedFloat32(tag, conv(raws, func(r uint64) float32 { return math.Float32frombits(uint32(r)) }))
	case kDouble:
		e.EncodePackedFloat64(tag, conv(raws, func(r uint64) float64 { return math.Float64frombits(r) }))
	}
}

func conv[T any](raws []uint64, f func(uint64) T) []T {
	out := make([]T, len(raws))
	for i, r := range raws {
		out[i] = f(r)
	}
	return out
}

// decode one scalar on the real Decoder, returning raw bits.
func decScalar(d *csproto.Decoder, k kind) (uint64, error) {
	switch k {
	case kBool:
		v, err := d.DecodeBool()
		if v {
			return 1, err
		}
		return 0, err
	case kInt32:
		v, err := d.DecodeInt32()
		return uint64(int64(v)), err
	case kInt64:
		v, err := d.DecodeInt64()
		return uint64(v), err
	case kUInt32:
		v, err := d.DecodeUInt32()
		return uint64(v), err
	case kUInt64:
		return d.DecodeUInt64()
	case kSInt32:
		v, err := d.DecodeSInt32()
		return uint64(int64(v)), err
	case kSInt64:
		v, err := d.DecodeSInt64()
		return uint64(v), err
	case kFixed32:
		v, err := d.DecodeFixed32()
		return uint64(v), err
	case kFixed64:
		return d.DecodeFixed64()
	case kSFixed32:
		v, err := d.DecodeFixed32()
		return uint64(int64(int32(v))), err
	case kSFixed64:
		v, err := d.DecodeFixed64()
		return uint64(int64(v)), err
	case kFloat:
		v, err := d.DecodeFloat32()
		return uint64(math.Float32bits(v)), err
	case kDouble:
		v, err := d.DecodeFloat64()
		return math.Float64bits(v), err
	}
	panic("kind")
}

func decPacked(d *csproto.Decoder, k kind) ([]uint64, error) {
	switch k {
	case kBool:
		vs, err := d.DecodePackedBool()
		return conv2(vs, func(v bool) uint64 {
			if v {
				return 1
			}
			return 0
		}), err
	case kInt32:
		vs, err := d.DecodePackedInt32()
		return conv2(vs, func(v int32) uint64 { return uint64(int64(v)) }), err
	case kInt64:
		vs, err := d.DecodePackedInt64()
		return conv2(vs, func(v int64) uint64 { return uint64(v) }), err
	case kUInt32:
		vs, err := d.DecodePackedUint32()
		return conv2(vs, func(v uint32) uint64 { return uint64(v) }), err
	case kUInt64:
		vs, err := d.DecodePackedUint64()
		return conv2(vs, func(v uint64) uint64 { return v }), err
	case kSInt32:
		vs, err := d.DecodePackedSint32()
		return conv2(vs, func(v int32) uint64 { return uint64(int64(v)) }), err
	case kSInt64:
		vs, err := d.DecodePackedSint64()
		return conv2(vs, func(v int64) uint64 { return uint64(v) }), err
	case kFixed32:
		vs, err := d.DecodePackedFixed32()
		return conv2(vs, func(v uint32) uint64 { return uint64(v) }), err
	case kFixed64:
		vs, err := d.DecodePackedFixed64()
		return conv2(vs, func(v uint64) uint64 { return v }), err
	case kSFixed32:
		vs, err := d.DecodePackedFixed32()
		return conv2(vs, func(v uint32) uint64 { return uint64(int64(int32(v))) }), err
	case kSFixed64:
		vs, err := d.DecodePackedFixed64()
		return conv2(vs, func(v uint64) uint64 { return v }), err
	case kFloat:
		vs, err := d.DecodePackedFloat32()
		return conv2(vs, func(v float32) uint64 { return uint64(math.Float32bits(v)) }), err
	case kDouble:
		vs, err := d.DecodePackedFloat64()
		return conv2(vs, func(v float64) uint64 { return math.Float64bits(v) }), err
	}
	panic("kind")
}

func conv2[T any](vs []T, f func(T) uint64) []uint64 {
	out := make([]uint64, len(vs))
	for i, v := range vs {
		out[i] = f(v)
	}
	return out
}

// what the size helpers predict for a scalar payload, composed the way generated code composes them
func sizePayload(k kind, raw uint64) int {
	switch k {
	case kBool:
		return 1
	case kSInt32, kSInt64:
		return csproto.SizeOfZigZag(raw)
	case kInt32, kInt64, kUInt32, kUInt64:
		return csproto.SizeOfVarint(raw)
	}
	return k.width()
}

// ----- independent reference (protowire + spec) -----

func zigzag(v int64) uint64 { return protowire.EncodeZigZag(v) }

func refWireValue(k kind, raw uint64) uint64 {
	switch k {
	case kSInt32, kSInt64:
		return zigzag(int64(raw))
	}
	return raw // int32/int64 already sign-extended to 64 bits in raw
}

func refPayload(b []byte, k kind, raw uint64) []byte {
	switch k.width() {
	case 4:
		return protowire.AppendFixed32(b, uint32(raw))
	case 8:
		return protowire.AppendFixed64(b, raw)
	}
	return protowire.AppendVarint(b, refWireValue(k, raw))
}

func refScalar(k kind, tag int, raw uint64) []byte {
	b := protowire.AppendTag(nil, protowire.Number(tag), protowire.Type(k.wt()))
	return refPayload(b, k, raw)
}

func refPacked(k kind, tag int, raws []uint64) []byte {
	if len(raws) == 0 {
		return nil
	}
	var body []byte
	for _, r := range raws {
		body = refPayload(body, k, r)
	}
	b := protowire.AppendTag(nil, protowire.Number(tag), protowire.BytesType)
	return protowire.AppendBytes(b, body)
}

func refBytes(tag int, v []byte) []byte {
	b := protowire.AppendTag(nil, protowire.Number(tag), protowire.BytesType)
	return protowire.AppendBytes(b, v)
}

// refDecode reads a scalar of kind k from reference-encoded payload bytes.
func refDecode(k kind, p []byte) (raw uint64, n int) {
	switch k.width() {
	case 4:
		v, n := protowire.ConsumeFixed32(p)
		if k == kSFixed32 {
			return uint64(int64(int32(v))), n
		}
		return uint64(v), n
	case 8:
		v, n := protowire.ConsumeFixed64(p)
		return v, n
	}
	v, n := protowire.ConsumeVarint(p)
	if n < 0 {
		return 0, n
	}
	switch k {
	case kBool:
		if v != 0 {
			return 1, n
		}
		return 0, n
	case kInt32:
		return uint64(int64(int32(v))), n
	case kUInt32:
		return uint64(uint32(v)), n
	case kSInt32:
		return uint64(int64(int32(protowire.DecodeZigZag(v & math.MaxUint32)))), n
	case kSInt64:
		return uint64(protowire.DecodeZigZag(v)), n
	}
	return v, n
}
