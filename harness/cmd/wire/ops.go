package main

import (
	"errors"
	"fmt"
	"io"
	"strconv"
	"strings"
	"unsafe"

	"github.com/CrowdStrike/csproto"
	"verif/harness/internal/hx"
)

func hxU(v uint64) string { return hx.U(v) }
func hxI(v int64) string  { return hx.I(v) }

func rawList(k kind, raws []uint64) string {
	if len(raws) == 0 {
		return "-"
	}
	s := make([]string, len(raws))
	for i, r := range raws {
		s[i] = k.val(r)
	}
	return strings.Join(s, ",")
}

// ---------- encoder ops ----------

type eop struct {
	typ  byte // 'S' scalar, 'B' bytes, 'P' packed, 'R' raw, 'M' map header
	k    kind
	tag  int
	raw  uint64
	raws []uint64
	b    []byte
	size int
	str  bool // B: go through EncodeString
}

func (o eop) token() string {
	switch o.typ {
	case 'S':
		return fmt.Sprintf("S:%s:%s:%s", o.k, hxU(uint64(o.tag)), o.k.val(o.raw))
	case 'B':
		return fmt.Sprintf("B:%s:%s", hxU(uint64(o.tag)), hx.B(o.b))
	case 'P':
		return fmt.Sprintf("P:%s:%s:%s", o.k, hxU(uint64(o.tag)), rawList(o.k, o.raws))
	case 'R':
		return "R:" + hx.B(o.b)
	case 'M':
		return fmt.Sprintf("M:%s:%s", hxU(uint64(o.tag)), hxU(uint64(o.size)))
	}
	panic("eop")
}

func (o eop) apply(e *csproto.Encoder) {
	switch o.typ {
	case 'S':
		encScalar(e, o.k, o.tag, o.raw)
	case 'B':
		if o.str {
			e.EncodeString(o.tag, string(o.b))
		} else {
			e.EncodeBytes(o.tag, o.b)
		}
	case 'P':
		encPacked(e, o.k, o.tag, o.raws)
	case 'R':
		e.EncodeRaw(o.b)
	case 'M':
		e.EncodeMapEntryHeader(o.tag, o.size)
	}
}

// predicted size from the public size helpers, composed as generated code composes them
func (o eop) predicted() int {
	switch o.typ {
	case 'S':
		return csproto.SizeOfTagKey(o.tag) + sizePayload(o.k, o.raw)
	case 'B':
		return csproto.SizeOfTagKey(o.tag) + csproto.SizeOfVarint(uint64(len(o.b))) + len(o.b)
	case 'P':
		if len(o.raws) == 0 {
			return 0
		}
		l := 0
		for _, r := range o.raws {
			l += sizePayload(o.k, r)
		}
		return csproto.SizeOfTagKey(o.tag) + csproto.SizeOfVarint(uint64(l)) + l
	case 'R':
		return len(o.b)
	case 'M':
		return csproto.SizeOfTagKey(o.tag) + csproto.SizeOfVarint(uint64(o.size))
	}
	panic("eop")
}

// reference bytes (protowire)
func (o eop) reference() []byte {
	switch o.typ {
	case 'S':
		return refScalar(o.k, o.tag, o.raw)
	case 'B':
		return refBytes(o.tag, o.b)
	case 'P':
		return refPacked(o.k, o.tag, o.raws)
	case 'R':
		return o.b
	}
	return nil
}

const fill = 0xA5

// runEnc executes ops on a fresh buffer of buflen bytes (pre-filled with 0xA5).
// Result: "ok <hex> <offset>" or "panic".
func runEnc(buflen int, ops []eop) (res string, buf []byte, off int) {
	buf = make([]byte, buflen)
	for i := range buf {
		buf[i] = fill
	}
	defer func() {
		if r := recover(); r != nil {
			res, off = "panic", -1
		}
	}()
	e := csproto.NewEncoder(buf)
	for _, o := range ops {
		o.apply(e)
	}
	off = e.VerifOffset()
	return "ok " + hx.B(buf) + " " + strconv.Itoa(off), buf, off
}

func encLine(buflen int, ops []eop) string {
	t := make([]string, len(ops))
	for i, o := range ops {
		t[i] = o.token()
	}
	return fmt.Sprintf("W ENC %d %s", buflen, strings.Join(t, " "))
}

// ---------- decoder ops ----------

type dop struct {
	typ      byte // 'T','S','Y' bytes,'G' string,'P','N','K' skip,'Z' seek,'R' reset,'M' mode
	k        kind
	tag      int
	wt       int
	o        int64
	whence   int
	nestedOK bool
	fast     bool
}

func (o dop) token() string {
	switch o.typ {
	case 'T', 'Y', 'G', 'R':
		return string(o.typ)
	case 'S', 'P':
		return string(o.typ) + ":" + o.k.String()
	case 'N':
		if o.nestedOK {
			return "N:1"
		}
		return "N:0"
	case 'K':
		return fmt.Sprintf("K:%s:%s", hxI(int64(o.tag)), hxI(int64(o.wt)))
	case 'Z':
		return fmt.Sprintf("Z:%s:%s", hxI(o.o), hxI(int64(o.whence)))
	case 'M':
		if o.fast {
			return "M:1"
		}
		return "M:0"
	}
	panic("dop")
}

// nestedProbe is the nested message handed to DecodeNested: records what it was given.
type nestedProbe struct {
	ok    bool
	got   []byte
	calls int
}

var errNested = errors.New("nested unmarshal failed")

func (p *nestedProbe) Unmarshal(b []byte) error {
	p.calls++
	p.got = append([]byte(nil), b...)
	if p.ok {
		return nil
	}
	return errNested
}

func aliases(buf []byte, p unsafe.Pointer, n int) string {
	if n == 0 {
		return ""
	}
	if len(buf) == 0 {
		return ":c"
	}
	lo := uintptr(unsafe.Pointer(unsafe.SliceData(buf)))
	hi := lo + uintptr(cap(buf))
	if q := uintptr(p); q >= lo && q < hi {
		return ":a"
	}
	return ":c"
}

type decObs struct {
	class  string // ok | err | panic
	val    string
	before int
	after  int
	err    error
	nested *nestedProbe
	nElems int
	bytes  []byte
}

// execDec runs one op on the real decoder under recover().
func execDec(d *csproto.Decoder, buf []byte, o dop) (ob decObs) {
	ob.before = d.Offset()
	defer func() {
		if r := recover(); r != nil {
			ob.class = "panic"
			ob.val = fmt.Sprint(r)
		}
	}()
	var err error
	switch o.typ {
	case 'T':
		tag, wt, e := d.DecodeTag()
		err = e
		ob.val = fmt.Sprintf("t:%s/%s", hxU(uint64(tag)), hxU(uint64(wt)))
	case 'S':
		raw, e := decScalar(d, o.k)
		err = e
		ob.val = "n:" + o.k.val(raw)
	case 'Y':
		b, e := d.DecodeBytes()
		err = e
		ob.bytes = b
		ob.val = "b:" + hx.B(b) + aliases(buf, unsafe.Pointer(unsafe.SliceData(b)), len(b))
	case 'G':
		s, e := d.DecodeString()
		err = e
		ob.bytes = []byte(s)
		ob.val = "b:" + hx.B([]byte(s)) + aliases(buf, unsafe.Pointer(unsafe.StringData(s)), len(s))
	case 'P':
		raws, e := decPacked(d, o.k)
		err = e
		ob.nElems = len(raws)
		ob.val = "l:" + rawList(o.k, raws)
	case 'N':
		p := &nestedProbe{ok: o.nestedOK}
		ob.nested = p
		err = d.DecodeNested(p)
		ob.val = "m:" + hx.B(p.got)
	case 'K':
		b, e := d.Skip(o.tag, csproto.WireType(o.wt))
		err = e
		ob.bytes = b
		ob.val = "r:" + hx.B(b)
	case 'Z':
		pos, e := d.Seek(o.o, o.whence)
		err = e
		ob.val = "p:" + hxI(pos)
	case 'R':
		d.Reset()
		ob.val = "u"
	case 'M':
		if o.fast {
			d.SetMode(csproto.DecoderModeFast)
		} else {
			d.SetMode(csproto.DecoderModeSafe)
		}
		ob.val = "u"
	}
	ob.after = d.Offset()
	ob.err = err
	if err != nil {
		ob.class = "err"
	} else {
		ob.class = "ok"
	}
	return ob
}

// runDec executes a history on the real decoder.  After every failing call the cursor the
// implementation chose is re-imposed on both sides by an explicit Seek, so that what C03 leaves
// open (where the cursor is after an error, as long as it is in range) is not compared.
// A panic ends the history.  check is called after every op (oracle).
func runDec(fast bool, buf []byte, start int, ops []dop, check func(o dop, ob decObs, d *csproto.Decoder)) (line, impl string, panicked bool) {
	d := csproto.NewDecoder(buf)
	mode := "safe"
	if fast {
		d.SetMode(csproto.DecoderModeFast)
		mode = "fast"
	}
	if _, err := d.Seek(int64(start), io.SeekStart); err != nil {
		panic("harness: bad start offset")
	}
	{
		all := make([]string, len(ops))
		for i, o := range ops {
			all[i] = o.token()
		}
		hx.Inflight(fmt.Sprintf("W DEC %s %s %d %s", mode, hx.B(buf), start, strings.Join(all, " ")))
	}
	var toks, res []string
	for _, o := range ops {
		ob := execDec(d, buf, o)
		toks = append(toks, o.token())
		if check != nil {
			check(o, ob, d)
		}
		switch ob.class {
		case "ok":
			res = append(res, "ok:"+ob.val+"@"+strconv.Itoa(ob.after))
		case "err":
			res = append(res, "err")
			off := d.Offset()
			if off < 0 || off > len(buf) {
				// out-of-range cursor: reported by the oracle; the history cannot continue
				return fmt.Sprintf("W DEC %s %s %d %s", mode, hx.B(buf), start, strings.Join(toks, " ")), strings.Join(res, " "), false
			}
			toks = append(toks, fmt.Sprintf("Z:%s:0", hxI(int64(off))))
			res = append(res, "ok:p:"+hxI(int64(off))+"@"+strconv.Itoa(off))
		case "panic":
			res = append(res, "panic")
			return fmt.Sprintf("W DEC %s %s %d %s", mode, hx.B(buf), start, strings.Join(toks, " ")), strings.Join(res, " "), true
		}
	}
	return fmt.Sprintf("W DEC %s %s %d %s", mode, hx.B(buf), start, strings.Join(toks, " ")), strings.Join(res, " "), false
}
