package main

import (
	"fmt"
	"time"

	gogoproto "github.com/gogo/protobuf/proto"
	gogodesc "github.com/gogo/protobuf/protoc-gen-gogo/descriptor"
	gogotypes "github.com/gogo/protobuf/types"
	"google.golang.org/protobuf/proto"
	"google.golang.org/protobuf/types/known/durationpb"
	"google.golang.org/protobuf/types/known/emptypb"
	"google.golang.org/protobuf/types/known/structpb"
	"google.golang.org/protobuf/types/known/timestamppb"
	"google.golang.org/protobuf/types/known/wrapperspb"
	"verif/harness/internal/hx"
)

// legacyV1 is a message only known through the golang/protobuf v1 XXX_ methods.
type legacyV1 struct {
	b    []byte
	fail bool
}

func (m *legacyV1) XXX_Size() int { return len(m.b) }
func (m *legacyV1) XXX_Marshal(b []byte, deterministic bool) ([]byte, error) {
	if m.fail {
		return nil, errSentinel
	}
	return append(b, m.b...), nil
}

// nested messages that only an underlying runtime knows how to marshal
func runtimeNested(r *hx.Rng) {
	v2 := []proto.Message{
		&emptypb.Empty{},
		timestamppb.New(time.Unix(1700000000, 123456789)),
		durationpb.New(-3 * time.Second),
		wrapperspb.String("hello, nested"),
		wrapperspb.Bytes(r.Bytes(200)),
		wrapperspb.Int64(-1),
		structpb.NewStringValue("x"),
	}
	if s, err := structpb.NewStruct(map[string]interface{}{"k": []interface{}{1.5, "v", nil, true}}); err == nil {
		v2 = append(v2, s)
	}
	for i, m := range v2 {
		body, err := proto.MarshalOptions{Deterministic: true}.Marshal(m)
		hx.Must(err)
		nestCase("nested-googlev2", "rt", randTag(r), m, body, false, r)
		sink.Count(fmt.Sprintf("rt:googlev2:%d", i))
	}
	name := "M"
	gg := []gogoproto.Message{
		&gogodesc.DescriptorProto{Name: &name},
		&gogodesc.FileDescriptorProto{Name: &name, Dependency: []string{"a", "b"}},
		&gogodesc.DescriptorProto{},
	}
	for _, m := range gg {
		body, err := gogoproto.Marshal(m)
		hx.Must(err)
		nestCase("nested-gogo", "rt", randTag(r), m, body, false, r)
	}
	gt := &gogotypes.Timestamp{Seconds: 1700000000, Nanos: 5}
	body, err := gt.Marshal()
	hx.Must(err)
	nestCase("nested-gogotypes", "m", randTag(r), gt, body, false, r)
	for _, failing := range []bool{false, true} {
		b := r.Bytes(9)
		nestCase("nested-legacyv1", "rt", randTag(r), &legacyV1{b: b, fail: failing}, b, failing, r)
	}
}
