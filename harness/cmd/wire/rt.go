package main

import (
	"fmt"
	"github.com/CrowdStrike/csproto"
	"time"

	gogoproto "github.com/gogo/protobuf/proto"
	gogodesc "github.com/gogo/protobuf/protoc-gen-gogo/descriptor"
	gogotypes "github.com/gogo/protobuf/types"
	"google.golang.org/protobuf/proto"
	"google.golang.org/protobuf/types/descriptorpb"
	"google.golang.org/protobuf/types/known/durationpb"
	"google.golang.org/protobuf/types/known/emptypb"
	"google.golang.org/protobuf/types/known/structpb"
	"google.golang.org/protobuf/types/known/timestamppb"
	"google.golang.org/protobuf/types/known/wrapperspb"
	"verif/harness/internal/hx"
)

// legacyV1 is a message only known through the golang/protobuf v1 XXX_ methods.
type legacyV1 struct {
	b    []byte
	fail bool
}

func (m *legacyV1) XXX_Size() int { return len(m.b) }
func (m *legacyV1) XXX_Marshal(b []byte, deterministic bool) ([]byte, error) {
	if m.fail {
		return nil, errSentinel
	}
	return append(b, m.b...), nil
}

// nested messages that only an underlying runtime knows how to marshal
func runtimeNested(r *hx.Rng) {
	v2 := []proto.Message{
		&emptypb.Empty{},
		timestamppb.New(time.Unix(1700000000, 123456789)),
		durationpb.New(-3 * time.Second),
		wrapperspb.String("hello, nested"),
		wrapperspb.Bytes(r.Bytes(200)),
		wrapperspb.Int64(-1),
		structpb.NewStringValue("x"),
	}
	if s, err := structpb.NewStruct(map[string]interface{}{"k": []interface{}{1.5, "v", nil, true}}); err == nil {
		v2 = append(v2, s)
	}
	for i, m := range v2 {
		body, err := proto.MarshalOptions{Deterministic: true}.Marshal(m)
		hx.Must(err)
		nestCase("nested-googlev2", "rt", randTag(r), m, body, false, r)
		sink.Count(fmt.Sprintf("rt:googlev2:%d", i))
	}
	name := "M"
	gg := []gogoproto.Message{
		&gogodesc.DescriptorProto{Name: &name},
		&gogodesc.FileDescriptorProto{Name: &name, Dependency: []string{"a", "b"}},
		&gogodesc.DescriptorProto{},
	}
	for _, m := range gg {
		body, err := gogoproto.Marshal(m)
		hx.Must(err)
		nestCase("nested-gogo", "rt", randTag(r), m, body, false, r)
	}
	gt := &gogotypes.Timestamp{Seconds: 1700000000, Nanos: 5}
	body, err := gt.Marshal()
	hx.Must(err)
	nestCase("nested-gogotypes", "m", randTag(r), gt, body, false, r)
	for _, failing := range []bool{false, true} {
		b := r.Bytes(9)
		nestCase("nested-legacyv1", "rt", randTag(r), &legacyV1{b: b, fail: failing}, b, failing, r)
	}
}

// C19 on messages with a past: (1) a nested message that was sized / marshaled before and modified since must be
// encoded as it is NOW (the runtimes cache sizes inside the message); (2) DecodeNested into a destination that
// already holds a message must leave exactly the decoded message there, as the runtimes' Unmarshal does.
func runtimeNestedHistories(r *hx.Rng) {
	str := func(s string) *string { return &s }
	// (1) encode after size-then-modify
	type enc struct {
		name   string
		m      interface{}
		warm   func()
		modify func()
		fresh  func() []byte
	}
	gm := &descriptorpb.DescriptorProto{Name: str("M"), Field: []*descriptorpb.FieldDescriptorProto{{Name: str("f")}}}
	gg := &gogodesc.DescriptorProto{Name: str("M"), Field: []*gogodesc.FieldDescriptorProto{{Name: str("f")}}}
	cases := []enc{
		{"googlev2", gm, func() { _ = proto.Size(gm); _, _ = proto.Marshal(gm); _ = csproto.Size(gm) },
			func() {
				gm.Field[0].Name = str("a much longer field name than before")
				gm.Field = append(gm.Field, &descriptorpb.FieldDescriptorProto{Name: str("g")})
			},
			func() []byte { b, _ := proto.MarshalOptions{Deterministic: true}.Marshal(proto.Clone(gm)); return b }},
		{"gogo", gg, func() { _ = gogoproto.Size(gg); _, _ = gogoproto.Marshal(gg); _ = csproto.Size(gg) },
			func() {
				gg.Field[0].Name = str("a much longer field name than before")
				gg.Field = append(gg.Field, &gogodesc.FieldDescriptorProto{Name: str("g")})
			},
			func() []byte { b, _ := gogoproto.Marshal(gogoproto.Clone(gg)); return b }},
	}
	for _, c := range cases {
		c.warm()
		c.modify()
		body := c.fresh()
		tag := randTag(r)
		exp := refBytes(tag, body)
		buf := make([]byte, len(exp))
		sink.OracleN++
		got := func() (out string) {
			defer func() {
				if x := recover(); x != nil {
					out = "panic"
				}
			}()
			e := csproto.NewEncoder(buf)
			if err := e.EncodeNested(tag, c.m); err != nil {
				return "err " + err.Error()
			}
			return hx.B(buf[:e.VerifOffset()])
		}()
		if got != hx.B(exp) {
			fail("oracle", "EncodeNested of a message that was sized earlier and modified since did not write its current contents", c.name+" size, modify, EncodeNested", hx.B(exp), got, "nest-stale")
		}
	}
	// (2) decode into a populated destination
	type dcase struct {
		name  string
		dest  interface{}
		body  []byte
		equal func() bool
	}
	gsrc := &gogodesc.DescriptorProto{Field: []*gogodesc.FieldDescriptorProto{{Name: str("y")}}}
	gbody, _ := gogoproto.Marshal(gsrc)
	gdest := &gogodesc.DescriptorProto{Name: str("previous"), Field: []*gogodesc.FieldDescriptorProto{{Name: str("x")}}}
	vsrc := &descriptorpb.DescriptorProto{Field: []*descriptorpb.FieldDescriptorProto{{Name: str("y")}}}
	vbody, _ := proto.Marshal(vsrc)
	vdest := &descriptorpb.DescriptorProto{Name: str("previous"), Field: []*descriptorpb.FieldDescriptorProto{{Name: str("x")}}}
	tsrc := &gogotypes.Timestamp{Nanos: 7}
	tbody, _ := tsrc.Marshal()
	tdest := &gogotypes.Timestamp{Seconds: 42, Nanos: 1}
	wdest := wrapperspb.String("previous")
	for _, c := range []dcase{
		{"gogo-plain", gdest, gbody, func() bool { return gogoproto.Equal(gdest, gsrc) }},
		{"googlev2", vdest, vbody, func() bool { return proto.Equal(vdest, vsrc) }},
		{"gogotypes", tdest, tbody, func() bool { return gogoproto.Equal(tdest, tsrc) }},
		{"googlev2-empty-payload", wdest, []byte{}, func() bool { return proto.Equal(wdest, &wrapperspb.StringValue{}) }},
	} {
		in := refBytes(3, c.body)
		sink.OracleN++
		got := func() (out string) {
			defer func() {
				if x := recover(); x != nil {
					out = "panic"
				}
			}()
			d := csproto.NewDecoder(in)
			if _, _, err := d.DecodeTag(); err != nil {
				return "tag-err"
			}
			if err := d.DecodeNested(c.dest); err != nil {
				return "err " + err.Error()
			}
			if d.Offset() != len(in) {
				return fmt.Sprintf("offset %d", d.Offset())
			}
			if !c.equal() {
				return fmt.Sprintf("not equal: %v", c.dest)
			}
			return "ok"
		}()
		if got != "ok" {
			fail("oracle", "DecodeNested into a destination that already held a message did not leave exactly the decoded message", c.name+" input="+hx.B(in), "equal to the encoded message", got, "nest-merge")
		}
	}
}
