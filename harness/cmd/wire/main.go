// Command wire: correspondence cases and property oracles for the hand-written wire codec
// (C01 C02 C03 C19).  For the chosen property it generates cases from one seeded PRNG, runs the
// real csproto code on each of them, writes the case lines for the extracted Coq model
// (cases.txt), the implementation's projected observables (impl.txt) and the verdicts of the
// property oracle evaluated directly on the implementation (summary.json).
package main

import (
	"bytes"
	"errors"
	"flag"
	"fmt"
	"io"
	"math"
	"os"
	"runtime"
	"strconv"
	"strings"

	"github.com/CrowdStrike/csproto"
	"google.golang.org/protobuf/encoding/protowire"
	"verif/harness/internal/hx"
)

var (
	sink     *hx.Sink
	prop     string
	thorough bool
)

func fail(kind, what, cs, exp, got, class string) {
	sink.Fail(hx.Failure{Property: prop, Kind: kind, What: what, Case: cs, Expected: exp, Got: got, Class: class})
}

// ---------- value / tag generators ----------

// every boundary of the encoded key size (field numbers 15|16, 2047|2048, 2^18-1|2^18, 2^25-1|2^25), the
// boundaries of the field number's own varint size (2^21, 2^28 ...) and the extremes
var tagList = []int{1, 2, 15, 16, 2047, 2048, 1<<18 - 1, 1 << 18, 1<<18 + 1, 1<<21 - 1, 1 << 21, 1<<25 - 1, 1 << 25, 1<<25 + 1, 1<<26 - 1, 1 << 26, 1 << 28, 1<<29 - 2, 1<<29 - 1}

func boundaryRaws(k kind) []uint64 {
	set := map[uint64]struct{}{}
	add := func(v uint64) { set[k.norm(v)] = struct{}{} }
	for b := uint(0); b < 64; b++ {
		p := uint64(1) << b
		add(p - 1)
		add(p)
		add(p + 1)
		add(-p)
		add(-p - 1)
		add(-p + 1)
	}
	for _, v := range []uint64{0, 1, math.MaxUint64, 1 << 63, 1<<63 - 1, 1 << 31, 1<<31 - 1, 1 << 32, 1<<32 - 1,
		0x7FC00000, 0xFFC00001, 0x7F800000, 0xFF800000, 0x80000000, // float32 NaN payloads, inf, -0
		0x7FF8000000000001, 0xFFF0000000000000, 0x8000000000000000, 0x7FF0000000000000} {
		add(v)
	}
	out := make([]uint64, 0, len(set))
	for v := range set {
		out = append(out, v)
	}
	sortU(out)
	return out
}

func sortU(a []uint64) {
	for i := 1; i < len(a); i++ {
		for j := i; j > 0 && a[j-1] > a[j]; j-- {
			a[j-1], a[j] = a[j], a[j-1]
		}
	}
}

func randRaw(r *hx.Rng, k kind) uint64 {
	// spread over bit lengths
	bitsN := uint(r.Intn(65))
	v := r.U64()
	if bitsN < 64 {
		v &= (uint64(1) << bitsN) - 1
	}
	if r.Intn(3) == 0 {
		v = -v
	}
	return k.norm(v)
}

func randTag(r *hx.Rng) int {
	if r.Intn(2) == 0 {
		return tagList[r.Intn(len(tagList))]
	}
	bitsN := uint(1 + r.Intn(29))
	t := int(r.U64() & ((1 << bitsN) - 1))
	if t < 1 {
		t = 1
	}
	return t
}

func lenList(r *hx.Rng) []int {
	// every length whose prefix is one byte, the lengths around the first multiples of 256 (a two-byte prefix whose
	// low group is 126/127/0/1), and the three-byte boundary
	l := []int{300, 16383, 16384}
	for i := 0; i <= 130; i++ {
		l = append(l, i)
	}
	for k := 1; k <= 4; k++ {
		l = append(l, k*256-2, k*256-1, k*256, k*256+1)
	}
	if thorough {
		for i := 131; i <= 2100; i++ {
			l = append(l, i)
		}
	}
	return l
}

// ---------- C01/C02: encoder exactness, sizes, round trip ----------

func encOne(stream string, o eop, refCheck bool) {
	pred := o.predicted()
	line := encLine(pred, []eop{o})
	res, buf, off := runEnc(pred, []eop{o})
	sink.Add(stream, line, res, true)
	sink.OracleN++
	if res == "panic" {
		fail("oracle", "encoder panicked on a buffer sized from the size helpers", line, "no panic", "panic", "enc-panic")
		return
	}
	if off != pred {
		fail("oracle", "bytes written differ from what the size helpers predicted", line, strconv.Itoa(pred), strconv.Itoa(off), "enc-size")
	}
	if refCheck {
		if ref := o.reference(); ref != nil && !bytes.Equal(buf[:min(off, len(buf))], ref) {
			fail("oracle", "encoder bytes differ from the protowire reference", line, hx.B(ref), hx.B(buf), "enc-ref")
		}
	}
	// the model's own size prediction and intended bytes (ties esize/ebytes to SizeOf* and protowire)
	sink.Add(stream+"-esz", "W ESZ "+o.token(), fmt.Sprintf("%d %s", pred, hx.B(buf[:min(off, len(buf))])), true)
	// one byte short: indexed writers must panic rather than overrun (scalars only; copy() truncates silently)
	if o.typ == 'S' && pred > 0 {
		l2 := encLine(pred-1, []eop{o})
		r2, _, _ := runEnc(pred-1, []eop{o})
		sink.Add(stream+"-short", l2, r2, true)
		if r2 != "panic" {
			fail("oracle", "encoder did not panic on a buffer one byte short", l2, "panic", r2, "enc-short")
		}
	}
}

// decode what was encoded, in both modes, with a prefix and a suffix around it
func roundTrip(stream string, o eop, r *hx.Rng) {
	pred := o.predicted()
	_, body, off := runEnc(pred, []eop{o})
	if off != pred {
		return // already reported by encOne
	}
	pre := r.Bytes(r.Intn(3))
	post := r.Bytes(r.Intn(3))
	buf := append(append(append([]byte{}, pre...), body...), post...)
	for _, fast := range []bool{false, true} {
		var ops []dop
		switch o.typ {
		case 'S':
			ops = []dop{{typ: 'T'}, {typ: 'S', k: o.k}}
		case 'B':
			if o.str {
				ops = []dop{{typ: 'T'}, {typ: 'G'}}
			} else {
				ops = []dop{{typ: 'T'}, {typ: 'Y'}}
			}
		case 'P':
			if len(o.raws) == 0 {
				continue
			}
			ops = []dop{{typ: 'T'}, {typ: 'P', k: o.k}}
		default:
			continue
		}
		step := 0
		line, impl, _ := runDec(fast, buf, len(pre), ops, func(d dop, ob decObs, dec *csproto.Decoder) {
			sink.OracleN++
			if ob.class != "ok" {
				fail("oracle", "decoder rejected what the encoder wrote", encLine(pred, []eop{o})+" / "+d.token(), "ok", ob.class+" "+fmt.Sprint(ob.err), "rt-reject")
				return
			}
			if step == 0 {
				want := fmt.Sprintf("t:%s/%s", hxU(uint64(o.tag)), hxU(uint64(wtOf(o))))
				if ob.val != want {
					fail("oracle", "DecodeTag returned a different key than written", encLine(pred, []eop{o}), want, ob.val, "rt-tag")
				}
			} else {
				want := expectVal(o)
				got := ob.val
				if o.typ == 'B' {
					got = strings.TrimSuffix(strings.TrimSuffix(got, ":a"), ":c")
				}
				if got != want {
					fail("oracle", "decoded value differs from the value written", encLine(pred, []eop{o}), want, got, "rt-value")
				}
				if ob.after != len(pre)+pred {
					fail("oracle", "decoder consumed a different number of bytes than were written", encLine(pred, []eop{o}), strconv.Itoa(len(pre)+pred), strconv.Itoa(ob.after), "rt-consume")
				}
			}
			step++
		})
		sink.Add(stream, line, impl, true)
	}
}

func wtOf(o eop) int {
	if o.typ == 'S' {
		return o.k.wt()
	}
	return 2
}
func expectVal(o eop) string {
	switch o.typ {
	case 'S':
		return "n:" + o.k.val(o.raw)
	case 'B':
		return "b:" + hx.B(o.b)
	case 'P':
		return "l:" + rawList(o.k, o.raws)
	}
	return ""
}

func streamScalars(r *hx.Rng, refCheck bool, rt bool) {
	for k := kind(0); k < nKinds; k++ {
		vals := boundaryRaws(k)
		nr := 150
		if thorough {
			nr = 3000
		}
		for i := 0; i < nr; i++ {
			vals = append(vals, randRaw(r, k))
		}
		for i, v := range vals {
			tags := []int{tagList[i%len(tagList)], randTag(r)}
			if i < 40 {
				tags = tagList
			}
			for _, t := range tags {
				o := eop{typ: 'S', k: k, tag: t, raw: v}
				encOne("scalar", o, refCheck)
				if rt {
					roundTrip("scalar-rt", o, r)
				}
			}
		}
		sink.Count("kind:" + k.String())
	}
}

func streamBytes(r *hx.Rng, refCheck bool, rt bool) {
	for _, n := range lenList(r) {
		for _, str := range []bool{false, true} {
			for rep := 0; rep < 1; rep++ {
				o := eop{typ: 'B', tag: randTag(r), b: r.Bytes(n), str: str}
				encOne("bytes", o, refCheck)
				if rt {
					roundTrip("bytes-rt", o, r)
				}
			}
		}
	}
	for i := 0; i < 60; i++ {
		o := eop{typ: 'B', tag: randTag(r), b: r.Bytes(r.Intn(40)), str: r.Bool()}
		encOne("bytes", o, refCheck)
		if rt {
			roundTrip("bytes-rt", o, r)
		}
	}
}

func streamPacked(r *hx.Rng, refCheck bool, rt bool) {
	for k := kind(0); k < nKinds; k++ {
		b := boundaryRaws(k)
		lists := [][]uint64{{}, {b[0]}, {b[len(b)-1]}}
		// every boundary value once, in chunks of 7
		for i := 0; i < len(b); i += 7 {
			lists = append(lists, b[i:min(i+7, len(b))])
		}
		for _, n := range []int{2, 15, 16, 17, 31, 32, 33, 127, 128, 129} {
			l := make([]uint64, n)
			for i := range l {
				l[i] = randRaw(r, k)
			}
			lists = append(lists, l)
		}
		// payloads of exactly 126..130 bytes (the length prefix grows at 128) whatever the kind: one-byte varints,
		// and for the fixed kinds the element counts that straddle 128 bytes
		for _, n := range []int{126, 127, 128, 129, 130} {
			l := make([]uint64, n)
			for i := range l {
				l[i] = uint64(i % 2)
			}
			lists = append(lists, l)
		}
		nr := 20
		if thorough {
			nr = 300
		}
		for i := 0; i < nr; i++ {
			l := make([]uint64, 1+r.Intn(12))
			for j := range l {
				l[j] = randRaw(r, k)
			}
			lists = append(lists, l)
		}
		for _, l := range lists {
			o := eop{typ: 'P', k: k, tag: randTag(r), raws: l}
			encOne("packed", o, refCheck)
			if rt {
				roundTrip("packed-rt", o, r)
			}
		}
	}
}

func streamMisc(r *hx.Rng) {
	for i := 0; i < 40; i++ {
		encOne("raw", eop{typ: 'R', b: r.Bytes(r.Intn(20))}, false)
		encOne("maphdr", eop{typ: 'M', tag: randTag(r), size: r.Intn(1 << uint(r.Intn(31)))}, false)
	}
	// sequences of ops into one exactly-sized buffer
	for i := 0; i < 80; i++ {
		n := 2 + r.Intn(5)
		ops := make([]eop, n)
		total := 0
		for j := range ops {
			switch r.Intn(4) {
			case 0:
				k := kind(r.Intn(int(nKinds)))
				ops[j] = eop{typ: 'S', k: k, tag: randTag(r), raw: randRaw(r, k)}
			case 1:
				ops[j] = eop{typ: 'B', tag: randTag(r), b: r.Bytes(r.Intn(10)), str: r.Bool()}
			case 2:
				k := kind(r.Intn(int(nKinds)))
				l := make([]uint64, r.Intn(5))
				for x := range l {
					l[x] = randRaw(r, k)
				}
				ops[j] = eop{typ: 'P', k: k, tag: randTag(r), raws: l}
			default:
				ops[j] = eop{typ: 'R', b: r.Bytes(r.Intn(6))}
			}
			total += ops[j].predicted()
		}
		line := encLine(total, ops)
		res, _, off := runEnc(total, ops)
		sink.Add("encseq", line, res, true)
		sink.OracleN++
		if res == "panic" || off != total {
			fail("oracle", "sequence of encoder calls did not fill the predicted buffer exactly", line, strconv.Itoa(total), res, "enc-seq")
		}
	}
	// size helpers on their own
	for b := uint(0); b < 64; b++ {
		for _, v := range []uint64{1<<b - 1, 1 << b, 1<<b + 1, r.U64() >> (63 - b)} {
			sink.Add("szv", "W SZV "+hxU(v), strconv.Itoa(csproto.SizeOfVarint(v)), true)
			sink.Add("szz", "W SZZ "+hxU(v), strconv.Itoa(csproto.SizeOfZigZag(v)), true)
			sink.OracleN++
			if got, want := csproto.SizeOfVarint(v), protowire.SizeVarint(v); got != want {
				fail("oracle", "SizeOfVarint differs from protowire.SizeVarint", hxU(v), strconv.Itoa(want), strconv.Itoa(got), "size-varint")
			}
			ev := make([]byte, 10)
			n := csproto.EncodeVarint(ev, v)
			sink.Add("ev", "W EV "+hxU(v), hx.B(ev[:n]), true)
			if !bytes.Equal(ev[:n], protowire.AppendVarint(nil, v)) {
				fail("oracle", "EncodeVarint differs from protowire.AppendVarint", hxU(v), hx.B(protowire.AppendVarint(nil, v)), hx.B(ev[:n]), "varint-ref")
			}
		}
	}
	for _, t := range tagList {
		sink.Add("szk", "W SZK "+hxU(uint64(t)), strconv.Itoa(csproto.SizeOfTagKey(t)), true)
		if got, want := csproto.SizeOfTagKey(t), protowire.SizeTag(protowire.Number(t)); got != want {
			fail("oracle", "SizeOfTagKey differs from protowire.SizeTag", strconv.Itoa(t), strconv.Itoa(want), strconv.Itoa(got), "size-key")
		}
	}
	for i := 0; i < 200; i++ {
		t := randTag(r)
		sink.Add("szk", "W SZK "+hxU(uint64(t)), strconv.Itoa(csproto.SizeOfTagKey(t)), true)
	}
}

// ---------- C02: decoder on reference encodings, Skip over field sequences ----------

// decode protowire-produced encodings (incl. 10-byte negatives, every tag) with the real decoder
func streamRefDecode(r *hx.Rng) {
	for k := kind(0); k < nKinds; k++ {
		vals := boundaryRaws(k)
		for i := 0; i < 100; i++ {
			vals = append(vals, randRaw(r, k))
		}
		for i, v := range vals {
			t := tagList[i%len(tagList)]
			if i%3 == 0 {
				t = randTag(r)
			}
			enc := refScalar(k, t, v)
			post := r.Bytes(r.Intn(3))
			buf := append(append([]byte{}, enc...), post...)
			for _, fast := range []bool{false, true} {
				step := 0
				line, impl, _ := runDec(fast, buf, 0, []dop{{typ: 'T'}, {typ: 'S', k: k}}, func(d dop, ob decObs, dec *csproto.Decoder) {
					sink.OracleN++
					if ob.class != "ok" {
						fail("oracle", "decoder rejected a canonical reference encoding", fmt.Sprintf("%s tag=%d v=%s bytes=%s", k, t, k.val(v), hx.B(enc)), "ok", ob.class+" "+fmt.Sprint(ob.err), "ref-reject")
					} else if step == 1 {
						if want := "n:" + k.val(v); ob.val != want || ob.after != len(enc) {
							fail("oracle", "decoder value/consumption differs from the reference", fmt.Sprintf("%s tag=%d bytes=%s", k, t, hx.B(enc)), want+"@"+strconv.Itoa(len(enc)), ob.val+"@"+strconv.Itoa(ob.after), "ref-value")
						}
					} else if want := fmt.Sprintf("t:%s/%s", hxU(uint64(t)), hxU(uint64(k.wt()))); ob.val != want {
						fail("oracle", "DecodeTag differs from the reference key", hx.B(enc), want, ob.val, "ref-tag")
					}
					step++
				})
				sink.Add("refdec", line, impl, true)
			}
		}
	}
}

type rfield struct {
	num int
	wt  int
	enc []byte
}

func randField(r *hx.Rng) rfield {
	num := randTag(r)
	switch r.Intn(4) {
	case 0:
		b := protowire.AppendTag(nil, protowire.Number(num), protowire.VarintType)
		return rfield{num, 0, protowire.AppendVarint(b, randRaw(r, kUInt64))}
	case 1:
		b := protowire.AppendTag(nil, protowire.Number(num), protowire.Fixed64Type)
		return rfield{num, 1, protowire.AppendFixed64(b, r.U64())}
	case 2:
		b := protowire.AppendTag(nil, protowire.Number(num), protowire.Fixed32Type)
		return rfield{num, 5, protowire.AppendFixed32(b, uint32(r.U64()))}
	}
	b := protowire.AppendTag(nil, protowire.Number(num), protowire.BytesType)
	n := r.Intn(12)
	if r.Intn(10) == 0 {
		n = 120 + r.Intn(20)
	}
	return rfield{num, 2, protowire.AppendBytes(b, r.Bytes(n))}
}

func streamSkip(r *hx.Rng) {
	n := 150
	if thorough {
		n = 2000
	}
	for i := 0; i < n; i++ {
		nf := 1 + r.Intn(8)
		if i%10 == 0 {
			nf = 20 + r.Intn(20)
		}
		fs := make([]rfield, nf)
		for j := range fs {
			fs[j] = randField(r)
		}
		skipCase(fs)
	}
	// systematic payload lengths of a length-delimited field between two other fields: every length up to 520
	// (thorough: 2100), the lengths around every multiple of 256 up to the three-byte length prefix, and that boundary
	top := 520
	if thorough {
		top = 2100
	}
	var lens []int
	for l := 0; l <= top; l++ {
		lens = append(lens, l)
	}
	step := 8
	if thorough {
		step = 1
	}
	for k := 3; k < 64; k += step {
		for _, d := range []int{-2, -1, 0, 1} {
			if l := k*256 + d; l > top {
				lens = append(lens, l)
			}
		}
	}
	lens = append(lens, 16382, 16383, 16384, 16385)
	for _, l := range lens {
		num := randTag(r)
		b := protowire.AppendTag(nil, protowire.Number(num), protowire.BytesType)
		mid := rfield{num, 2, protowire.AppendBytes(b, r.Bytes(l))}
		pre := rfield{1, 0, protowire.AppendVarint(protowire.AppendTag(nil, 1, protowire.VarintType), uint64(l))}
		post := rfield{2, 5, protowire.AppendFixed32(protowire.AppendTag(nil, 2, protowire.Fixed32Type), uint32(r.U64()))}
		skipCase([]rfield{pre, mid, post})
	}
}

func skipCase(fs []rfield) {
	nf := len(fs)
	var buf []byte
	for j := range fs {
		buf = append(buf, fs[j].enc...)
	}
	{
		for _, fast := range []bool{false, true} {
			var ops []dop
			for _, f := range fs {
				ops = append(ops, dop{typ: 'T'}, dop{typ: 'K', tag: f.num, wt: f.wt})
			}
			idx := 0
			var cat []byte
			line, impl, _ := runDec(fast, buf, 0, ops, func(d dop, ob decObs, dec *csproto.Decoder) {
				sink.OracleN++
				if ob.class != "ok" {
					fail("oracle", "DecodeTag/Skip failed on a well-formed field sequence", hx.B(buf), "ok", ob.class+" "+fmt.Sprint(ob.err), "skip-reject")
					return
				}
				if d.typ == 'K' {
					f := fs[idx]
					// independent end of field per protowire
					if !bytes.Equal(ob.bytes, f.enc) {
						fail("oracle", "Skip did not return the field's complete raw encoding", hx.B(buf)+" field "+strconv.Itoa(idx), hx.B(f.enc), hx.B(ob.bytes), "skip-raw")
					}
					cat = append(cat, ob.bytes...)
					idx++
				}
			})
			if idx == len(fs) && !bytes.Equal(cat, buf) {
				fail("oracle", "concatenation of skipped fields differs from the input", hx.B(buf), hx.B(buf), hx.B(cat), "skip-concat")
			}
			// cross-check field ends with protowire.ConsumeField
			p := buf
			for j := range fs {
				_, _, m := protowire.ConsumeField(p)
				if m != len(fs[j].enc) {
					hx.Must(fmt.Errorf("harness: protowire disagrees with the field generator"))
				}
				p = p[m:]
			}
			sink.Add("skip", line, impl, nf > 0)
		}
	}
}

// ---------- C03: arbitrary bytes ----------

var alphabet = []byte{0x00, 0x01, 0x02, 0x05, 0x07, 0x08, 0x0A, 0x0D, 0x09, 0x7F, 0x80, 0x81, 0xFF}

func allDops() []dop {
	ops := []dop{{typ: 'T'}, {typ: 'Y'}, {typ: 'G'}, {typ: 'N', nestedOK: true}, {typ: 'N', nestedOK: false}}
	for k := kind(0); k < nKinds; k++ {
		if k.hasScalarEncoder() {
			ops = append(ops, dop{typ: 'S', k: k}, dop{typ: 'P', k: k})
		}
	}
	for _, wt := range []int{0, 1, 2, 5, 3, 7} {
		ops = append(ops, dop{typ: 'K', tag: 1, wt: wt}, dop{typ: 'K', tag: 16, wt: wt})
	}
	return ops
}

// the C03 oracle for one executed op
func c03Oracle(buf []byte) func(d dop, ob decObs, dec *csproto.Decoder) {
	return func(d dop, ob decObs, dec *csproto.Decoder) {
		sink.OracleN++
		cs := fmt.Sprintf("buf=%s at=%d op=%s", hx.B(buf), ob.before, d.token())
		sink.Count("outcome:" + ob.class)
		if ob.class == "panic" {
			fail("oracle", "decoder call panicked", cs, "error or value", "panic: "+ob.val, "dec-panic")
			return
		}
		if off := dec.Offset(); off < 0 || off > len(buf) {
			fail("oracle", "cursor left [0, len(input)]", cs, "0.."+strconv.Itoa(len(buf)), strconv.Itoa(off), "dec-cursor")
			return
		}
		if ob.class != "ok" || ob.before > len(buf) {
			return
		}
		rest := buf[ob.before:]
		want := -1
		switch d.typ {
		case 'T':
			_, n := protowire.ConsumeVarint(rest)
			want = n
		case 'S':
			if w := d.k.width(); w > 0 {
				want = w
			} else {
				want = varintLen(rest)
			}
		case 'Y', 'G', 'N', 'P':
			l, n := consumeVarintLenient(rest)
			want = n + int(l)
			if d.typ == 'P' && ob.nElems > int(l) {
				fail("oracle", "packed reader produced more elements than bytes consumed", cs, "<= "+strconv.Itoa(int(l)), strconv.Itoa(ob.nElems), "dec-alloc")
			}
		case 'K':
			switch d.wt {
			case 0:
				want = varintLen(rest)
			case 1:
				want = 8
			case 5:
				want = 4
			case 2:
				l, n := consumeVarintLenient(rest)
				want = n + int(l)
			}
			if ob.bytes != nil {
				end := ob.after
				start := end - len(ob.bytes)
				if start < 0 || !bytes.Equal(ob.bytes, buf[start:end]) {
					fail("oracle", "Skip returned bytes that are not the input up to the cursor", cs, "", hx.B(ob.bytes), "skip-slice")
				}
			}
		}
		if want >= 0 && ob.after-ob.before != want {
			fail("oracle", "successful call advanced the cursor by something other than the item's length", cs, strconv.Itoa(want), strconv.Itoa(ob.after-ob.before), "dec-advance")
		}
		if d.typ == 'N' && ob.nested != nil && ob.nested.calls != 1 {
			fail("oracle", "DecodeNested succeeded without calling the nested unmarshaler once", cs, "1", strconv.Itoa(ob.nested.calls), "nested-calls")
		}
	}
}

func varintLen(p []byte) int {
	for i, b := range p {
		if b < 0x80 {
			return i + 1
		}
	}
	return -1
}

// value (mod 2^64, bits beyond 64 dropped) and length of the varint at p
func consumeVarintLenient(p []byte) (uint64, int) {
	var v uint64
	for i, b := range p {
		if i < 10 {
			v |= uint64(b&0x7f) << (7 * uint(i))
		}
		if b < 0x80 {
			return v, i + 1
		}
	}
	return 0, -1
}

func streamExhaustive(maxLen int) {
	ops := allDops()
	var rec func(cur []byte)
	rec = func(cur []byte) {
		if len(cur) > 0 {
			buf := append([]byte{}, cur...)
			for start := 0; start <= len(buf); start++ {
				for _, fast := range []bool{false, true} {
					for _, o := range ops {
						line, impl, _ := runDec(fast, buf, start, []dop{o}, c03Oracle(buf))
						sink.Add("exhaustive", line, impl, start < len(buf))
					}
				}
			}
		}
		if len(cur) == maxLen {
			return
		}
		for _, a := range alphabet {
			rec(append(cur, a))
		}
	}
	rec(nil)
}

// shape-exhaustive varints: continuation runs 0..11 x terminators x trailing bytes, as key, length, value
func streamVarintShapes(r *hx.Rng) {
	ops := allDops()
	for run := 0; run <= 11; run++ {
		for _, c := range []byte{0x80, 0x81, 0xFF} {
			for _, t := range []byte{0x00, 0x01, 0x02, 0x7F} {
				for _, trail := range []int{0, 1, 4, 10} {
					buf := bytes.Repeat([]byte{c}, run)
					buf = append(buf, t)
					buf = append(buf, r.Bytes(trail)...)
					for _, fast := range []bool{false, true} {
						for _, o := range ops {
							line, impl, _ := runDec(fast, buf, 0, []dop{o}, c03Oracle(buf))
							sink.Add("varint-shapes", line, impl, true)
						}
					}
				}
			}
		}
	}
}

func randValidMessage(r *hx.Rng, nf int) []byte {
	var buf []byte
	for j := 0; j < nf; j++ {
		buf = append(buf, randField(r).enc...)
	}
	return buf
}

func randDop(r *hx.Rng, buflen int) dop {
	switch r.Intn(14) {
	case 0, 1, 2:
		return dop{typ: 'T'}
	case 3:
		k := kind(r.Intn(int(nKinds)))
		for !k.hasScalarEncoder() {
			k = kind(r.Intn(int(nKinds)))
		}
		return dop{typ: 'S', k: k}
	case 4:
		return dop{typ: 'Y'}
	case 5:
		return dop{typ: 'G'}
	case 6:
		k := kind(r.Intn(int(nKinds)))
		for !k.hasScalarEncoder() {
			k = kind(r.Intn(int(nKinds)))
		}
		return dop{typ: 'P', k: k}
	case 7:
		return dop{typ: 'N', nestedOK: r.Bool()}
	case 8, 9:
		wts := []int{0, 1, 2, 5, 3, 4, 6, 7, -1, 8}
		tag := randTag(r)
		if r.Intn(8) == 0 {
			tag = []int{0, -1, math.MaxInt64, math.MinInt64, 1 << 40}[r.Intn(5)]
		}
		return dop{typ: 'K', tag: tag, wt: wts[r.Intn(len(wts))]}
	case 10, 11:
		offs := []int64{0, 1, -1, int64(buflen), int64(buflen) + 1, int64(buflen) - 1, math.MaxInt64, math.MinInt64, int64(r.Intn(buflen + 2)), -int64(r.Intn(buflen + 2))}
		return dop{typ: 'Z', o: offs[r.Intn(len(offs))], whence: []int{0, 1, 2, 3, -1}[r.Intn(5)]}
	case 12:
		return dop{typ: 'R'}
	}
	return dop{typ: 'M', fast: r.Bool()}
}

func streamSequences(r *hx.Rng, n, maxOps int) {
	for i := 0; i < n; i++ {
		buf := randValidMessage(r, 1+r.Intn(6))
		switch r.Intn(5) {
		case 0: // truncate
			buf = buf[:r.Intn(len(buf)+1)]
		case 1: // mutate a byte
			if len(buf) > 0 {
				j := r.Intn(len(buf))
				buf[j] = []byte{buf[j] + 1, buf[j] - 1, buf[j] ^ 0x80, 0xFF, 0x00}[r.Intn(5)]
			}
		case 2: // random
			buf = r.Bytes(r.Intn(24))
		}
		ops := make([]dop, 1+r.Intn(maxOps))
		for j := range ops {
			ops[j] = randDop(r, len(buf))
		}
		line, impl, _ := runDec(r.Bool(), buf, r.Intn(len(buf)+1), ops, c03Oracle(buf))
		sink.Add("sequences", line, impl, len(ops) >= 2 && len(buf) > 0)
	}
}

// structured walk: on a valid message, follow DecodeTag with the matching typed reader
func streamGuidedMutations(r *hx.Rng, n int) {
	for i := 0; i < n; i++ {
		base := randValidMessage(r, 1+r.Intn(5))
		variants := [][]byte{base}
		for cut := 0; cut < len(base); cut++ {
			if thorough || r.Intn(3) == 0 {
				variants = append(variants, base[:cut])
			}
		}
		for j := 0; j < len(base); j++ {
			if thorough || r.Intn(4) == 0 {
				m := append([]byte{}, base...)
				m[j] = []byte{m[j] + 1, m[j] ^ 0x80, 0xFF, 0x00}[r.Intn(4)]
				variants = append(variants, m)
			}
		}
		for _, buf := range variants {
			d := csproto.NewDecoder(buf)
			var ops []dop
			// derive the op list by walking with the real decoder (skip by wire type)
			for steps := 0; steps < 12 && d.More(); steps++ {
				tag, wt, err := d.DecodeTag()
				ops = append(ops, dop{typ: 'T'})
				if err != nil {
					break
				}
				var o dop
				switch {
				case wt == 2 && r.Intn(3) == 0:
					o = dop{typ: 'Y'}
				case wt == 2 && r.Intn(2) == 0:
					k := []kind{kBool, kInt32, kUInt64, kSInt64, kFixed32, kFloat, kDouble, kFixed64}[r.Intn(8)]
					o = dop{typ: 'P', k: k}
				case wt == 0 && r.Intn(2) == 0:
					o = dop{typ: 'S', k: []kind{kBool, kInt32, kInt64, kUInt32, kUInt64, kSInt32, kSInt64}[r.Intn(7)]}
				case wt == 5 && r.Intn(2) == 0:
					o = dop{typ: 'S', k: []kind{kFixed32, kFloat}[r.Intn(2)]}
				case wt == 1 && r.Intn(2) == 0:
					o = dop{typ: 'S', k: []kind{kFixed64, kDouble}[r.Intn(2)]}
				default:
					o = dop{typ: 'K', tag: tag, wt: int(wt)}
				}
				ops = append(ops, o)
				func() {
					defer func() { _ = recover() }()
					execDec(d, buf, o)
				}()
			}
			if len(ops) == 0 {
				continue
			}
			line, impl, _ := runDec(r.Bool(), buf, 0, ops, c03Oracle(buf))
			sink.Add("guided", line, impl, len(buf) > 0)
		}
	}
}

// length-prefix inflation with a memory bound
func streamInflation(r *hx.Rng) {
	lens := []uint64{1, 2, 127, 128, 1<<31 - 1, 1 << 31, 1<<32 - 1, 1 << 32, 1 << 62, 1 << 63, math.MaxUint64}
	ops := []dop{{typ: 'Y'}, {typ: 'G'}, {typ: 'N', nestedOK: true}, {typ: 'K', tag: 1, wt: 2}}
	for k := kind(0); k < nKinds; k++ {
		if k.hasScalarEncoder() {
			ops = append(ops, dop{typ: 'P', k: k})
		}
	}
	for _, l := range lens {
		for _, avail := range []int{0, 1, 3, 4, 7, 8, 9, 64} {
			buf := append([]byte{0x0A}, protowire.AppendVarint(nil, l)...)
			buf = append(buf, r.Bytes(avail)...)
			for _, fast := range []bool{false, true} {
				for _, o := range ops {
					var ms0, ms1 runtime.MemStats
					runtime.ReadMemStats(&ms0)
					line, impl, _ := runDec(fast, buf, 1, []dop{o}, c03Oracle(buf))
					runtime.ReadMemStats(&ms1)
					sink.OracleN++
					if grew := ms1.TotalAlloc - ms0.TotalAlloc; grew > uint64(64*len(buf)+16384) {
						fail("oracle", "allocation out of proportion to the input", line, "<= "+strconv.Itoa(64*len(buf)+16384), strconv.FormatUint(grew, 10), "dec-alloc")
					}
					sink.Add("inflation", line, impl, true)
					if uint64(avail) < l {
						sink.OracleN++
						if !strings.HasPrefix(impl, "err") {
							fail("oracle", "declared length beyond the remaining input was not reported as an error", line, "err", impl, "dec-overrun")
						}
					}
				}
			}
		}
	}
}

// ---------- C19: nested messages ----------

var errSentinel = errors.New("sentinel nested failure")

type nmTo struct {
	b    []byte
	fail bool
	size int // what Size() reports
}

func (m *nmTo) Size() int { return m.size }
func (m *nmTo) MarshalTo(dest []byte) error {
	if m.fail {
		return errSentinel
	}
	for i, x := range m.b { // indexed stores, as generated code does through an Encoder
		dest[i] = x
	}
	return nil
}
func (m *nmTo) Marshal() ([]byte, error) {
	if m.fail {
		return nil, errSentinel
	}
	return append([]byte(nil), m.b...), nil
}

type nmMarshal struct { // Marshal + Size
	b    []byte
	fail bool
}

func (m *nmMarshal) Size() int { return len(m.b) }
func (m *nmMarshal) Marshal() ([]byte, error) {
	if m.fail {
		return nil, errSentinel
	}
	return append([]byte(nil), m.b...), nil
}

type nmMarshalOnly struct { // Marshal, no Size
	b    []byte
	fail bool
}

func (m *nmMarshalOnly) Marshal() ([]byte, error) {
	if m.fail {
		return nil, errSentinel
	}
	return append([]byte(nil), m.b...), nil
}

func nestCase(stream, flav string, tag int, m interface{}, body []byte, failing bool, r *hx.Rng) {
	msize := csproto.Size(m)
	pre := []eop{}
	post := []eop{}
	if r.Intn(2) == 0 {
		pre = append(pre, eop{typ: 'S', k: kUInt32, tag: 1, raw: uint64(r.Intn(1000))})
	}
	if r.Intn(2) == 0 {
		post = append(post, eop{typ: 'B', tag: 9, b: r.Bytes(r.Intn(4))})
	}
	want, _ := csproto.Marshal(m)
	if failing {
		want = nil
	} else if !bytes.Equal(want, body) {
		hx.Must(fmt.Errorf("harness: csproto.Marshal of the %s probe differs from its body", flav))
	}
	exp := refBytes(tag, body)
	total := len(exp)
	for _, o := range append(append([]eop{}, pre...), post...) {
		total += o.predicted()
	}
	buf := make([]byte, total)
	for i := range buf {
		buf[i] = fill
	}
	var res string
	var retErr error
	off := -1
	startOff := 0
	func() {
		defer func() {
			if x := recover(); x != nil {
				res = "panic"
			}
		}()
		e := csproto.NewEncoder(buf)
		for _, o := range pre {
			o.apply(e)
		}
		startOff = e.VerifOffset()
		retErr = e.EncodeNested(tag, m)
		afterNested := e.VerifOffset()
		sink.OracleN++
		if retErr == nil {
			if failing {
				fail("oracle", "error of the nested marshaler was swallowed", flav, "error", "nil", "nest-err")
			}
			if !bytes.Equal(buf[startOff:min(afterNested, len(buf))], exp) || afterNested-startOff != len(exp) {
				fail("oracle", "EncodeNested did not write key+length+Marshal(m) and advance by exactly that", fmt.Sprintf("%s tag=%d body=%s", flav, tag, hx.B(body)), hx.B(exp), hx.B(buf[startOff:min(afterNested, len(buf))])+"@"+strconv.Itoa(afterNested-startOff), "nest-bytes")
			}
			for _, o := range post {
				o.apply(e)
			}
			off = e.VerifOffset()
		} else if !failing || !errors.Is(retErr, errSentinel) {
			fail("oracle", "EncodeNested returned an unexpected error", flav, "nil or the sentinel", fmt.Sprint(retErr), "nest-err")
		}
	}()
	// model case: only the EncodeNested call itself, on a buffer with the exact room
	mres := hx.B(body)
	if failing {
		mres = "E"
	}
	room := len(exp)
	nb := make([]byte, room)
	for i := range nb {
		nb[i] = fill
	}
	var implRes string
	func() {
		defer func() {
			if x := recover(); x != nil {
				implRes = "panic"
			}
		}()
		e := csproto.NewEncoder(nb)
		err := e.EncodeNested(tag, m)
		if err == nil {
			implRes = "nil " + hx.B(nb) + " " + strconv.Itoa(e.VerifOffset())
		} else {
			implRes = "error " + hx.B(nb) + " " + strconv.Itoa(e.VerifOffset())
		}
	}()
	_ = res
	_ = off
	sink.Add(stream, fmt.Sprintf("W NEST %d %s %s %d %s", room, hxU(uint64(tag)), flav, msize, mres), implRes, true)
	if failing {
		return
	}
	// decode it back
	full := append(append([]byte{}, nb...), r.Bytes(r.Intn(3))...)
	for _, ok := range []bool{true, false} {
		for _, fast := range []bool{false, true} {
			step := 0
			line, impl, _ := runDec(fast, full, 0, []dop{{typ: 'T'}, {typ: 'N', nestedOK: ok}}, func(d dop, ob decObs, dec *csproto.Decoder) {
				sink.OracleN++
				if step == 1 {
					if !bytes.Equal(ob.nested.got, body) || ob.nested.calls != 1 {
						fail("oracle", "DecodeNested did not hand exactly the declared bytes to the nested unmarshaler", hx.B(full), hx.B(body), hx.B(ob.nested.got), "nest-dec-bytes")
					}
					if ok && (ob.class != "ok" || ob.after != len(nb)) {
						fail("oracle", "DecodeNested did not consume exactly the declared length", hx.B(full), strconv.Itoa(len(nb)), ob.class+"@"+strconv.Itoa(ob.after), "nest-dec-adv")
					}
					if !ok && (ob.class != "err" || !errors.Is(ob.err, errNested) || ob.after != ob.before) {
						fail("oracle", "nested unmarshal error not propagated / cursor moved", hx.B(full), "err@"+strconv.Itoa(ob.before), ob.class+"@"+strconv.Itoa(ob.after), "nest-dec-err")
					}
				}
				step++
			})
			sink.Add(stream+"-dec", line, impl, true)
		}
	}
	// declared length beyond the buffer: rejected without invoking the nested decoder
	if len(nb) > 2 {
		// ... in both modes, for a view with spare capacity behind it (the bytes are there, but not part of the input)
		// and for a buffer that ends where the input ends
		for vi, cut := range [][]byte{nb[:len(nb)-1], append(make([]byte, 0, len(nb)-1), nb[:len(nb)-1]...), nb[:len(nb)-1-r.Intn(min(len(body), 3))]} {
			if len(body) == 0 {
				break
			}
			for _, fast := range []bool{false, true} {
				cut := cut
				line, impl, _ := runDec(fast, cut, 0, []dop{{typ: 'T'}, {typ: 'N', nestedOK: true}}, func(d dop, ob decObs, dec *csproto.Decoder) {
					if d.typ == 'N' {
						sink.OracleN++
						if ob.class != "err" || ob.nested.calls != 0 || ob.after > len(cut) {
							fail("oracle", "declared length beyond the buffer not rejected before calling the nested decoder", fmt.Sprintf("%s fast=%v view=%d", hx.B(cut), fast, vi), "err, 0 calls", fmt.Sprintf("%s, %d calls, offset %d", ob.class, ob.nested.calls, ob.after), "nest-dec-overrun")
						}
					}
				})
				sink.Add(stream+"-overrun", line, impl, true)
			}
		}
	}
}

// declared lengths far beyond any buffer, up to the point where offset + length wraps around: rejected, in both modes,
// without calling the nested decoder and without a panic
func streamNestedHugeLengths(r *hx.Rng) {
	lens := []uint64{1 << 31, 1<<31 - 1, 1 << 32, 1 << 40, 1<<62 + 5, 1<<63 - 1, 1<<63 - 2, 1<<63 - 3, 1<<63 - 4, 1<<63 - 8, 1<<63 - 12, 1<<63 - 16, 1 << 63, 1<<64 - 1, 1<<64 - 2, 1<<64 - 9}
	for _, l := range lens {
		for _, pad := range []int{0, 1, 5, 11} {
			buf := protowire.AppendVarint(protowire.AppendTag(r.Bytes(0), protowire.Number(randTag(r)), protowire.BytesType), l)
			buf = append(buf, r.Bytes(pad)...)
			for _, fast := range []bool{false, true} {
				line, impl, _ := runDec(fast, buf, 0, []dop{{typ: 'T'}, {typ: 'N', nestedOK: true}}, func(d dop, ob decObs, dec *csproto.Decoder) {
					if d.typ == 'N' {
						sink.OracleN++
						if ob.class != "err" || ob.nested.calls != 0 || ob.after > len(buf) {
							fail("oracle", "declared length beyond the buffer not rejected before calling the nested decoder", fmt.Sprintf("%s fast=%v", hx.B(buf), fast), "err, 0 calls", fmt.Sprintf("%s, %d calls, offset %d", ob.class, ob.nested.calls, ob.after), "nest-dec-overrun")
						}
					}
				})
				sink.Add("nested-overrun", line, impl, true)
			}
		}
	}
}

func streamNested(r *hx.Rng) {
	streamNestedHugeLengths(r.Fork("huge"))
	bodies := [][]byte{{}, {0x08, 0x01}, r.Bytes(5), r.Bytes(127), r.Bytes(128), r.Bytes(300)}
	for i := 0; i < 20; i++ {
		bodies = append(bodies, randValidMessage(r, 1+r.Intn(4)))
	}
	for _, b := range bodies {
		for _, failing := range []bool{false, true} {
			tag := randTag(r)
			nestCase("nested-to", "to", tag, &nmTo{b: b, fail: failing, size: len(b)}, b, failing, r)
			nestCase("nested-marshal", "m", tag, &nmMarshal{b: b, fail: failing}, b, failing, r)
			nestCase("nested-marshalonly", "m", tag, &nmMarshalOnly{b: b, fail: failing}, b, failing, r)
		}
	}
	runtimeNestedHistories(r.Fork("rthist"))
	runtimeNested(r)
}

func main() {
	out := flag.String("out", "", "output directory")
	tier := flag.String("tier", "quick", "quick|thorough")
	flag.StringVar(&prop, "prop", "C01", "property")
	seed := flag.Uint64("seed", hx.SeedFromEnv(), "seed")
	flag.Parse()
	thorough = *tier == "thorough"
	sink = hx.NewSink()
	hx.InflightOpen(*out)
	r := hx.NewRng(*seed).Fork(prop)
	switch prop {
	case "C01":
		streamScalars(r.Fork("scalars"), false, true)
		streamBytes(r.Fork("bytes"), false, true)
		streamPacked(r.Fork("packed"), false, true)
		streamMisc(r.Fork("misc"))
	case "C02":
		// (every canonical encoding is also decoded back, in both modes: conformance is about reading what conforming
		// writers emit as much as about writing it)
		streamScalars(r.Fork("scalars"), true, true)
		streamBytes(r.Fork("bytes"), true, true)
		streamPacked(r.Fork("packed"), true, true)
		streamRefDecode(r.Fork("refdec"))
		streamSkip(r.Fork("skip"))
	case "C03":
		if thorough {
			streamExhaustive(4)
		} else {
			streamExhaustive(3)
		}
		streamVarintShapes(r.Fork("shapes"))
		n := 1500
		if thorough {
			n = 30000
		}
		streamSequences(r.Fork("seq"), n, map[bool]int{false: 6, true: 12}[thorough])
		streamGuidedMutations(r.Fork("guided"), map[bool]int{false: 60, true: 600}[thorough])
		streamInflation(r.Fork("inflate"))
	case "C19":
		streamNested(r.Fork("nested"))
	default:
		fmt.Fprintln(os.Stderr, "unknown property", prop)
		os.Exit(2)
	}
	hx.Must(sink.Write(*out))
	hx.InflightDone(*out)
	_ = io.EOF
}
