package main

import (
	"fmt"
	"go/ast"
	"go/constant"
	"go/token"
	"go/types"
	"strings"
)

type env []string

func (e env) has(n string) bool {
	for _, x := range e {
		if x == n {
			return true
		}
	}
	return false
}

func (t *tr) ret(x string) string {
	if t.pure {
		return x
	}
	return "(Val " + x + ")"
}

func (t *tr) withPre(n ast.Node, pre []hoist, body string) string {
	if len(pre) > 0 && t.pure {
		fail(t, n, "internal: hoisted read in a pure function")
	}
	for i := len(pre) - 1; i >= 0; i-- {
		body = fmt.Sprintf("(gbind %s (fun %s =>\n  %s))", pre[i].code, pre[i].name, body)
	}
	return body
}

func (t *tr) call(x *ast.CallExpr, tv types.TypeAndValue, pre *[]hoist, underSC bool) string {
	if ftv, ok := t.info.Types[x.Fun]; ok && ftv.IsType() {
		it, ok := t.intType(ftv.Type)
		if !ok || len(x.Args) != 1 {
			fail(t, x, "conversion to %s", ftv.Type)
		}
		if _, ok := t.intType(t.info.Types[x.Args[0]].Type); !ok {
			fail(t, x, "conversion from %s", t.info.Types[x.Args[0]].Type)
		}
		return wrap(it, t.expr(x.Args[0], pre, underSC))
	}
	if sel, ok := x.Fun.(*ast.SelectorExpr); ok {
		if p, ok := sel.X.(*ast.Ident); ok && p.Name == "fmt" && sel.Sel.Name == "Errorf" {
			if pn, ok := t.info.Uses[p].(*types.PkgName); ok && pn.Imported().Path() == "fmt" {
				// an opaque non-nil error named after its format; the arguments are evaluated (they must be free of
				// index / slice reads, which could panic) and dropped
				ftv := t.info.Types[x.Args[0]]
				if ftv.Value == nil {
					fail(t, x, "fmt.Errorf with a non-constant format")
				}
				for _, a := range x.Args[1:] {
					var scratch []hoist
					t.expr(a, &scratch, true)
				}
				return "(Some " + coqString("fmt.Errorf: "+constant.StringVal(ftv.Value)) + ")"
			}
		}
	}
	var args []string
	for _, a := range x.Args {
		args = append(args, t.expr(a, pre, underSC))
	}
	switch f := x.Fun.(type) {
	case *ast.Ident:
		if f.Name == "len" && len(args) == 1 {
			if _, isb := t.info.Uses[f].(*types.Builtin); isb {
				return "(go_len " + args[0] + ")"
			}
		}
		if _, isf := t.info.Uses[f].(*types.Func); isf && t.want[f.Name] {
			if _, done := t.eff[f.Name]; !done {
				fail(t, x, "call of %s before its translation (order the function list)", f.Name)
			}
			if t.eff[f.Name] || len(t.mut[f.Name]) > 0 || len(t.mutF[f.Name]) > 0 {
				fail(t, x, "call of effectful %s inside an expression", f.Name)
			}
			return "(go_" + f.Name + " " + strings.Join(args, " ") + ")"
		}
	case *ast.SelectorExpr:
		if p, ok := f.X.(*ast.Ident); ok && p.Name == "math" && len(args) == 1 {
			if pn, ok := t.info.Uses[p].(*types.PkgName); ok && pn.Imported().Path() == "math" {
				switch f.Sel.Name {
				case "Float32frombits", "Float64frombits", "Float32bits", "Float64bits":
					return args[0] // floats are carried as their bit patterns
				}
			}
		}
		if le, ok := f.X.(*ast.SelectorExpr); ok && le.Sel.Name == "LittleEndian" && len(args) == 1 {
			if p, ok := le.X.(*ast.Ident); ok {
				if pn, ok := t.info.Uses[p].(*types.PkgName); ok && pn.Imported().Path() == "encoding/binary" {
					w := map[string]string{"Uint32": "4", "Uint64": "8", "Uint16": "2"}[f.Sel.Name]
					if w != "" {
						if underSC {
							fail(t, x, "binary.LittleEndian read under && or ||")
						}
						t.tmp++
						n := fmt.Sprintf("t%d", t.tmp)
						*pre = append(*pre, hoist{n, "(go_le_get " + w + " " + args[0] + ")"})
						return n
					}
				}
			}
		}
		if p, ok := f.X.(*ast.Ident); ok && p.Name == "bits" && f.Sel.Name == "Len64" {
			if pn, ok := t.info.Uses[p].(*types.PkgName); ok && pn.Imported().Path() == "math/bits" {
				return "(go_bits_Len64 " + args[0] + ")"
			}
		}
	}
	fail(t, x, "unsupported call")
	return ""
}

// effCall: e is a call of a translated function or method (on the current receiver) that is effectful or writes through
// its parameters / receiver -> its code and the caller variables that receive what it wrote, else ""
func (t *tr) effCall(e ast.Expr, pre *[]hoist) (string, []string, []string) {
	c, ok := e.(*ast.CallExpr)
	if !ok {
		return "", nil, nil
	}
	key := t.calleeKey(c)
	if key == "" || !t.want[key] {
		return "", nil, nil
	}
	if _, done := t.eff[key]; !done {
		fail(t, e, "call of %s before its translation (order the function list)", key)
	}
	if !t.eff[key] && len(t.mut[key]) == 0 && len(t.mutF[key]) == 0 {
		return "", nil, nil // pure: an ordinary expression
	}
	var muts, posts []string
	sub := map[int]string{} // argument index -> the hoisted sub-slice handed to the callee
	for _, i := range t.mut[key] {
		switch a := c.Args[i].(type) {
		case *ast.Ident:
			muts = append(muts, v(a.Name))
		case *ast.SliceExpr:
			// x[lo:] handed to a callee that writes through it: the callee's writes land in x from lo on
			if a.High != nil || a.Slice3 || a.Low == nil {
				fail(t, e, "argument %d of %s is written by the callee: only x[lo:] is supported", i, key)
			}
			base := lhsName(t, a.X)
			lo := t.expr(a.Low, pre, false)
			t.tmp++
			tlo := fmt.Sprintf("t%d", t.tmp)
			*pre = append(*pre, hoist{tlo, "(Val " + lo + ")"})
			t.tmp++
			ts := fmt.Sprintf("t%d", t.tmp)
			*pre = append(*pre, hoist{ts, fmt.Sprintf("(go_slice %s %s (go_len %s))", base, tlo, base)})
			sub[i] = ts
			t.tmp++
			back := fmt.Sprintf("t%d", t.tmp)
			muts = append(muts, back)
			posts = append(posts, fmt.Sprintf("let %s := (go_splice %s %s %s) in", base, base, tlo, back))
		default:
			fail(t, e, "argument %d of %s is written by the callee and must be a variable or x[lo:]", i, key)
		}
	}
	var args []string
	if strings.Contains(key, ".") {
		for _, f := range t.recvFields {
			args = append(args, v(t.recvName+"."+f.Name()))
		}
		for _, f := range t.mutF[key] {
			muts = append(muts, v(t.recvName+"."+f))
		}
	}
	for i, a := range c.Args {
		if s, ok := sub[i]; ok {
			args = append(args, s)
			continue
		}
		args = append(args, t.expr(a, pre, false))
	}
	fuel := ""
	if t.eff[key] {
		if t.pure {
			fail(t, e, "effectful call in a pure function")
		}
		fuel = "fuel "
	}
	code := "(" + coqName(key) + " " + fuel + strings.Join(args, " ") + ")"
	if !t.eff[key] {
		code = "(Val " + code + ")"
	}
	return code, muts, posts
}

// pack: a function that writes through slice parameters returns them after its results
func (t *tr) pack(r string) string {
	if len(t.curMut) == 0 {
		return r
	}
	return "(" + r + ", " + strings.Join(t.curMut, ", ") + ")"
}

func tuple(names []string) string {
	if len(names) == 1 {
		return names[0]
	}
	return "(" + strings.Join(names, ", ") + ")"
}
func letPat(names []string, rhs, body string) string {
	if len(names) == 1 {
		return fmt.Sprintf("let %s := %s in\n  %s", names[0], rhs, body)
	}
	return fmt.Sprintf("let '%s := %s in\n  %s", tuple(names), rhs, body)
}

func (t *tr) define(id *ast.Ident, e env) env {
	if id.Name == "_" {
		return e
	}
	if t.info.Defs[id] != nil {
		if e.has(id.Name) {
			fail(t, id, "redeclaration / shadowing of %s", id.Name)
		}
		return append(append(env{}, e...), id.Name)
	}
	return e
}

func lhsName(t *tr, x ast.Expr) string {
	if sel, ok := x.(*ast.SelectorExpr); ok {
		if id, ok := sel.X.(*ast.Ident); ok && t.recvName != "" && id.Name == t.recvName {
			return v(t.recvName + "." + sel.Sel.Name)
		}
	}
	id, ok := x.(*ast.Ident)
	if !ok {
		fail(t, x, "unsupported assignment target")
	}
	if id.Name == "_" {
		return "_"
	}
	return v(id.Name)
}

func (t *tr) block(stmts []ast.Stmt, e env, retf func(string) string, k func(env) string) string {
	if len(stmts) == 0 {
		return k(e)
	}
	s := stmts[0]
	rest := func(e2 env) string { return t.block(stmts[1:], e2, retf, k) }
	switch x := s.(type) {
	case *ast.BlockStmt:
		return t.block(x.List, e, retf, func(env) string { return rest(e) })
	case *ast.EmptyStmt:
		return rest(e)
	case *ast.AssignStmt:
		return t.assign(x, e, rest)
	case *ast.IncDecStmt:
		it, ok := t.intType(t.info.Types[x.X].Type)
		if !ok {
			fail(t, x, "++/-- on %s", t.info.Types[x.X].Type)
		}
		n := lhsName(t, x.X)
		op := " + 1"
		if x.Tok == token.DEC {
			op = " - 1"
		}
		return letPat([]string{n}, wrap(it, "("+n+op+")"), rest(e))
	case *ast.DeclStmt:
		gd, ok := x.Decl.(*ast.GenDecl)
		if !ok || gd.Tok != token.VAR {
			fail(t, x, "unsupported declaration")
		}
		e2 := e
		var names, vals []string
		var pre []hoist
		for _, sp := range gd.Specs {
			vs := sp.(*ast.ValueSpec)
			for i, id := range vs.Names {
				e2 = t.define(id, e2)
				names = append(names, v(id.Name))
				if len(vs.Values) > i {
					vals = append(vals, t.expr(vs.Values[i], &pre, false))
				} else {
					vals = append(vals, t.zero(id, t.info.Defs[id].Type()))
				}
			}
		}
		return t.withPre(x, pre, letPat(names, tuple(vals), rest(e2)))
	case *ast.SwitchStmt:
		if x.Init != nil {
			fail(t, x, "switch with init statement")
		}
		var pre []hoist
		tag := ""
		if x.Tag != nil {
			tag = t.expr(x.Tag, &pre, false)
		}
		return t.withPre(x, pre, t.join(e, rest, func(after func(env) string) string {
			var def *ast.CaseClause
			type arm struct{ cond, body string }
			var arms []arm
			for _, cs := range x.Body.List {
				cc := cs.(*ast.CaseClause)
				if cc.List == nil {
					def = cc
					continue
				}
				var conds []string
				for _, ce := range cc.List {
					var cpre []hoist
					c := t.expr(ce, &cpre, false)
					if len(cpre) > 0 {
						fail(t, ce, "index read in a case expression")
					}
					if tag != "" {
						c = "(Z.eqb sw " + c + ")"
					}
					conds = append(conds, c)
				}
				cond := conds[0]
				for _, c := range conds[1:] {
					cond = "(orb " + cond + " " + c + ")"
				}
				arms = append(arms, arm{cond, t.block(cc.Body, e, retf, after)})
			}
			code := ""
			if def != nil {
				code = t.block(def.Body, e, retf, after)
			} else {
				code = after(e)
			}
			for i := len(arms) - 1; i >= 0; i-- {
				code = fmt.Sprintf("if %s then\n  %s\n  else\n  %s", arms[i].cond, arms[i].body, code)
			}
			if tag != "" {
				if _, ok := t.intType(t.info.Types[x.Tag].Type); !ok {
					fail(t, x, "switch on %s", t.info.Types[x.Tag].Type)
				}
				code = "let sw := " + tag + " in\n  " + code
			}
			return code
		}))
	case *ast.IfStmt:
		if x.Init != nil {
			f2 := *x
			f2.Init = nil
			return t.block([]ast.Stmt{x.Init, &f2}, e, retf, func(env) string { return rest(e) })
		}
		var pre []hoist
		c := t.expr(x.Cond, &pre, false)
		return t.withPre(x, pre, t.join(e, rest, func(after func(env) string) string {
			a := t.block(x.Body.List, e, retf, after)
			var b string
			switch el := x.Else.(type) {
			case nil:
				b = after(e)
			case *ast.BlockStmt:
				b = t.block(el.List, e, retf, after)
			case *ast.IfStmt:
				b = t.block([]ast.Stmt{el}, e, retf, after)
			}
			return fmt.Sprintf("if %s then\n  %s\n  else\n  %s", c, a, b)
		}))
	case *ast.ForStmt:
		if t.pure {
			fail(t, x, "loop in a pure function")
		}
		if x.Init != nil {
			f2 := *x
			f2.Init = nil
			return t.block([]ast.Stmt{x.Init, &f2}, e, retf, func(env) string { return rest(e) })
		}
		var names []string
		for _, n := range e {
			names = append(names, v(n))
		}
		cond := "true"
		if x.Cond != nil {
			var pre []hoist
			cond = t.expr(x.Cond, &pre, false)
			if len(pre) > 0 {
				fail(t, x, "index read in a loop condition")
			}
		}
		st := tuple(names)
		lret := func(r string) string { return "(Val (inr " + r + "))" } // r is already packed
		fall := func(env) string { return "(Val (inl " + st + "))" }
		body := t.block(x.Body.List, e, lret, func(env) string {
			if x.Post == nil {
				return fall(e)
			}
			return t.block([]ast.Stmt{x.Post}, e, lret, fall)
		})
		loop := fmt.Sprintf("(go_for fuel (fun st => %s) (fun st => %s) %s)", letPat(names, "st", cond), letPat(names, "st", body), st)
		return fmt.Sprintf("(gbind %s (fun lr => match lr with\n  | inl st => %s\n  | inr r => %s end))", loop, letPat(names, "st", rest(e)), retf("r"))
	case *ast.ExprStmt:
		var pre []hoist
		if c, muts, posts := t.effCall(x.X, &pre); c != "" {
			return t.withPre(x, pre, fmt.Sprintf("(gbind %s (fun r => %s))", c, letPat(append([]string{"_"}, muts...), "r", strings.Join(append(posts, rest(e)), "\n  "))))
		}
		fail(t, x, "unsupported expression statement")
	case *ast.ReturnStmt:
		var pre []hoist
		if len(x.Results) == 1 {
			if c, muts, posts := t.effCall(x.Results[0], &pre); c != "" {
				return t.withPre(x, pre, "(gbind "+c+" (fun r => "+letPat(append([]string{"r0"}, muts...), "r", strings.Join(append(posts, retf(t.pack("r0"))), "\n  "))+"))")
			}
		}
		var rs []string
		if len(x.Results) == 0 {
			rs = t.namedResults
			if len(rs) == 0 {
				rs = []string{"tt"}
			}
		}
		for i, r := range x.Results {
			if id, ok := r.(*ast.Ident); ok && id.Name == "nil" && len(x.Results) == len(t.resultTypes) {
				if _, isNil := t.info.Uses[id].(*types.Nil); isNil {
					rs = append(rs, t.zero(r, t.resultTypes[i]))
					continue
				}
			}
			rs = append(rs, t.expr(r, &pre, false))
		}
		return t.withPre(x, pre, retf(t.pack(tuple(rs))))
	}
	fail(t, s, "unsupported statement %T", s)
	return ""
}

func (t *tr) assign(x *ast.AssignStmt, e env, rest func(env) string) string {
	var pre []hoist
	// op-assign
	if x.Tok != token.ASSIGN && x.Tok != token.DEFINE {
		ops := map[token.Token]token.Token{token.ADD_ASSIGN: token.ADD, token.SUB_ASSIGN: token.SUB, token.MUL_ASSIGN: token.MUL,
			token.QUO_ASSIGN: token.QUO, token.REM_ASSIGN: token.REM, token.AND_ASSIGN: token.AND, token.OR_ASSIGN: token.OR,
			token.XOR_ASSIGN: token.XOR, token.SHL_ASSIGN: token.SHL, token.SHR_ASSIGN: token.SHR, token.AND_NOT_ASSIGN: token.AND_NOT}
		op, ok := ops[x.Tok]
		if !ok || len(x.Lhs) != 1 {
			fail(t, x, "unsupported assignment operator")
		}
		n := lhsName(t, x.Lhs[0])
		if c, muts, posts := t.effCall(x.Rhs[0], &pre); c != "" {
			// x op= F(...): Go evaluates the operand x before the call only if it is not addressable-by-index; for a plain
			// variable or field the value after the call is used by gc as well as before (F cannot assign it: it is a local
			// or a receiver field F does not write - checked)
			for _, m := range muts {
				if m == n {
					fail(t, x, "the callee writes the variable it is added to")
				}
			}
			var post2 []string
			code := t.arith(op, x, t.info.Types[x.Lhs[0]].Type, n, "r0", x.Rhs[0], &pre, false)
			post2 = append(append(post2, posts...), "let "+n+" := "+code+" in")
			return t.withPre(x, pre, fmt.Sprintf("(gbind %s (fun r => %s))", c, letPat(append([]string{"r0"}, muts...), "r", strings.Join(append(post2, rest(e)), "\n  "))))
		}
		b := t.expr(x.Rhs[0], &pre, false)
		code := t.arith(op, x, t.info.Types[x.Lhs[0]].Type, n, b, x.Rhs[0], &pre, false)
		return t.withPre(x, pre, letPat([]string{n}, code, rest(e)))
	}
	e2 := e
	if x.Tok == token.DEFINE {
		for _, l := range x.Lhs {
			if id, ok := l.(*ast.Ident); ok {
				e2 = t.define(id, e2)
			}
		}
	}
	if len(x.Rhs) == 1 {
		if c, muts, posts := t.effCall(x.Rhs[0], &pre); c != "" {
			var names []string
			for _, l := range x.Lhs {
				names = append(names, lhsName(t, l))
			}
			names = append(names, muts...)
			return t.withPre(x, pre, fmt.Sprintf("(gbind %s (fun r => %s))", c, letPat(names, "r", strings.Join(append(posts, rest(e2)), "\n  "))))
		}
	}
	if len(x.Lhs) != len(x.Rhs) {
		// pure translated multi-result call
		if len(x.Rhs) == 1 {
			code := t.expr(x.Rhs[0], &pre, false)
			var names []string
			for _, l := range x.Lhs {
				names = append(names, lhsName(t, l))
			}
			return t.withPre(x, pre, letPat(names, code, rest(e2)))
		}
		fail(t, x, "unsupported assignment shape")
	}
	if len(x.Lhs) == 1 {
		if ix, ok := x.Lhs[0].(*ast.IndexExpr); ok {
			sl := lhsName(t, ix.X)
			if !isByteSlice(t.info.Types[ix.X].Type) {
				fail(t, x, "store into %s", t.info.Types[ix.X].Type)
			}
			// Go evaluates index and operands left to right, then the store
			i := t.expr(ix.Index, &pre, false)
			val := t.expr(x.Rhs[0], &pre, false)
			return t.withPre(x, pre, fmt.Sprintf("(gbind (go_upd %s %s %s) (fun %s =>\n  %s))", sl, i, val, sl, rest(e)))
		}
	}
	var names, vals []string
	for i, l := range x.Lhs {
		names = append(names, lhsName(t, l))
		vals = append(vals, t.expr(x.Rhs[i], &pre, false))
	}
	return t.withPre(x, pre, letPat(names, tuple(vals), rest(e2)))
}

func isFloat(ty types.Type) bool {
	b, ok := ty.Underlying().(*types.Basic)
	return ok && (b.Kind() == types.Float32 || b.Kind() == types.Float64)
}

func (t *tr) coqType(n ast.Node, ty types.Type) string {
	if _, ok := t.intType(ty); ok {
		return "Z"
	}
	if isFloat(ty) {
		return "Z" // a float is its IEEE 754 bit pattern; no arithmetic on floats is translated
	}
	if isError(ty) {
		return "option String.string"
	}
	if isByteSlice(ty) {
		return "list Z"
	}
	if b, ok := ty.Underlying().(*types.Basic); ok && b.Kind() == types.Bool {
		return "bool"
	}
	fail(t, n, "unsupported type %s", ty)
	return ""
}

func (t *tr) function(fd *ast.FuncDecl) string {
	t.tmp = 0
	t.namedResults = nil
	t.curMut = nil
	t.joinN = 0
	key := funcKey(fd)
	t.pure = !t.eff[key]
	t.setRecv(fd)
	t.mut[key] = t.mutated(fd)
	var e env
	var params []string
	if !t.pure {
		params = append(params, "(fuel : nat)")
	}
	for _, f := range t.recvFields {
		n := t.recvName + "." + f.Name()
		params = append(params, fmt.Sprintf("(%s : %s)", v(n), t.coqType(fd, f.Type())))
		e = append(e, n)
	}
	t.mutF[key] = t.mutatedFields(fd)
	for _, f := range t.mutF[key] {
		t.curMut = append(t.curMut, v(t.recvName+"."+f))
	}
	for _, f := range fd.Type.Params.List {
		if len(f.Names) == 0 {
			fail(t, f, "unnamed parameter")
		}
		for _, id := range f.Names {
			if id.Name == "_" {
				fail(t, f, "blank parameter")
			}
			ty := t.info.Defs[id].Type()
			params = append(params, fmt.Sprintf("(%s : %s)", v(id.Name), t.coqType(id, ty)))
			e = append(e, id.Name)
		}
	}
	var rtys []string
	var zeroNames, zeroVals []string
	t.resultTypes = nil
	if fd.Type.Results != nil {
		for _, f := range fd.Type.Results.List {
			ty := t.info.Types[f.Type].Type
			if len(f.Names) == 0 {
				rtys = append(rtys, t.coqType(f, ty))
				t.resultTypes = append(t.resultTypes, ty)
			}
			for _, id := range f.Names {
				rtys = append(rtys, t.coqType(f, ty))
				t.resultTypes = append(t.resultTypes, ty)
				e = append(e, id.Name)
				t.namedResults = append(t.namedResults, v(id.Name))
				zeroNames = append(zeroNames, v(id.Name))
				zeroVals = append(zeroVals, t.zero(id, ty))
			}
		}
	}
	rty := "unit"
	if len(rtys) > 0 {
		rty = strings.Join(rtys, " * ")
	}
	body := t.block(fd.Body.List, e, t.ret, func(env) string {
		if len(rtys) == 0 {
			return t.ret(t.pack("tt"))
		}
		fail(t, fd, "control reaches the end of a function with results")
		return ""
	})
	if len(zeroNames) > 0 {
		body = letPat(zeroNames, tuple(zeroVals), body)
	}
	for range t.mut[key] {
		rty += " * list Z"
	}
	for _, f := range t.mutF[key] {
		for _, rf := range t.recvFields {
			if rf.Name() == f {
				rty += " * " + t.coqType(fd, rf.Type())
			}
		}
	}
	if !t.pure {
		rty = "gores (" + rty + ")"
	}
	pos := t.fset.Position(fd.Pos())
	return fmt.Sprintf("(* %s:%d func %s *)\nDefinition %s %s : %s :=\n  %s.\n", shortPath(pos.Filename), pos.Line, key, coqName(key), strings.Join(params, " "), rty, body)
}

func shortPath(p string) string {
	if i := strings.LastIndex(p, "/"); i >= 0 {
		return p[i+1:]
	}
	return p
}

// parameters (by index) the function writes through: p[i] = e, or passed where a translated callee writes
func (t *tr) mutated(fd *ast.FuncDecl) []int {
	idx := map[string]int{}
	i := 0
	for _, f := range fd.Type.Params.List {
		for _, id := range f.Names {
			idx[id.Name] = i
			i++
		}
	}
	set := map[int]bool{}
	ast.Inspect(fd.Body, func(n ast.Node) bool {
		switch x := n.(type) {
		case *ast.AssignStmt:
			for _, l := range x.Lhs {
				if ix, ok := l.(*ast.IndexExpr); ok {
					if id, ok := ix.X.(*ast.Ident); ok {
						if k, ok := idx[id.Name]; ok {
							set[k] = true
						}
					}
				}
			}
		case *ast.CallExpr:
			if ck := t.calleeKey(x); ck != "" {
				for _, k := range t.mut[ck] {
					if id, ok := x.Args[k].(*ast.Ident); ok {
						if j, ok := idx[id.Name]; ok {
							set[j] = true
						}
					}
				}
			}
		}
		return true
	})
	var res []int
	names := make([]string, i)
	for n, k := range idx {
		names[k] = n
	}
	for k := 0; k < i; k++ {
		if set[k] {
			res = append(res, k)
			t.curMut = append(t.curMut, v(names[k]))
		}
	}
	if len(res) > 0 && t.pure {
		fail(t, fd, "internal: pure function writes a parameter")
	}
	return res
}

// receiver fields the method assigns (directly, or through a translated method it calls on the same receiver), in
// declaration order
func (t *tr) mutatedFields(fd *ast.FuncDecl) []string {
	if t.recvName == "" {
		return nil
	}
	set := map[string]bool{}
	mark := func(x ast.Expr) {
		if ix, ok := x.(*ast.IndexExpr); ok {
			x = ix.X
		}
		if sel, ok := x.(*ast.SelectorExpr); ok {
			if id, ok := sel.X.(*ast.Ident); ok && id.Name == t.recvName {
				set[sel.Sel.Name] = true
			}
		}
	}
	ast.Inspect(fd.Body, func(n ast.Node) bool {
		switch x := n.(type) {
		case *ast.AssignStmt:
			for _, l := range x.Lhs {
				mark(l)
			}
		case *ast.IncDecStmt:
			mark(x.X)
		case *ast.CallExpr:
			if ck := t.calleeKey(x); ck != "" {
				if strings.Contains(ck, ".") {
					for _, f := range t.mutF[ck] {
						set[f] = true
					}
				}
				for _, k := range t.mut[ck] {
					if sl, ok := x.Args[k].(*ast.SliceExpr); ok {
						mark(sl.X)
					} else {
						mark(x.Args[k])
					}
				}
			}
		}
		return true
	})
	var res []string
	for _, f := range t.recvFields {
		if set[f.Name()] {
			res = append(res, f.Name())
		}
	}
	return res
}

// join: code generated by gen may continue with the rest of the enclosing block from several places; when it does so
// more than once the rest becomes a local function (a join point) over the variables in scope instead of being copied
func (t *tr) join(e env, rest func(env) string, gen func(k func(env) string) string) string {
	t.joinN++
	name := fmt.Sprintf("k%d", t.joinN)
	ph := "\x00" + name + "\x00"
	uses := 0
	code := gen(func(env) string { uses++; return ph })
	switch uses {
	case 0:
		return code
	case 1:
		return strings.Replace(code, ph, rest(e), 1)
	}
	var names []string
	for _, n := range e {
		names = append(names, v(n))
	}
	if len(names) == 0 {
		return fmt.Sprintf("let %s := (fun _ : unit => %s) in\n  %s", name, rest(e), strings.ReplaceAll(code, ph, "("+name+" tt)"))
	}
	return fmt.Sprintf("let %s := (fun st => %s) in\n  %s", name, letPat(names, "st", rest(e)), strings.ReplaceAll(code, ph, "("+name+" "+tuple(names)+")"))
}
