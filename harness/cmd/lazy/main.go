// Command lazy: correspondence cases and property oracles for lazyproto (C13 C14 C15 and the
// lazyproto half of C10).
package main

import (
	"errors"
	"flag"
	"fmt"
	"math"
	"os"
	"sort"
	"strconv"
	"strings"

	"github.com/CrowdStrike/csproto"
	"github.com/CrowdStrike/csproto/lazyproto"
	"google.golang.org/protobuf/encoding/protowire"
	"verif/harness/internal/hx"
)

var (
	sink     *hx.Sink
	prop     string
	thorough bool
)

func fail(what, cs, exp, got, class string) {
	sink.Fail(hx.Failure{Property: prop, Kind: "oracle", What: what, Case: cs, Expected: exp, Got: got, Class: class})
}

// ---------------------------------------------------------------------------------------------
// message trees

type node struct {
	num  int
	wt   int // 0 1 5 2
	v    uint64
	b    []byte
	kids []*node // non-nil: nested message
}

func (n *node) value() []byte {
	switch n.wt {
	case 0:
		return protowire.AppendVarint(nil, n.v)
	case 1:
		return protowire.AppendFixed64(nil, n.v)
	case 5:
		return protowire.AppendFixed32(nil, uint32(n.v))
	}
	if n.kids != nil {
		return encodeAll(n.kids)
	}
	return n.b
}
func (n *node) enc() []byte {
	var typ protowire.Type
	switch n.wt {
	case 0:
		typ = protowire.VarintType
	case 1:
		typ = protowire.Fixed64Type
	case 5:
		typ = protowire.Fixed32Type
	default:
		typ = protowire.BytesType
	}
	b := protowire.AppendTag(nil, protowire.Number(n.num), typ)
	if n.wt == 2 {
		return protowire.AppendBytes(b, n.value())
	}
	return append(b, n.value()...)
}
func encodeAll(ns []*node) []byte {
	out := []byte{}
	for _, n := range ns {
		out = append(out, n.enc()...)
	}
	return out
}

var tagPool = []int{1, 2, 3, 4, 5, 6, 15, 16, 31, 32, 33, 63, 64, 65, 127, 128, 2047, 2048, 18999, 20000, 1<<18 - 1, 1 << 18, 1<<25 - 1, 1 << 25, 1 << 26, 1<<29 - 1}

var interesting = []uint64{0, 1, 2, 127, 128, 300, 1<<31 - 1, 1 << 31, 1<<32 - 1, 1 << 32, 1<<63 - 1, 1 << 63, math.MaxUint64, math.MaxUint64 - 1}

func randVarint(r *hx.Rng) uint64 {
	if r.Intn(2) == 0 {
		return interesting[r.Intn(len(interesting))]
	}
	return r.U64() >> uint(r.Intn(64))
}

// role of a tag inside one message level
const (
	roleVarint = iota
	roleFixed32
	roleFixed64
	roleString
	rolePackedVarint
	rolePackedFixed32
	rolePackedFixed64
	roleNested
	roleMixed
	nRoles
)

type level struct {
	tags  []int
	roles map[int]int
	sub   map[int]*level
}

func randLevel(r *hx.Rng, depth int) *level {
	lv := &level{roles: map[int]int{}, sub: map[int]*level{}}
	n := 1 + r.Intn(5)
	perm := r.Intn(len(tagPool))
	for i := 0; i < n; i++ {
		t := tagPool[(perm+i*3)%len(tagPool)]
		if _, ok := lv.roles[t]; ok {
			continue
		}
		role := r.Intn(nRoles)
		if role == roleMixed && r.Intn(3) != 0 {
			role = roleVarint
		}
		if role == roleNested {
			if depth <= 0 {
				role = roleString
			} else {
				lv.sub[t] = randLevel(r, depth-1)
			}
		}
		lv.tags = append(lv.tags, t)
		lv.roles[t] = role
	}
	return lv
}

// wideLevel: more tags at one level than a machine word has bits (consecutive field numbers, so that field number,
// sorted position and count all cross 32 / 64 / 128), scalar roles only plus one nested message near the end
func wideLevel(r *hx.Rng) *level {
	lv := &level{roles: map[int]int{}, sub: map[int]*level{}}
	n := []int{33, 65, 66, 70, 129, 130}[r.Intn(6)]
	base := 1
	if r.Intn(4) == 0 {
		base = 1000
	}
	for i := 0; i < n; i++ {
		t := base + i
		role := []int{roleVarint, roleString, roleFixed32, rolePackedVarint}[r.Intn(4)]
		if i == n-2 {
			role = roleNested
			lv.sub[t] = randLevel(r, 0)
		}
		lv.tags = append(lv.tags, t)
		lv.roles[t] = role
	}
	return lv
}

func allDef(lv *level) *def {
	d := &def{sub: map[int]*def{}}
	for _, t := range lv.tags {
		d.keys = append(d.keys, t)
		if s := lv.sub[t]; s != nil {
			d.sub[t] = allDef(s)
		}
	}
	return d
}

func randMessage(r *hx.Rng, lv *level) []*node {
	var out []*node
	for _, t := range lv.tags {
		reps := 1 + r.Intn(3)
		if r.Intn(6) == 0 {
			reps = 0
		}
		for i := 0; i < reps; i++ {
			switch lv.roles[t] {
			case roleVarint:
				out = append(out, &node{num: t, wt: 0, v: randVarint(r)})
			case roleFixed32:
				out = append(out, &node{num: t, wt: 5, v: uint64(uint32(r.U64()))})
			case roleFixed64:
				out = append(out, &node{num: t, wt: 1, v: r.U64()})
			case roleString:
				n := r.Intn(6)
				if r.Intn(3) == 0 {
					n = 0
				}
				out = append(out, &node{num: t, wt: 2, b: r.Bytes(n)})
			case rolePackedVarint:
				var b []byte
				for k := r.Intn(4); k > 0; k-- {
					b = protowire.AppendVarint(b, randVarint(r))
				}
				out = append(out, &node{num: t, wt: 2, b: b})
			case rolePackedFixed32:
				var b []byte
				for k := r.Intn(4); k > 0; k-- {
					b = protowire.AppendFixed32(b, uint32(r.U64()))
				}
				out = append(out, &node{num: t, wt: 2, b: b})
			case rolePackedFixed64:
				var b []byte
				for k := r.Intn(4); k > 0; k-- {
					b = protowire.AppendFixed64(b, r.U64())
				}
				out = append(out, &node{num: t, wt: 2, b: b})
			case roleNested:
				kids := randMessage(r, lv.sub[t])
				if kids == nil || r.Intn(4) == 0 {
					kids = []*node{} // present but empty nested message
				}
				out = append(out, &node{num: t, wt: 2, kids: kids})
			case roleMixed:
				if r.Bool() {
					out = append(out, &node{num: t, wt: 0, v: randVarint(r)})
				} else {
					out = append(out, &node{num: t, wt: 5, v: 7})
				}
			}
		}
	}
	// shuffle
	for i := len(out) - 1; i > 0; i-- {
		j := r.Intn(i + 1)
		out[i], out[j] = out[j], out[i]
	}
	return out
}

// ---------------------------------------------------------------------------------------------
// definitions

type def struct {
	keys []int
	sub  map[int]*def
}

func (d *def) toGo() lazyproto.Def {
	out := lazyproto.NewDef()
	for _, k := range d.keys {
		if s := d.sub[k]; s != nil {
			out[k] = s.toGo()
		} else {
			out[k] = nil
		}
	}
	return out
}
func (d *def) String() string {
	parts := make([]string, len(d.keys))
	for i, k := range d.keys {
		parts[i] = strconv.Itoa(k)
		if s := d.sub[k]; s != nil {
			parts[i] += ":" + s.String()
		}
	}
	return "[" + strings.Join(parts, ",") + "]"
}

func randDef(r *hx.Rng, lv *level, depth int) *def {
	d := &def{sub: map[int]*def{}}
	seen := map[int]bool{}
	add := func(k int, s *def) {
		if seen[k] {
			return
		}
		seen[k] = true
		d.keys = append(d.keys, k)
		if s != nil {
			d.sub[k] = s
		}
	}
	if lv != nil {
		for _, t := range lv.tags {
			if r.Intn(5) == 0 {
				continue // not requested
			}
			if lv.roles[t] == roleNested && r.Intn(5) != 0 {
				add(t, randDef(r, lv.sub[t], depth-1))
				if r.Intn(2) == 0 {
					add(-t, nil) // raw access to the same field
				}
				continue
			}
			if lv.roles[t] != roleNested && r.Intn(12) == 0 && depth > 0 {
				add(t, randDef(r, nil, 0)) // nested definition on something that is not a message
				continue
			}
			if r.Intn(8) == 0 {
				add(-t, nil)
			} else {
				add(t, nil)
			}
		}
	}
	// absent tags
	for k := r.Intn(3); k > 0; k-- {
		add(tagPool[r.Intn(len(tagPool))], nil)
	}
	return d
}

// ---------------------------------------------------------------------------------------------
// accessors

var kinds = []string{"bool", "string", "bytes", "uint32", "int32", "sint32", "uint64", "int64", "sint64", "fixed32", "fixed64", "float32", "float64"}

func b2u(b bool) uint64 {
	if b {
		return 1
	}
	return 0
}
func conv[T any](vs []T, f func(T) string) string {
	if len(vs) == 0 {
		return "l:-"
	}
	s := make([]string, len(vs))
	for i, v := range vs {
		s[i] = f(v)
	}
	return "l:" + strings.Join(s, ",")
}

func errClass(err error) string {
	var wm *lazyproto.WireTypeMismatchError
	switch {
	case errors.Is(err, lazyproto.ErrNestingNotDefined):
		return "e:nestingnotdefined"
	case errors.Is(err, lazyproto.ErrTagNotDefined):
		return "e:notdefined"
	case errors.Is(err, lazyproto.ErrTagNotFound):
		return "e:notfound"
	case errors.As(err, &wm):
		return "e:mismatch"
	}
	return "e:other"
}

func accFD(fd *lazyproto.FieldData, kind string, slice bool) (out string) {
	var err error
	if !slice {
		switch kind {
		case "bool":
			var v bool
			v, err = fd.BoolValue()
			out = "n:" + hx.U(b2u(v))
		case "string":
			var v string
			v, err = fd.StringValue()
			out = "b:" + hx.B([]byte(v))
		case "bytes":
			var v []byte
			v, err = fd.BytesValue()
			out = "b:" + hx.B(v)
		case "uint32":
			var v uint32
			v, err = fd.UInt32Value()
			out = "n:" + hx.U(uint64(v))
		case "int32":
			var v int32
			v, err = fd.Int32Value()
			out = "n:" + hx.I(int64(v))
		case "sint32":
			var v int32
			v, err = fd.SInt32Value()
			out = "n:" + hx.I(int64(v))
		case "uint64":
			var v uint64
			v, err = fd.UInt64Value()
			out = "n:" + hx.U(v)
		case "int64":
			var v int64
			v, err = fd.Int64Value()
			out = "n:" + hx.I(v)
		case "sint64":
			var v int64
			v, err = fd.SInt64Value()
			out = "n:" + hx.I(v)
		case "fixed32":
			var v uint32
			v, err = fd.Fixed32Value()
			out = "n:" + hx.U(uint64(v))
		case "fixed64":
			var v uint64
			v, err = fd.Fixed64Value()
			out = "n:" + hx.U(v)
		case "float32":
			var v float32
			v, err = fd.Float32Value()
			out = "n:" + hx.U(uint64(math.Float32bits(v)))
		case "float64":
			var v float64
			v, err = fd.Float64Value()
			out = "n:" + hx.U(math.Float64bits(v))
		}
	} else {
		switch kind {
		case "bool":
			var v []bool
			v, err = fd.BoolValues()
			out = conv(v, func(x bool) string { return hx.U(b2u(x)) })
		case "string":
			var v []string
			v, err = fd.StringValues()
			s := make([]string, len(v))
			for i := range v {
				s[i] = hx.B([]byte(v[i]))
			}
			out = "bl:" + strings.Join(s, ";")
		case "bytes":
			var v [][]byte
			v, err = fd.BytesValues()
			s := make([]string, len(v))
			for i := range v {
				s[i] = hx.B(v[i])
			}
			out = "bl:" + strings.Join(s, ";")
		case "uint32":
			var v []uint32
			v, err = fd.UInt32Values()
			out = conv(v, func(x uint32) string { return hx.U(uint64(x)) })
		case "int32":
			var v []int32
			v, err = fd.Int32Values()
			out = conv(v, func(x int32) string { return hx.I(int64(x)) })
		case "sint32":
			var v []int32
			v, err = fd.SInt32Values()
			out = conv(v, func(x int32) string { return hx.I(int64(x)) })
		case "uint64":
			var v []uint64
			v, err = fd.UInt64Values()
			out = conv(v, func(x uint64) string { return hx.U(x) })
		case "int64":
			var v []int64
			v, err = fd.Int64Values()
			out = conv(v, func(x int64) string { return hx.I(x) })
		case "sint64":
			var v []int64
			v, err = fd.SInt64Values()
			out = conv(v, func(x int64) string { return hx.I(x) })
		case "fixed32":
			var v []uint32
			v, err = fd.Fixed32Values()
			out = conv(v, func(x uint32) string { return hx.U(uint64(x)) })
		case "fixed64":
			var v []uint64
			v, err = fd.Fixed64Values()
			out = conv(v, func(x uint64) string { return hx.U(x) })
		case "float32":
			var v []float32
			v, err = fd.Float32Values()
			out = conv(v, func(x float32) string { return hx.U(uint64(math.Float32bits(x))) })
		case "float64":
			var v []float64
			v, err = fd.Float64Values()
			out = conv(v, func(x float64) string { return hx.U(math.Float64bits(x)) })
		}
	}
	if err != nil {
		return errClass(err)
	}
	return out
}

// the r.XValue(tag) helpers
func accHelper(r *lazyproto.DecodeResult, t int, kind string, slice bool) string {
	// the helpers are GetFieldData + the FieldData accessor; go through the public helper for a few
	// kinds so that the helper layer itself is exercised, and through GetFieldData for the rest
	if !slice {
		switch kind {
		case "int32":
			v, err := r.Int32Value(t)
			if err != nil {
				return errClass(err)
			}
			return "n:" + hx.I(int64(v))
		case "string":
			v, err := r.StringValue(t)
			if err != nil {
				return errClass(err)
			}
			return "b:" + hx.B([]byte(v))
		case "uint64":
			v, err := r.UInt64Value(t)
			if err != nil {
				return errClass(err)
			}
			return "n:" + hx.U(v)
		case "fixed32":
			v, err := r.Fixed32Value(t)
			if err != nil {
				return errClass(err)
			}
			return "n:" + hx.U(uint64(v))
		}
	} else {
		switch kind {
		case "int64":
			v, err := r.Int64Values(t)
			if err != nil {
				return errClass(err)
			}
			return conv(v, func(x int64) string { return hx.I(x) })
		case "string":
			v, err := r.StringValues(t)
			if err != nil {
				return errClass(err)
			}
			s := make([]string, len(v))
			for i := range v {
				s[i] = hx.B([]byte(v[i]))
			}
			return "bl:" + strings.Join(s, ";")
		}
	}
	fd, err := r.GetFieldData(t)
	if err != nil {
		return errClass(err)
	}
	return accFD(fd, kind, slice)
}

type aop struct {
	typ   byte // F H N R
	path  []int
	t     int
	inner int
	kind  string
	slice bool
}

func pathStr(p []int) string {
	if len(p) == 0 {
		return "-"
	}
	s := make([]string, len(p))
	for i, x := range p {
		s[i] = strconv.Itoa(x)
	}
	return strings.Join(s, ".")
}
func sv(b bool) string {
	if b {
		return "v"
	}
	return "s"
}
func (o aop) token() string {
	switch o.typ {
	case 'F':
		return fmt.Sprintf("F:%s:%s:%s", pathStr(o.path), o.kind, sv(o.slice))
	case 'H':
		return fmt.Sprintf("H:%s:%d:%s:%s", pathStr(o.path), o.t, o.kind, sv(o.slice))
	case 'N':
		return fmt.Sprintf("N:%s:%d:%d:%s:%s", pathStr(o.path), o.t, o.inner, o.kind, sv(o.slice))
	}
	return "R:" + pathStr(o.path)
}

func walkAll(r *lazyproto.DecodeResult, path []int) (*lazyproto.DecodeResult, string) {
	for _, t := range path {
		nr, err := r.NestedResult(t)
		if err != nil {
			return nil, errClass(err)
		}
		r = nr
	}
	return r, ""
}

// when set, observe records every nested handle it obtains through NestedResults
var nestedSeen *[]*lazyproto.DecodeResult

func observe(r *lazyproto.DecodeResult, o aop) (out string) {
	defer func() {
		if x := recover(); x != nil {
			out = "panic"
		}
	}()
	switch o.typ {
	case 'F':
		fd, err := r.FieldData(o.path...)
		if err != nil {
			return errClass(err)
		}
		return accFD(fd, o.kind, o.slice)
	case 'H':
		rr, e := walkAll(r, o.path)
		if e != "" {
			return e
		}
		return accHelper(rr, o.t, o.kind, o.slice)
	case 'N':
		rr, e := walkAll(r, o.path)
		if e != "" {
			return e
		}
		rs, err := rr.NestedResults(o.t)
		if err != nil {
			return errClass(err)
		}
		if nestedSeen != nil {
			*nestedSeen = append(*nestedSeen, rs...)
		}
		s := make([]string, len(rs))
		for i, x := range rs {
			s[i] = accHelper(x, o.inner, o.kind, o.slice)
		}
		return "[" + strings.Join(s, "|") + "]"
	default:
		rr, e := walkAll(r, o.path)
		if e != "" {
			return e
		}
		var s []string
		if rr != nil {
			rr.Range(func(tag int, f *lazyproto.FieldData) bool {
				if f != nil {
					s = append(s, strconv.Itoa(tag)+"+")
				} else {
					s = append(s, strconv.Itoa(tag)+"-")
				}
				return true
			})
		}
		return "r:" + strings.Join(s, ",")
	}
}

// ---------------------------------------------------------------------------------------------
// the independent reference: what a protowire walk of the bytes finds

type occ struct {
	wt  int
	val []byte // value bytes (without key / length prefix)
}

func parseRef(b []byte) (map[int][]occ, bool) {
	out := map[int][]occ{}
	for len(b) > 0 {
		num, typ, n := protowire.ConsumeTag(b)
		if n < 0 {
			return nil, false
		}
		b = b[n:]
		var m int
		var val []byte
		switch typ {
		case protowire.VarintType:
			_, m = protowire.ConsumeVarint(b)
			if m >= 0 {
				val = b[:m]
			}
		case protowire.Fixed32Type:
			_, m = protowire.ConsumeFixed32(b)
			if m >= 0 {
				val = b[:m]
			}
		case protowire.Fixed64Type:
			_, m = protowire.ConsumeFixed64(b)
			if m >= 0 {
				val = b[:m]
			}
		case protowire.BytesType:
			val, m = protowire.ConsumeBytes(b)
		default:
			return nil, false
		}
		if m < 0 {
			return nil, false
		}
		b = b[m:]
		out[int(num)] = append(out[int(num)], occ{wt: int(typ), val: val})
	}
	return out, true
}

func kindWT(kind string) int {
	switch kind {
	case "string", "bytes":
		return 2
	case "fixed32", "float32":
		return 5
	case "fixed64", "float64":
		return 1
	}
	return 0
}

// typed reading of one element at p per the encoding spec; ok=false: out of range / malformed
func refElem(kind string, p []byte) (string, int, bool) {
	switch kindWT(kind) {
	case 5:
		v, n := protowire.ConsumeFixed32(p)
		if n < 0 {
			return "", 0, false
		}
		return hx.U(uint64(v)), n, true
	case 1:
		v, n := protowire.ConsumeFixed64(p)
		if n < 0 {
			return "", 0, false
		}
		return hx.U(v), n, true
	}
	v, n := protowire.ConsumeVarint(p)
	if n < 0 {
		// not a varint the reference can read at all (truncated, or more than 64 bits: csproto drops
		// the excess bits of a 10-byte varint, protowire rejects it): the bytes are not a list of this
		// kind, which is outside what the property compares
		return "?", 0, false
	}
	switch kind {
	case "bool":
		return hx.U(b2u(v != 0)), n, true
	case "uint32":
		if v > math.MaxUint32 {
			return "", 0, false
		}
		return hx.U(v), n, true
	case "int32":
		if int64(v) > math.MaxInt32 || int64(v) < math.MinInt32 {
			return "", 0, false
		}
		return hx.I(int64(v)), n, true
	case "sint32":
		return hx.I(int64(int32(protowire.DecodeZigZag(v & math.MaxUint32)))), n, true
	case "uint64":
		return hx.U(v), n, true
	case "int64":
		return hx.I(int64(v)), n, true
	case "sint64":
		return hx.I(protowire.DecodeZigZag(v)), n, true
	}
	return "", 0, false
}

// expected observation for FieldData(t).X on a well-formed message, from the reference parse
func refAccess(occs []occ, declared bool, kind string, slice bool) string {
	if !declared {
		return "e:notdefined"
	}
	if len(occs) == 0 {
		return "e:notfound"
	}
	wt := occs[0].wt
	for _, o := range occs {
		if o.wt != wt {
			return "?" // not one wire type throughout: outside the property
		}
	}
	want := kindWT(kind)
	if !slice {
		last := occs[len(occs)-1]
		if wt != want {
			return "e:mismatch"
		}
		if want == 2 {
			return "b:" + hx.B(last.val)
		}
		s, _, ok := refElem(kind, last.val)
		if !ok {
			if s == "?" {
				return "?"
			}
			return "e:other"
		}
		return "n:" + s
	}
	switch kind {
	case "bytes":
		s := make([]string, len(occs))
		for i, o := range occs {
			s[i] = hx.B(o.val)
		}
		return "bl:" + strings.Join(s, ";")
	case "string":
		if wt != 2 {
			return "e:mismatch"
		}
		s := make([]string, len(occs))
		for i, o := range occs {
			s[i] = hx.B(o.val)
		}
		return "bl:" + strings.Join(s, ";")
	}
	if wt != want && wt != 2 {
		return "e:mismatch"
	}
	var all []string
	for _, o := range occs {
		p := o.val
		for len(p) > 0 {
			s, n, ok := refElem(kind, p)
			if !ok {
				if s == "?" {
					return "?"
				}
				return "e:other"
			}
			all = append(all, s)
			p = p[n:]
		}
	}
	if len(all) == 0 {
		return "l:-"
	}
	return "l:" + strings.Join(all, ",")
}

func abs(x int) int {
	if x < 0 {
		return -x
	}
	return x
}

func (d *def) declares(t int) (declared bool, nested *def) {
	for _, k := range d.keys {
		if abs(k) == abs(t) {
			declared = true
		}
	}
	return declared, d.sub[abs(t)]
}

// expected result of FieldData(path...).X per the reference, "?" when outside the property's
// precondition (mixed wire types, nested bytes that are not a message, ...)
func refField(input []byte, d *def, path []int, kind string, slice bool) string {
	if len(d.keys) == 0 {
		return "e:notdefined"
	}
	for i, t := range path {
		fields, ok := parseRef(input)
		if !ok {
			return "?"
		}
		for num, occs := range fields {
			if dcl, _ := d.declares(num); dcl {
				for _, o := range occs {
					if o.wt != occs[0].wt {
						return "?"
					}
				}
			}
		}
		declared, sub := d.declares(t)
		if i == len(path)-1 {
			return refAccess(fields[abs(t)], declared, kind, slice)
		}
		hasNested := false
		for _, k := range d.keys {
			if d.sub[k] != nil {
				hasNested = true
			}
		}
		if !hasNested || !declared {
			return "e:notdefined"
		}
		nestedDeclared := false
		for _, k := range d.keys {
			if abs(k) == abs(t) && d.sub[k] != nil {
				nestedDeclared = true
			}
		}
		if !nestedDeclared {
			return "e:nestingnotdefined"
		}
		occs := fields[abs(t)]
		if len(occs) == 0 {
			return "e:notfound"
		}
		for _, o := range occs {
			if o.wt != occs[0].wt {
				return "?"
			}
		}
		if occs[0].wt != 2 {
			return "e:mismatch"
		}
		input = occs[len(occs)-1].val
		if sub == nil {
			sub = &def{sub: map[int]*def{}} // nested mapping under the negative key only
		}
		d = sub
		if len(d.keys) == 0 {
			// nested decoder without tags
			if _, ok := parseRef(input); !ok {
				return "?"
			}
		}
	}
	return "?"
}

// ---------------------------------------------------------------------------------------------
// C13 stream

func decodeBoth(entry string, fast bool, d *def, input []byte) (res *lazyproto.DecodeResult, tok string, closer func()) {
	defer func() {
		if x := recover(); x != nil {
			res, tok, closer = nil, "panic", func() {}
		}
	}()
	gd := d.toGo()
	if entry == "fn" {
		r, err := lazyproto.Decode(input, gd)
		if err != nil {
			return nil, "err", func() {}
		}
		rp := &r
		if len(input) == 0 || len(gd) == 0 {
			return rp, "nil", func() { _ = rp.Close() }
		}
		return rp, "ok", func() { _ = rp.Close() }
	}
	mode := csproto.DecoderModeSafe
	if fast {
		mode = csproto.DecoderModeFast
	}
	dec, err := lazyproto.NewDecoder(gd, lazyproto.WithMode(mode))
	if err != nil {
		return nil, "err", func() {}
	}
	r, err := dec.Decode(input)
	if err != nil {
		return nil, "err", func() {}
	}
	if r == nil {
		return nil, "nil", func() {}
	}
	return r, "ok", func() { _ = r.Close() }
}

func genOps(r *hx.Rng, d *def, lv *level, n int) []aop {
	var ops []aop
	var paths [][]int
	var collect func(d *def, prefix []int, depth int)
	collect = func(d *def, prefix []int, depth int) {
		for _, k := range d.keys {
			p := append(append([]int{}, prefix...), k)
			paths = append(paths, p)
			if s := d.sub[k]; s != nil && depth < 3 {
				collect(s, p, depth+1)
			}
		}
	}
	collect(d, nil, 0)
	paths = append(paths, []int{7777}, []int{}, []int{tagPool[r.Intn(len(tagPool))], 1})
	for i := 0; i < n; i++ {
		p := paths[r.Intn(len(paths))]
		kind := kinds[r.Intn(len(kinds))]
		switch r.Intn(10) {
		case 0:
			ops = append(ops, aop{typ: 'R', path: p[:max(0, len(p)-1)]})
		case 1, 2:
			if len(p) > 0 {
				ops = append(ops, aop{typ: 'N', path: p[:len(p)-1], t: p[len(p)-1], inner: tagPool[r.Intn(6)], kind: kind, slice: r.Bool()})
			}
		case 3, 4:
			if len(p) > 0 {
				ops = append(ops, aop{typ: 'H', path: p[:len(p)-1], t: p[len(p)-1], kind: kind, slice: r.Bool()})
			}
		default:
			ops = append(ops, aop{typ: 'F', path: p, kind: kind, slice: r.Bool()})
		}
	}
	// every leaf path with every kind once in a while
	return ops
}

func lazyCase(stream string, entry string, fast bool, d *def, input []byte, ops []aop, wellFormed bool) {
	hx.Inflight(fmt.Sprintf("lazy case: entry=%s fast=%v def=%s input=%s", entry, fast, d.String(), hx.B(input)))
	res, tok, closer := decodeBoth(entry, fast, d, input)
	outs := []string{tok}
	toks := make([]string, len(ops))
	for i, o := range ops {
		toks[i] = o.token()
		if tok == "ok" || tok == "nil" {
			out := observe(res, o)
			outs = append(outs, out)
			sink.OracleN++
			if out == "panic" || strings.Contains(out, "panic") {
				fail("lazyproto accessor panicked", fmt.Sprintf("def=%s input=%s op=%s", d, hx.B(input), o.token()), "value or error", "panic", "lazy-panic")
			} else if wellFormed && o.typ == 'F' && tok == "ok" {
				if want := refField(input, d, o.path, o.kind, o.slice); want != "?" && want != out {
					// all three sentinels satisfy errors.Is(err, ErrTagNotFound): absent == any of them is
					// what the property asks for; undeclared must be exactly notdefined
					if !(want == "e:notfound" && (out == "e:notdefined" || out == "e:nestingnotdefined")) {
						fail("accessor result differs from the reference parse of the same bytes", fmt.Sprintf("def=%s input=%s op=%s", d, hx.B(input), o.token()), want, out, "lazy-value")
					}
				}
			}
		}
	}
	func() {
		defer func() {
			if x := recover(); x != nil {
				fail("Close panicked", fmt.Sprintf("def=%s input=%s", d, hx.B(input)), "nil", "panic", "lazy-close-panic")
			}
		}()
		closer()
	}()
	sink.OracleN++
	if tok == "panic" {
		fail("lazy decode panicked", fmt.Sprintf("def=%s input=%s entry=%s", d, hx.B(input), entry), "result or error", "panic", "lazy-panic")
	}
	if wellFormed && tok == "err" {
		fail("lazy decode rejected a well-formed message", fmt.Sprintf("def=%s input=%s entry=%s", d, hx.B(input), entry), "ok", "err", "lazy-reject")
	}
	mode := "safe"
	if fast {
		mode = "fast"
	}
	line := fmt.Sprintf("L %s %s %s %s %s", entry, mode, d, hx.B(input), strings.Join(toks, " "))
	sink.Add(stream, strings.TrimSpace(line), strings.Join(outs, " "), len(input) > 0 && len(ops) > 0)
	sink.Count("decode:" + tok)
}

// one wire type per requested tag at every level reachable through nested definitions?
func oneWT(ns []*node, d *def) bool {
	wts := map[int]int{}
	for _, n := range ns {
		declared, sub := d.declares(n.num)
		if !declared {
			continue
		}
		if w, ok := wts[n.num]; ok && w != n.wt {
			return false
		}
		wts[n.num] = n.wt
		if sub != nil && n.wt == 2 {
			if n.kids == nil {
				continue // decode itself still succeeds; nested access may be outside the precondition
			}
			if !oneWT(n.kids, sub) {
				// nested mixing only matters for nested access, not for the top-level decode
				continue
			}
		}
	}
	return true
}

func streamC13(r *hx.Rng) {
	n := 700
	if thorough {
		n = 12000
	}
	for i := 0; i < n; i++ {
		lv := randLevel(r, 2)
		msg := randMessage(r, lv)
		d := randDef(r, lv, 2)
		input := encodeAll(msg)
		ops := genOps(r, d, lv, 6+r.Intn(6))
		wf := oneWT(msg, d) && len(input) > 0
		entry := []string{"dec", "dec", "fn"}[i%3]
		lazyCase("valid", entry, i%2 == 0, d, input, ops, wf)
		// malformed variants
		if len(input) > 0 {
			for v := 0; v < 3; v++ {
				m := append([]byte{}, input...)
				switch r.Intn(3) {
				case 0:
					m = m[:r.Intn(len(m))]
				case 1:
					j := r.Intn(len(m))
					m[j] = []byte{m[j] + 1, m[j] ^ 0x80, 0xFF, 0x00, m[j] | 7}[r.Intn(5)]
				default:
					m = r.Bytes(1 + r.Intn(12))
				}
				lazyCase("malformed", entry, r.Bool(), d, m, ops[:min(len(ops), 4)], false)
			}
		}
	}
	// edge definitions and inputs
	empty := &def{sub: map[int]*def{}}
	one := &def{keys: []int{1}, sub: map[int]*def{}}
	bad := []*def{{keys: []int{0}, sub: map[int]*def{}}, {keys: []int{19000}, sub: map[int]*def{}}, {keys: []int{-19999}, sub: map[int]*def{}},
		{keys: []int{1 << 29}, sub: map[int]*def{}}, {keys: []int{math.MaxInt32 + 1}, sub: map[int]*def{}},
		{keys: []int{3}, sub: map[int]*def{3: {keys: []int{0}, sub: map[int]*def{}}}}}
	fop := []aop{{typ: 'F', path: []int{1}, kind: "int32"}, {typ: 'R'}, {typ: 'N', t: 1, inner: 1, kind: "int32"}, {typ: 'F', path: []int{}, kind: "int32"}}
	for _, entry := range []string{"dec", "fn"} {
		for _, in := range [][]byte{{}, {0x08, 0x01}, {0x08}} {
			lazyCase("edge", entry, false, empty, in, fop, false)
			lazyCase("edge", entry, false, one, in, fop, false)
			for _, b := range bad {
				lazyCase("edge-baddef", entry, false, b, in, fop[:1], false)
			}
		}
	}
	// nested definition only under the negative key
	neg := &def{keys: []int{-3}, sub: map[int]*def{-3: {keys: []int{1}, sub: map[int]*def{}}}}
	lazyCase("edge", "dec", false, neg, []byte{0x1a, 0x02, 0x08, 0x05}, []aop{{typ: 'F', path: []int{3, 1}, kind: "int32"}, {typ: 'F', path: []int{-3}, kind: "bytes"}}, false)
	// empty nested message
	nd := &def{keys: []int{3}, sub: map[int]*def{3: {keys: []int{1}, sub: map[int]*def{}}}}
	lazyCase("edge", "dec", false, nd, []byte{0x08, 0x05, 0x1a, 0x00}, []aop{{typ: 'F', path: []int{3, 1}, kind: "int32"}, {typ: 'N', t: 3, inner: 1, kind: "int32"}}, true)
}

// ---------------------------------------------------------------------------------------------
// C14: histories over one pooled Decoder

type pop struct {
	typ   byte // D F N R C
	h     int
	input []byte
	o     aop
}

func (p pop) token() string {
	switch p.typ {
	case 'D':
		return fmt.Sprintf("D:%d:%s", p.h, hx.B(p.input))
	case 'F':
		return fmt.Sprintf("F:%d:%s:%s:%s", p.h, pathStr(p.o.path), p.o.kind, sv(p.o.slice))
	case 'N':
		return fmt.Sprintf("N:%d:%d:%d:%s:%s", p.h, p.o.t, p.o.inner, p.o.kind, sv(p.o.slice))
	case 'R':
		return fmt.Sprintf("R:%d", p.h)
	}
	return fmt.Sprintf("C:%d", p.h)
}

func streamC14(r *hx.Rng) {
	n := 1200
	if thorough {
		n = 15000
	}
	maxbufs := []int{-1, 0, 1, 2, 1000}
	for i := 0; i < n; i++ {
		lv := randLevel(r, 2)
		d := randDef(r, lv, 2)
		if len(d.keys) == 0 {
			continue
		}
		// input pool with differing shapes
		var inputs [][]byte
		for k := 0; k < 4; k++ {
			inputs = append(inputs, encodeAll(randMessage(r, lv)))
		}
		inputs = append(inputs, []byte{}, r.Bytes(3))
		fast := r.Bool()
		mb := maxbufs[r.Intn(len(maxbufs))]
		filter := r.Intn(3) == 0
		opts := []lazyproto.Option{}
		if fast {
			opts = append(opts, lazyproto.WithMode(csproto.DecoderModeFast))
		}
		if mb >= 0 {
			opts = append(opts, lazyproto.WithMaxBufferSize(mb))
		}
		if filter {
			opts = append(opts, lazyproto.WithBufferFilterFunc(func(c int) int { return c / 2 }))
		}
		dec, err := lazyproto.NewDecoder(d.toGo(), opts...)
		if err != nil {
			continue
		}
		live := map[int]*lazyproto.DecodeResult{}
		own := map[int][]byte{}
		nops := 4 + r.Intn(7)
		if thorough {
			nops = 6 + r.Intn(15)
		}
		var toks, outs []string
		next := 0
		baseOps := genOps(r, d, lv, 12)
		dead := false
		for k := 0; k < nops && !dead; k++ {
			var p pop
			hs := make([]int, 0, len(live))
			for h := range live {
				hs = append(hs, h)
			}
			sort.Ints(hs)
			c := r.Intn(10)
			switch {
			case len(hs) == 0 || c < 3:
				p = pop{typ: 'D', h: next, input: inputs[r.Intn(len(inputs))]}
				next++
			case c < 8:
				o := baseOps[r.Intn(len(baseOps))]
				h := hs[r.Intn(len(hs))]
				switch o.typ {
				case 'F':
					p = pop{typ: 'F', h: h, o: o}
				case 'N':
					if len(o.path) == 0 {
						p = pop{typ: 'N', h: h, o: o}
					} else {
						p = pop{typ: 'F', h: h, o: aop{typ: 'F', path: append(append([]int{}, o.path...), o.t), kind: o.kind, slice: o.slice}}
					}
				case 'H':
					p = pop{typ: 'F', h: h, o: aop{typ: 'F', path: append(append([]int{}, o.path...), o.t), kind: o.kind, slice: o.slice}}
				default:
					p = pop{typ: 'R', h: h}
				}
			default:
				p = pop{typ: 'C', h: hs[r.Intn(len(hs))]}
			}
			out := func() (out string) {
				defer func() {
					if x := recover(); x != nil {
						out = "panic"
					}
				}()
				switch p.typ {
				case 'D':
					res, err := dec.Decode(p.input)
					if err != nil {
						return "err"
					}
					if res == nil {
						return "nil"
					}
					live[p.h] = res
					own[p.h] = p.input
					return "ok"
				case 'F':
					return observe(live[p.h], p.o)
				case 'N':
					return observe(live[p.h], aop{typ: 'N', t: p.o.t, inner: p.o.inner, kind: p.o.kind, slice: p.o.slice})
				case 'R':
					return observe(live[p.h], aop{typ: 'R'})
				default:
					_ = live[p.h].Close()
					delete(live, p.h)
					return "ok"
				}
			}()
			toks = append(toks, p.token())
			outs = append(outs, out)
			sink.OracleN++
			cs := fmt.Sprintf("def=%s fast=%v maxbuf=%d filter=%v history=%s", d, fast, mb, filter, strings.Join(toks, " "))
			if strings.Contains(out, "panic") {
				fail("operation on a pooled lazy-decode result panicked", cs, "no panic", out, "pool-panic")
				dead = true
				break
			}
			// oracle: the observation equals the one made on a fresh, never pooled decode of the
			// handle's own input
			if p.typ == 'F' || p.typ == 'N' || p.typ == 'R' {
				fresh, ftok, fclose := decodeBoth("dec", fast, d, own[p.h])
				if ftok == "ok" {
					o := p.o
					if p.typ == 'N' {
						o = aop{typ: 'N', t: p.o.t, inner: p.o.inner, kind: p.o.kind, slice: p.o.slice}
					} else if p.typ == 'R' {
						o = aop{typ: 'R'}
					}
					if want := observe(fresh, o); want != out {
						fail("pooled result exposes something other than a fresh decode of its own input", cs, want, out, "pool-isolation")
					}
				}
				fclose()
			}
		}
		mbs := "-"
		if mb >= 0 {
			mbs = strconv.Itoa(mb)
		}
		sink.Add("histories", fmt.Sprintf("P %s %s %s", mbs, d, strings.Join(toks, " ")), strings.Join(outs, " "), len(toks) >= 2)
		sink.Count(fmt.Sprintf("opts:fast=%v,maxbuf=%d,filter=%v", fast, mb, filter))
	}
}

func main() {
	out := flag.String("out", "", "output directory")
	tier := flag.String("tier", "quick", "quick|thorough")
	flag.StringVar(&prop, "prop", "C13", "property")
	seed := flag.Uint64("seed", hx.SeedFromEnv(), "seed")
	flag.Parse()
	thorough = *tier == "thorough"
	sink = hx.NewSink()
	if prop != "C15" {
		hx.InflightOpen(*out)
	}
	r := hx.NewRng(*seed).Fork(prop)
	switch prop {
	case "C13":
		streamC13(r)
		streamC13Wide(r.Fork("wide"))
		streamC13DefReuse(r.Fork("defreuse"))
		streamC13Systematic(r.Fork("systematic"))
		streamC13AfterError(r.Fork("aftererror"))
		// a Decoder object's answers must not depend on what it decoded before (max-buffer / filter options trim the
		// pooled result on Close): the answers checked above against the reference are those of a fresh decoder
		streamC14SameShape(r.Fork("reuse"))
	case "C14":
		streamC14(r)
		streamC14Held(r.Fork("held"))
		streamC14SameShape(r.Fork("sameshape"))
	case "C15":
		streamC15(r)
		streamC15Nested(r.Fork("nested"))
	case "C10":
		streamC10(r)
	default:
		fmt.Fprintln(os.Stderr, "unknown property", prop)
		os.Exit(2)
	}
	hx.Must(sink.Write(*out))
	hx.InflightDone(*out)
}

// ---------------------------------------------------------------------------------------------
// C10 (lazyproto half): in safe mode, values handed out by the accessors stay intact when the caller
// overwrites the input buffer, after Close, and after later decodes that recycle the pooled result

func snapshotAll(res *lazyproto.DecodeResult, ops []aop) []string {
	out := make([]string, len(ops))
	for i, o := range ops {
		out[i] = observe(res, o)
	}
	return out
}

type held struct {
	strs  []string
	bytes [][]byte
	copyS []string
	copyB [][]byte
	nums  []interface{} // the slices the numeric XxxValues accessors handed out ...
	copyN []string      // ... and what they held at that time
}

// every numeric slice accessor of one field: the caller keeps what it gets
func holdNums(fd *lazyproto.FieldData, h *held) {
	keep := func(v interface{}, err error) {
		if err == nil {
			h.nums = append(h.nums, v)
			h.copyN = append(h.copyN, fmt.Sprint(v))
		}
	}
	{
		v, err := fd.Int32Values()
		keep(v, err)
	}
	{
		v, err := fd.SInt32Values()
		keep(v, err)
	}
	{
		v, err := fd.Int64Values()
		keep(v, err)
	}
	{
		v, err := fd.SInt64Values()
		keep(v, err)
	}
	{
		v, err := fd.UInt32Values()
		keep(v, err)
	}
	{
		v, err := fd.UInt64Values()
		keep(v, err)
	}
	{
		v, err := fd.Fixed32Values()
		keep(v, err)
	}
	{
		v, err := fd.Fixed64Values()
		keep(v, err)
	}
	{
		v, err := fd.BoolValues()
		keep(v, err)
	}
	{
		v, err := fd.Float32Values()
		keep(v, err)
	}
	{
		v, err := fd.Float64Values()
		keep(v, err)
	}
}

// aliasProbe: one decode whose handed-out values are kept by the caller and compared after (1) the input
// buffer is overwritten, (2) every accessor is called again (scratch reuse within one result), (3) Close and
// later decodes recycle the pooled result.  entry "dec" = Decoder.Decode, "fn" = the deprecated package-level
// Decode (always safe).
type probeOut struct {
	readsChanged, heldAfterOverwrite, heldAfterReaccess, heldAfterReuse bool
	nheld                                                               int
	input                                                               []byte
	ok                                                                  bool
}

func aliasProbe(r *hx.Rng, entry string, d *def, lv *level, fast bool, maxbuf int) (po probeOut) {
	mode := csproto.DecoderModeSafe
	if fast {
		mode = csproto.DecoderModeFast
	}
	opts := []lazyproto.Option{lazyproto.WithMode(mode)}
	if maxbuf >= 0 {
		opts = append(opts, lazyproto.WithMaxBufferSize(maxbuf))
	}
	dec, err := lazyproto.NewDecoder(d.toGo(), opts...)
	if err != nil {
		return
	}
	input := encodeAll(randMessage(r, lv))
	if len(input) == 0 {
		return
	}
	po.input = input
	buf := append([]byte{}, input...)
	var res *lazyproto.DecodeResult
	if entry == "fn" {
		rv, err := lazyproto.Decode(buf, d.toGo())
		if err != nil {
			return
		}
		res = &rv
	} else {
		res, err = dec.Decode(buf)
		if err != nil || res == nil {
			return
		}
	}
	po.ok = true
	// hold on to real values (not renderings) of every declared tag, at the top level and inside nested results
	var h held
	var holdAll func(res *lazyproto.DecodeResult, d *def, depth int)
	holdAll = func(res *lazyproto.DecodeResult, d *def, depth int) {
		for _, k := range d.keys {
			if fd, err := res.GetFieldData(k); err == nil {
				if s, err := fd.StringValue(); err == nil {
					h.strs = append(h.strs, s)
				}
				if ss, err := fd.StringValues(); err == nil {
					h.strs = append(h.strs, ss...)
				}
				if b, err := fd.BytesValue(); err == nil {
					h.bytes = append(h.bytes, b)
				}
				if bs, err := fd.BytesValues(); err == nil {
					h.bytes = append(h.bytes, bs...)
				}
				holdNums(fd, &h)
			}
			if sub := d.sub[k]; sub != nil && depth > 0 {
				if nrs, err := res.NestedResults(k); err == nil {
					for _, nr := range nrs {
						holdAll(nr, sub, depth-1)
					}
				}
			}
		}
	}
	holdAll(res, d, 2)
	for _, s := range h.strs {
		h.copyS = append(h.copyS, strings.Clone(s))
	}
	for _, b := range h.bytes {
		h.copyB = append(h.copyB, append([]byte{}, b...))
	}
	po.nheld = len(h.strs) + len(h.bytes) + len(h.nums)
	ops := genOps(r, d, lv, 6)
	before := snapshotAll(res, ops)
	// 1. the caller overwrites its buffer; then reads again
	for j := range buf {
		buf[j] ^= 0xFF
	}
	after := snapshotAll(res, ops)
	for j := range before {
		if before[j] != after[j] {
			po.readsChanged = true
		}
	}
	heldChanged := func() bool {
		for j, s := range h.strs {
			if s != h.copyS[j] {
				return true
			}
		}
		for j, b := range h.bytes {
			if string(b) != string(h.copyB[j]) {
				return true
			}
		}
		for j, v := range h.nums {
			if fmt.Sprint(v) != h.copyN[j] {
				return true
			}
		}
		return false
	}
	po.heldAfterOverwrite = heldChanged()
	// 2. every accessor once more, in the other order: what was handed out before must not be scratch space
	{
		saved := h
		h = held{}
		holdAll(res, d, 2) // (the second round of values is dropped: only the first round is judged)
		h = saved
	}
	po.heldAfterReaccess = heldChanged()
	// 3. Close, then recycle the pooled result with other inputs
	_ = res.Close()
	for k := 0; k < 3; k++ {
		other := encodeAll(randMessage(r, lv))
		if len(other) == 0 {
			other = []byte{0x08, 0x01}
		}
		if r2, err := dec.Decode(other); err == nil && r2 != nil {
			for _, o := range ops {
				observe(r2, o)
			}
			{
				saved := h
				h = held{}
				holdAll(r2, d, 2)
				h = saved
			}
			_ = r2.Close()
		}
	}
	po.heldAfterReuse = heldChanged()
	return
}

func streamC10(r *hx.Rng) {
	n := 400
	if thorough {
		n = 5000
	}
	for i := 0; i < n; i++ {
		lv := randLevel(r, 2)
		d := randDef(r, lv, 2)
		if len(d.keys) == 0 {
			continue
		}
		for _, cfg := range []struct {
			entry string
			fast  bool
		}{{"dec", false}, {"dec", true}, {"fn", false}} {
			fast := cfg.fast
			po := aliasProbe(r, cfg.entry, d, lv, fast, []int{0, 1, 2, 100}[i%4])
			if !po.ok {
				continue
			}
			sink.OracleN++
			cs := fmt.Sprintf("def=%s input=%s fast=%v entry=%s", d, hx.B(po.input), fast, cfg.entry)
			impl := "same"
			if po.readsChanged || po.heldAfterOverwrite || po.heldAfterReaccess || po.heldAfterReuse {
				impl = "changed"
			}
			if !fast && impl == "changed" {
				what := "values read from a safe-mode lazy decode result changed when the input buffer was overwritten"
				if !po.readsChanged && !po.heldAfterOverwrite {
					what = "values handed out by a safe-mode lazy decode result changed after further accessor calls / Close and later decodes"
				}
				fail(what, cs, "unchanged", fmt.Sprintf("reads-changed=%v held-changed-after-overwrite=%v after-reaccess=%v after-reuse=%v",
					po.readsChanged, po.heldAfterOverwrite, po.heldAfterReaccess, po.heldAfterReuse), "lazy-alias")
			}
			m := "safe"
			if fast {
				m = "fast"
				impl = "unspecified" // the user opted into aliasing: nothing is claimed
			}
			sink.Add("lazy-alias", fmt.Sprintf("L10 %s %d %s", m, po.nheld, hx.B(po.input)), impl, po.nheld > 0)
		}
	}
}

// C14, second oracle: values a caller obtained from a result (strings, byte slices and the numeric slices
// of every XxxValues accessor) must not change when the same or another result of the pool is used later.
// (In fast mode the documented contract lets values share memory with the input; the pool's own scratch
// space is still not the caller's, but only the safe mode is asserted.)
func streamC14Held(r *hx.Rng) {
	n := 300
	if thorough {
		n = 4000
	}
	for i := 0; i < n; i++ {
		lv := randLevel(r, 2)
		d := randDef(r, lv, 2)
		if len(d.keys) == 0 {
			continue
		}
		po := aliasProbe(r, "dec", d, lv, false, []int{-1, 0, 1, 2, 1000}[i%5])
		if !po.ok {
			continue
		}
		sink.OracleN++
		sink.Count("held-probe")
		if po.heldAfterReaccess || po.heldAfterReuse {
			fail("values handed out earlier by a pooled result changed when the result (or the pool) was used again",
				fmt.Sprintf("def=%s input=%s", d, hx.B(po.input)), "unchanged",
				fmt.Sprintf("after-reaccess=%v after-close-and-reuse=%v", po.heldAfterReaccess, po.heldAfterReuse), "pool-held")
		}
	}
}

// reshape: a message of the same shape as ns (same field numbers, wire types, occurrence and element counts,
// nesting) with fresh leaf values
func reshape(r *hx.Rng, ns []*node, lv *level) []*node {
	out := make([]*node, len(ns))
	for i, n := range ns {
		c := &node{num: n.num, wt: n.wt}
		switch {
		case n.wt == 0:
			c.v = randVarint(r)
		case n.wt == 5:
			c.v = uint64(uint32(r.U64()))
		case n.wt == 1:
			c.v = r.U64()
		case n.kids != nil:
			sub := lv
			if lv != nil && lv.sub[n.num] != nil {
				sub = lv.sub[n.num]
			}
			c.kids = reshape(r, n.kids, sub)
		default:
			role := -1
			if lv != nil {
				role = lv.roles[n.num]
			}
			switch role {
			case rolePackedVarint:
				rest := n.b
				for len(rest) > 0 {
					_, k := protowire.ConsumeVarint(rest)
					if k <= 0 {
						break
					}
					rest = rest[k:]
					c.b = protowire.AppendVarint(c.b, randVarint(r))
				}
			case rolePackedFixed32, rolePackedFixed64:
				c.b = r.Bytes(len(n.b))
			default:
				c.b = r.Bytes(len(n.b))
			}
			if c.b == nil {
				c.b = []byte{}
			}
		}
		out[i] = c
	}
	return out
}

// every accessor of every declared path, each kind, single and slice
func sweep(res *lazyproto.DecodeResult, d *def) []string {
	var paths [][]int
	var collect func(d *def, prefix []int, depth int)
	collect = func(d *def, prefix []int, depth int) {
		for _, k := range d.keys {
			p := append(append([]int{}, prefix...), k)
			paths = append(paths, p)
			if s := d.sub[k]; s != nil && depth < 3 {
				collect(s, p, depth+1)
			}
		}
	}
	collect(d, nil, 0)
	var out []string
	for _, p := range paths {
		for _, kind := range kinds {
			for _, slice := range []bool{false, true} {
				o := aop{typ: 'F', path: p, kind: kind, slice: slice}
				out = append(out, o.token()+"="+observe(res, o))
			}
		}
		// every occurrence of a nested field through NestedResults (FieldData paths only reach the last one)
		if len(p) >= 2 {
			for _, kind := range []string{"string", "int64", "uint32"} {
				o := aop{typ: 'N', path: p[:len(p)-2], t: p[len(p)-2], inner: p[len(p)-1], kind: kind, slice: true}
				out = append(out, o.token()+"="+observe(res, o))
			}
		}
	}
	return out
}

// C14, third oracle: a pooled result that served a message A (every accessor called), was closed and then
// serves a message B of the SAME shape must answer every accessor exactly like a decoder that never saw A
func streamC14SameShape(r *hx.Rng) {
	n := 150
	if thorough {
		n = 2500
	}
	for i := 0; i < n; i++ {
		lv := randLevel(r, 2)
		d := randDef(r, lv, 2)
		if i%10 == 9 {
			// a definition with more tags at one level than a machine word has bits
			lv = wideLevel(r)
			d = allDef(lv)
		}
		if len(d.keys) == 0 {
			continue
		}
		a := randMessage(r, lv)
		b := reshape(r, a, lv)
		if i%3 == 2 {
			// ... and of ANOTHER shape (other occurrence counts, other wire types for "mixed" tags)
			b = randMessage(r, lv)
		}
		if i%3 == 1 {
			// ... or the same numbers with the other legal wire form: packed runs unpacked, single varints packed
			b = flipPacked(b, lv)
		}
		inA, inB := encodeAll(a), encodeAll(b)
		if len(inA) == 0 || len(inB) == 0 {
			continue
		}
		mbs := []int{-1, 0, 1, 2, 1000}
		if i%10 == 9 {
			mbs = []int{-1, 2, 1000}
		}
		for _, fast := range []bool{false, true} {
			for _, mb := range mbs {
				mk := func() *lazyproto.Decoder {
					opts := []lazyproto.Option{}
					if fast {
						opts = append(opts, lazyproto.WithMode(csproto.DecoderModeFast))
					}
					if mb >= 0 {
						opts = append(opts, lazyproto.WithMaxBufferSize(mb))
					}
					dec, err := lazyproto.NewDecoder(d.toGo(), opts...)
					if err != nil {
						return nil
					}
					return dec
				}
				used, fresh := mk(), mk()
				if used == nil || fresh == nil {
					continue
				}
				cs := fmt.Sprintf("def=%s A=%s B=%s fast=%v maxbuf=%d", d, hx.B(inA), hx.B(inB), fast, mb)
				hx.Inflight("C14 same-shape: " + cs)
				got, want := func() (g []string) {
					defer func() {
						if recover() != nil {
							g = []string{"panic"}
						}
					}()
					ra, err := used.Decode(append([]byte{}, inA...))
					if err != nil || ra == nil {
						return nil
					}
					var handles []*lazyproto.DecodeResult
					if i%2 == 0 {
						nestedSeen = &handles
					}
					sweep(ra, d)
					nestedSeen = nil
					if i%4 == 0 {
						for _, h := range handles { // Close on a nested handle is a no-op (its parent owns it), whenever it is called
							_ = h.Close()
						}
					}
					_ = ra.Close()
					if i%4 == 2 {
						for _, h := range handles {
							_ = h.Close()
						}
					}
					rb, err := used.Decode(append([]byte{}, inB...))
					if err != nil || rb == nil {
						return []string{"decode-error"}
					}
					defer rb.Close()
					return sweep(rb, d)
				}(), func() []string {
					rb, err := fresh.Decode(append([]byte{}, inB...))
					if err != nil || rb == nil {
						return []string{"decode-error"}
					}
					defer rb.Close()
					return sweep(rb, d)
				}()
				if got == nil {
					continue
				}
				sink.OracleN++
				sink.Count("sameshape-probe")
				for j := range want {
					if j >= len(got) || got[j] != want[j] {
						g := "missing"
						if j < len(got) {
							g = got[j]
						}
						fail("a recycled pooled result answers differently from a decoder that never served another message", cs, want[j], g, "pool-stale")
						break
					}
				}
			}
		}
	}
}

// flipPacked re-encodes repeated numeric fields in their other legal form: every varint occurrence of a
// varint-role tag becomes a one-element packed run, every packed varint run is expanded into single varints
func flipPacked(ns []*node, lv *level) []*node {
	var out []*node
	for _, n := range ns {
		role := -1
		if lv != nil {
			role = lv.roles[n.num]
		}
		switch {
		case n.kids != nil:
			sub := lv
			if lv != nil && lv.sub[n.num] != nil {
				sub = lv.sub[n.num]
			}
			out = append(out, &node{num: n.num, wt: 2, kids: flipPacked(n.kids, sub)})
		case role == roleVarint && n.wt == 0:
			out = append(out, &node{num: n.num, wt: 2, b: protowire.AppendVarint([]byte{}, n.v)})
		case role == rolePackedVarint && n.wt == 2:
			rest := n.b
			for len(rest) > 0 {
				v, k := protowire.ConsumeVarint(rest)
				if k <= 0 {
					break
				}
				rest = rest[k:]
				out = append(out, &node{num: n.num, wt: 0, v: v})
			}
		default:
			out = append(out, n)
		}
	}
	return out
}

// C13, systematic part: every boundary field number x every role (wire type / packed form / nested) as the
// only requested field, two occurrences, next to an unrequested neighbour; every accessor kind, single and
// slice, both modes, both entry points.  Nothing here depends on luck.
func streamC13Systematic(r *hx.Rng) {
	for ti, t := range tagPool {
		for role := 0; role < nRoles; role++ {
			if role == roleMixed {
				continue
			}
			other := tagPool[(ti+1)%len(tagPool)]
			lv := &level{tags: []int{t, other}, roles: map[int]int{t: role, other: roleVarint}, sub: map[int]*level{}}
			d := &def{keys: []int{t}, sub: map[int]*def{}}
			inner := 16
			if role == roleNested {
				lv.sub[t] = &level{tags: []int{inner}, roles: map[int]int{inner: roleVarint}, sub: map[int]*level{}}
				d.sub[t] = &def{keys: []int{inner}, sub: map[int]*def{}}
			}
			var msg []*node
			for len(msg) < 3 {
				msg = nil
				for _, n := range randMessage(r, lv) {
					msg = append(msg, n)
				}
			}
			input := encodeAll(msg)
			var ops []aop
			for _, kind := range kinds {
				for _, slice := range []bool{false, true} {
					ops = append(ops, aop{typ: 'F', path: []int{t}, kind: kind, slice: slice})
					if role == roleNested {
						ops = append(ops, aop{typ: 'F', path: []int{t, inner}, kind: kind, slice: slice})
					}
				}
			}
			wf := oneWT(msg, d) && len(input) > 0
			for _, fast := range []bool{false, true} {
				for _, entry := range []string{"dec", "fn"} {
					lazyCase("systematic", entry, fast, d, input, ops, wf)
				}
			}
		}
	}
}

// C13 on a Decoder that has just failed: a Decode that stops with an error after it has recorded some of the
// requested fields must not leave anything behind: the next well-formed message is read exactly as by a
// Decoder that never saw the bad input.
func streamC13AfterError(r *hx.Rng) {
	n := 200
	if thorough {
		n = 3000
	}
	for i := 0; i < n; i++ {
		lv := randLevel(r, 2)
		d := randDef(r, lv, 2)
		if len(d.keys) == 0 {
			continue
		}
		good := encodeAll(randMessage(r, lv))
		if len(good) == 0 {
			continue
		}
		// well-formed fields first, then something that cannot be read: a key cut short, a length beyond the end, a
		// truncated nested message
		bad := encodeAll(randMessage(r, lv))
		switch i % 3 {
		case 0:
			bad = append(bad, 0x80)
		case 1:
			bad = append(bad, byte(d.keys[0]&0x0f)<<3|2, 0x0a, 0x61)
		default:
			if len(bad) > 1 {
				bad = bad[:len(bad)-1]
			}
		}
		for _, fast := range []bool{false, true} {
			mk := func() *lazyproto.Decoder {
				opts := []lazyproto.Option{}
				if fast {
					opts = append(opts, lazyproto.WithMode(csproto.DecoderModeFast))
				}
				dec, err := lazyproto.NewDecoder(d.toGo(), opts...)
				if err != nil {
					return nil
				}
				return dec
			}
			used, fresh := mk(), mk()
			if used == nil || fresh == nil {
				continue
			}
			cs := fmt.Sprintf("def=%s bad=%s then=%s fast=%v", d, hx.B(bad), hx.B(good), fast)
			hx.Inflight("C13 after-error: " + cs)
			run := func(dec *lazyproto.Decoder, first []byte) (out []string) {
				defer func() {
					if recover() != nil {
						out = []string{"panic"}
					}
				}()
				if first != nil {
					if rb, err := dec.Decode(append([]byte{}, first...)); err == nil && rb != nil {
						sweep(rb, d) // (the "bad" input happened to be readable: use it like any other)
						_ = rb.Close()
					}
				}
				rg, err := dec.Decode(append([]byte{}, good...))
				if err != nil || rg == nil {
					return []string{"decode-error"}
				}
				defer rg.Close()
				return sweep(rg, d)
			}
			got, want := run(used, bad), run(fresh, nil)
			sink.OracleN++
			sink.Count("aftererror-probe")
			for j := range want {
				if j >= len(got) || got[j] != want[j] {
					g := "missing"
					if j < len(got) {
						g = got[j]
					}
					fail("after a failed Decode the same Decoder reads a well-formed message differently from a fresh Decoder", cs, want[j], g, "lazy-after-error")
					break
				}
			}
		}
	}
}

// C13 with definitions wider than a machine word: every tag requested, every accessor compared with the reference
func streamC13Wide(r *hx.Rng) {
	n := 6
	if thorough {
		n = 60
	}
	for i := 0; i < n; i++ {
		lv := wideLevel(r)
		d := allDef(lv)
		msg := randMessage(r, lv)
		input := encodeAll(msg)
		var ops []aop
		for _, t := range lv.tags {
			kind := kinds[r.Intn(len(kinds))]
			switch lv.roles[t] {
			case roleVarint, rolePackedVarint:
				kind = "uint64"
			case roleString:
				kind = "string"
			case roleFixed32:
				kind = "fixed32"
			}
			ops = append(ops, aop{typ: 'F', path: []int{t}, kind: kind, slice: true}, aop{typ: 'F', path: []int{t}, kind: kind, slice: false})
		}
		wf := oneWT(msg, d) && len(input) > 0
		for _, fast := range []bool{false, true} {
			for _, entry := range []string{"dec", "fn"} {
				lazyCase("wide", entry, fast, d, input, ops, wf)
			}
		}
	}
}

// C13 through the deprecated lazyproto.Decode(data, def) with ONE Def value that the caller edits in place between calls
// (Def.Tags / NestedTag / plain map assignment all do that): every call must answer for the definition as it is at that
// call - the same as a Def built from scratch with the same contents.
func streamC13DefReuse(r *hx.Rng) {
	n := 120
	if thorough {
		n = 1500
	}
	for i := 0; i < n; i++ {
		lv := randLevel(r, 2)
		if len(lv.tags) < 2 {
			continue
		}
		msg := randMessage(r, lv)
		input := encodeAll(msg)
		if len(input) == 0 {
			continue
		}
		d1 := randDef(r, lv, 2)
		if len(d1.keys) == 0 {
			continue
		}
		// the edited definition: same number of top-level keys where possible (swap one key for another tag of the
		// message), or a nested definition that gains / loses a tag, or an arbitrary other definition
		d2 := &def{keys: append([]int{}, d1.keys...), sub: map[int]*def{}}
		for k, s := range d1.sub {
			d2.sub[k] = &def{keys: append([]int{}, s.keys...), sub: s.sub}
		}
		switch i % 3 {
		case 0:
			j := r.Intn(len(d2.keys))
			nt := lv.tags[r.Intn(len(lv.tags))]
			dup := false
			for _, k := range d2.keys {
				if k == nt || k == -nt {
					dup = true
				}
			}
			if dup {
				nt = 7000 + r.Intn(5)
			}
			delete(d2.sub, d2.keys[j])
			d2.keys[j] = nt
		case 1:
			edited := false
			for k, s := range d2.sub {
				if sl := lv.sub[k]; sl != nil && len(sl.tags) > 0 {
					nt := sl.tags[r.Intn(len(sl.tags))]
					has := false
					for _, x := range s.keys {
						if x == nt || x == -nt {
							has = true
						}
					}
					if !has {
						s.keys = append(s.keys, nt)
						edited = true
					} else if len(s.keys) > 1 {
						s.keys = s.keys[1:]
						edited = true
					}
					break
				}
			}
			if !edited {
				d2 = randDef(r, lv, 2)
			}
		default:
			d2 = randDef(r, lv, 2)
		}
		if len(d2.keys) == 0 {
			continue
		}
		cs := fmt.Sprintf("def1=%s def2=%s input=%s", d1, d2, hx.B(input))
		hx.Inflight("C13 def reuse: " + cs)
		shared := d1.toGo()
		obs := func(gd lazyproto.Def, d *def) (out []string) {
			defer func() {
				if recover() != nil {
					out = []string{"panic"}
				}
			}()
			res, err := lazyproto.Decode(append([]byte{}, input...), gd)
			if err != nil {
				return []string{"err"}
			}
			defer res.Close()
			return sweep(&res, d)
		}
		_ = obs(shared, d1)
		// edit in place: make `shared` equal to d2's contents without replacing the map value
		var edit func(dst lazyproto.Def, d *def)
		edit = func(dst lazyproto.Def, d *def) {
			want := map[int]bool{}
			for _, k := range d.keys {
				want[k] = true
			}
			for k := range dst {
				if !want[k] {
					delete(dst, k)
				}
			}
			for _, k := range d.keys {
				if s := d.sub[k]; s != nil {
					if cur := dst[k]; cur != nil {
						edit(cur, s)
					} else {
						dst[k] = s.toGo()
					}
				} else {
					dst[k] = nil
				}
			}
		}
		edit(shared, d2)
		got := obs(shared, d2)
		want := obs(d2.toGo(), d2)
		sink.OracleN++
		sink.Count("defreuse-probe")
		for j := range want {
			if j >= len(got) || got[j] != want[j] {
				g := "missing"
				if j < len(got) {
					g = got[j]
				}
				fail("lazyproto.Decode with a Def edited in place since an earlier call answers differently from a Def built from scratch with the same contents", cs, want[j], g, "def-stale")
				break
			}
		}
	}
}
