package main

import (
	"fmt"
	"runtime"
	"sort"
	"strings"
	"sync"
	"sync/atomic"

	"github.com/CrowdStrike/csproto"
	"github.com/CrowdStrike/csproto/lazyproto"
	"verif/harness/internal/hx"
)

type logged struct {
	seq uint64
	g   int
	tok string
	out string
}

// C15: G goroutines share one Decoder; each decodes its own inputs, reads its results (including
// nested results) and closes them.  Every read is compared with the value computed beforehand,
// single-threaded and without any pool (the deprecated Decode function), from the same input.
// A prefix of the observed schedule is also replayed on the Pool.v state machine.
func streamC15(r *hx.Rng) {
	configs := []struct{ g, procs, iters int }{{2, 1, 2000}, {4, 2, 2000}, {16, 16, 2000}, {64, 16, 600}}
	if thorough {
		configs = []struct{ g, procs, iters int }{{2, 1, 3000}, {4, 2, 3000}, {8, 16, 3000}, {16, 16, 3000}, {64, 16, 2000}, {64, 2, 1000}}
	}
	for ci, cf := range configs {
		for _, fast := range []bool{false, true} {
			lv := randLevel(r, 2)
			d := randDef(r, lv, 2)
			for len(d.keys) == 0 {
				lv = randLevel(r, 2)
				d = randDef(r, lv, 2)
			}
			opts := []lazyproto.Option{lazyproto.WithMaxBufferSize([]int{0, 1, 2, 1000}[ci%4])}
			if fast {
				opts = append(opts, lazyproto.WithMode(csproto.DecoderModeFast))
			}
			if ci%2 == 1 {
				opts = append(opts, lazyproto.WithBufferFilterFunc(func(c int) int { return c / 2 }))
			}
			concRun(r, cf.g, cf.procs, cf.iters, fast, lv, d, opts, false)
		}
	}
}

// shared between all goroutines of the nested-heavy runs (callers keep path slices in package variables): they
// must come back unchanged
var sharedPaths = [][]int{{-3, 1}, {3, 2}, {3, -2}, {-3, -2}, {1}}
var heavyOps = []aop{
	{typ: 'N', path: []int{}, t: 3, inner: 1, kind: "uint64", slice: true},
	{typ: 'N', path: []int{}, t: 3, inner: 2, kind: "string", slice: false},
	{typ: 'F', path: sharedPaths[0], kind: "uint64", slice: true},
	{typ: 'F', path: sharedPaths[1], kind: "string", slice: true},
	{typ: 'F', path: sharedPaths[2], kind: "bytes", slice: true},
	{typ: 'F', path: sharedPaths[3], kind: "bytes", slice: false},
	{typ: 'F', path: sharedPaths[4], kind: "uint64", slice: false},
}

// nested-heavy runs: a repeated nested message with up to nine occurrences, read through NestedResults (so that a
// parent holds more nested results than any max-buffer setting keeps) and through multi-element paths
func streamC15Nested(r *hx.Rng) {
	lv := &level{tags: []int{1, 3}, roles: map[int]int{1: roleVarint, 3: roleNested}, sub: map[int]*level{
		3: {tags: []int{1, 2}, roles: map[int]int{1: roleVarint, 2: roleString}, sub: map[int]*level{}}}}
	d := &def{keys: []int{1, 3, -3}, sub: map[int]*def{3: {keys: []int{1, 2, -2}, sub: map[int]*def{}}}}
	iters := 1200
	if thorough {
		iters = 4000
	}
	want := fmt.Sprint(sharedPaths)
	for _, mb := range []int{1, 2, 0} {
		for _, fast := range []bool{false, true} {
			opts := []lazyproto.Option{lazyproto.WithMaxBufferSize(mb)}
			if fast {
				opts = append(opts, lazyproto.WithMode(csproto.DecoderModeFast))
			}
			concRun(r, 16, 16, iters, fast, lv, d, opts, true)
			sink.OracleN++
			if got := fmt.Sprint(sharedPaths); got != want {
				fail("FieldData(path...) modified the caller's path slice (shared between goroutines)", fmt.Sprintf("def=%s maxbuf=%d fast=%v", d, mb, fast), want, got, "conc-path-mutated")
				return
			}
		}
	}
}

func concRun(r *hx.Rng, cfg, cfprocs, cfiters int, fast bool, lv *level, d *def, opts []lazyproto.Option, heavy bool) {
	cf := struct{ g, procs, iters int }{cfg, cfprocs, cfiters}
	dec, err := lazyproto.NewDecoder(d.toGo(), opts...)
	if err != nil {
		return
	}
	// per goroutine: inputs, ops and the expected observations, prepared single-threaded
	type plan struct {
		inputs [][]byte
		ops    [][]aop
		want   [][]string
	}
	plans := make([]plan, cf.g)
	for g := range plans {
		for k := 0; k < 6; k++ {
			ns := randMessage(r, lv)
			if heavy {
				ns = append(append(ns, randMessage(r, lv)...), randMessage(r, lv)...) // up to 9 occurrences of a nested field
				if k >= 4 {
					// ... the last one malformed INSIDE (the outer message stays well-formed): after a requested field, a key
					// without value / a truncated varint
					ns = append(ns, &node{num: 3, wt: 2, b: [][]byte{{0x08, 0x05, 0x10}, {0x12, 0x01, 0x41, 0x08, 0x85}}[k%2]})
				}
			}
			in := encodeAll(ns)
			if len(in) == 0 {
				in = []byte{0x08, byte(g)}
			}
			ops := genOps(r, d, lv, 4)
			if heavy {
				ops = append(ops, heavyOps...)
			}
			var fops []aop
			for _, o := range ops {
				if o.typ == 'F' || (o.typ == 'N' && len(o.path) == 0) || (o.typ == 'R' && len(o.path) == 0) {
					fops = append(fops, o)
				}
			}
			res, tok, closer := decodeBoth("fn", false, d, in)
			var want []string
			for _, o := range fops {
				if tok == "ok" {
					want = append(want, observe(res, o))
				} else {
					want = append(want, tok)
				}
			}
			closer()
			plans[g].inputs = append(plans[g].inputs, in)
			plans[g].ops = append(plans[g].ops, fops)
			plans[g].want = append(plans[g].want, want)
		}
	}
	old := runtime.GOMAXPROCS(cf.procs)
	var seq uint64
	var mu sync.Mutex
	var logs []logged
	var bad []string
	const logLimit = 400
	var wg sync.WaitGroup
	for g := 0; g < cf.g; g++ {
		wg.Add(1)
		go func(g int) {
			defer wg.Done()
			defer func() {
				if x := recover(); x != nil {
					mu.Lock()
					bad = append(bad, fmt.Sprintf("goroutine %d panicked: %v", g, x))
					mu.Unlock()
				}
			}()
			pl := plans[g]
			var mine []logged
			for it := 0; it < cf.iters; it++ {
				k := (it + g) % len(pl.inputs)
				s0 := atomic.AddUint64(&seq, 1)
				res, err := dec.Decode(pl.inputs[k])
				tok := "ok"
				if err != nil {
					tok = "err"
				} else if res == nil {
					tok = "nil"
				}
				if s0 < logLimit {
					mine = append(mine, logged{s0, g, fmt.Sprintf("D:%d:%s", g, hx.B(pl.inputs[k])), tok})
				}
				if it%3 == 0 {
					runtime.Gosched()
				}
				if tok != "ok" {
					// the single-threaded run must have failed the same way
					if len(pl.want[k]) > 0 && pl.want[k][0] != tok {
						mu.Lock()
						bad = append(bad, fmt.Sprintf("goroutine %d: decode gave %s, alone it gives %s (input %s)", g, tok, pl.want[k][0], hx.B(pl.inputs[k])))
						mu.Unlock()
					}
					continue
				}
				for j, o := range pl.ops[k] {
					s1 := atomic.AddUint64(&seq, 1)
					out := observe(res, o)
					if out != pl.want[k][j] {
						mu.Lock()
						bad = append(bad, fmt.Sprintf("goroutine %d read %s for %s, alone it reads %s (input %s)", g, out, o.token(), pl.want[k][j], hx.B(pl.inputs[k])))
						mu.Unlock()
					}
					if s1 < logLimit {
						var t string
						switch o.typ {
						case 'F':
							t = fmt.Sprintf("F:%d:%s:%s:%s", g, pathStr(o.path), o.kind, sv(o.slice))
						case 'N':
							t = fmt.Sprintf("N:%d:%d:%d:%s:%s", g, o.t, o.inner, o.kind, sv(o.slice))
						default:
							t = fmt.Sprintf("R:%d", g)
						}
						mine = append(mine, logged{s1, g, t, out})
					}
					if j%2 == 0 {
						runtime.Gosched()
					}
				}
				s2 := atomic.AddUint64(&seq, 1)
				_ = res.Close()
				if s2 < logLimit {
					mine = append(mine, logged{s2, g, fmt.Sprintf("C:%d", g), "ok"})
				}
			}
			mu.Lock()
			logs = append(logs, mine...)
			mu.Unlock()
		}(g)
	}
	wg.Wait()
	runtime.GOMAXPROCS(old)
	sink.OracleN += cf.g * cf.iters
	sink.Count(fmt.Sprintf("conc:g=%d,procs=%d,fast=%v", cf.g, cf.procs, fast))
	for i, b := range bad {
		if i < 5 {
			fail("a goroutine sharing a lazy Decoder observed something other than its own input's values", fmt.Sprintf("def=%s g=%d procs=%d fast=%v", d, cf.g, cf.procs, fast), "", b, "conc-isolation")
		}
	}
	// replay the logged prefix of the schedule on the pool state machine.  The log order is the
	// order in which operations STARTED; a goroutine's own operations are in program order, which
	// is all the model's observations depend on (C15_schedule_independence).
	sort.Slice(logs, func(i, j int) bool { return logs[i].seq < logs[j].seq })
	// keep only complete per-goroutine prefixes: drop goroutines whose first logged op is not a decode
	started := map[int]bool{}
	var toks, outs []string
	for _, l := range logs {
		if strings.HasPrefix(l.tok, "D:") {
			started[l.g] = true
		}
		if !started[l.g] {
			continue
		}
		toks = append(toks, l.tok)
		outs = append(outs, l.out)
	}
	if len(toks) > 0 {
		sink.Add("schedules", fmt.Sprintf("P 1 %s %s", d, strings.Join(toks, " ")), strings.Join(outs, " "), true)
	}
}
