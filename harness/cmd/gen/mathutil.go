package main

import "math"

func mathFloat32bits(f float32) uint32 { return math.Float32bits(f) }
func mathFloat64bits(f float64) uint64 { return math.Float64bits(f) }
