package main

import (
	"google.golang.org/protobuf/encoding/protowire"
	"google.golang.org/protobuf/proto"
	"google.golang.org/protobuf/reflect/protoreflect"
	"google.golang.org/protobuf/types/dynamicpb"

	"verif/harness/internal/hx"
	"verif/harness/pbrender"
)

// Legal re-encodings of a message value (C06): every encoding below is one a conforming protobuf
// writer may produce for the value -- fields in any order, repeated scalars packed / unpacked / split
// over several runs (also empty ones), superseded earlier occurrences of singular fields and oneof
// members, singular messages split over two occurrences (to be merged), map entries with key and value
// in either order, omitted when default, duplicated, with foreign fields inside the entry, duplicate
// map keys (last wins), unknown fields of all four wire types interleaved.
//
// The value that a conforming parser must obtain is computed by the reference (dynamicpb) from the
// produced bytes themselves, so the generator only has to stay inside the legal space.

type chunk []byte

func appendScalar(b []byte, fd protoreflect.FieldDescriptor, v protoreflect.Value) []byte {
	switch fd.Kind() {
	case protoreflect.BoolKind:
		return protowire.AppendVarint(b, protowire.EncodeBool(v.Bool()))
	case protoreflect.EnumKind:
		return protowire.AppendVarint(b, uint64(int64(v.Enum())))
	case protoreflect.Int32Kind, protoreflect.Int64Kind:
		return protowire.AppendVarint(b, uint64(v.Int()))
	case protoreflect.Sint32Kind, protoreflect.Sint64Kind:
		return protowire.AppendVarint(b, protowire.EncodeZigZag(v.Int()))
	case protoreflect.Uint32Kind, protoreflect.Uint64Kind:
		return protowire.AppendVarint(b, v.Uint())
	case protoreflect.Sfixed32Kind:
		return protowire.AppendFixed32(b, uint32(v.Int()))
	case protoreflect.Fixed32Kind:
		return protowire.AppendFixed32(b, uint32(v.Uint()))
	case protoreflect.FloatKind:
		return protowire.AppendFixed32(b, mathFloat32bits(float32(v.Float())))
	case protoreflect.Sfixed64Kind:
		return protowire.AppendFixed64(b, uint64(v.Int()))
	case protoreflect.Fixed64Kind:
		return protowire.AppendFixed64(b, v.Uint())
	case protoreflect.DoubleKind:
		return protowire.AppendFixed64(b, mathFloat64bits(v.Float()))
	case protoreflect.StringKind:
		return protowire.AppendBytes(b, []byte(v.String()))
	case protoreflect.BytesKind:
		return protowire.AppendBytes(b, v.Bytes())
	}
	panic("appendScalar: " + fd.Kind().String())
}

func wireType(fd protoreflect.FieldDescriptor) protowire.Type {
	switch fd.Kind() {
	case protoreflect.Sfixed32Kind, protoreflect.Fixed32Kind, protoreflect.FloatKind:
		return protowire.Fixed32Type
	case protoreflect.Sfixed64Kind, protoreflect.Fixed64Kind, protoreflect.DoubleKind:
		return protowire.Fixed64Type
	case protoreflect.StringKind, protoreflect.BytesKind, protoreflect.MessageKind:
		return protowire.BytesType
	}
	return protowire.VarintType
}

func packable(fd protoreflect.FieldDescriptor) bool {
	switch fd.Kind() {
	case protoreflect.StringKind, protoreflect.BytesKind, protoreflect.MessageKind, protoreflect.GroupKind:
		return false
	}
	return true
}

// one occurrence of a non-message scalar or of a message value
func (g *vgen) occurrence(num protowire.Number, fd protoreflect.FieldDescriptor, v protoreflect.Value) chunk {
	b := protowire.AppendTag(nil, num, wireType(fd))
	if fd.Kind() == protoreflect.MessageKind {
		return protowire.AppendBytes(b, g.message(v.Message()))
	}
	return appendScalar(b, fd, v)
}

type vgen struct {
	r       *hx.Rng
	depth   int
	unknown bool // interleave unknown fields
	merge   bool // split singular messages over two occurrences
	noTrick bool
}

func (g *vgen) unknownField(md protoreflect.MessageDescriptor) chunk {
	var num protowire.Number
	for {
		num = protowire.Number(1 + g.r.Intn(3000))
		if g.r.Intn(4) == 0 {
			num = protowire.Number(1<<29 - 1 - g.r.Intn(5))
		}
		if fieldByNumber(md, num) == nil {
			break
		}
	}
	switch g.r.Intn(4) {
	case 0:
		return protowire.AppendVarint(protowire.AppendTag(nil, num, protowire.VarintType), g.r.U64()>>uint(g.r.Intn(64)))
	case 1:
		return protowire.AppendFixed32(protowire.AppendTag(nil, num, protowire.Fixed32Type), uint32(g.r.U64()))
	case 2:
		return protowire.AppendFixed64(protowire.AppendTag(nil, num, protowire.Fixed64Type), g.r.U64())
	}
	return protowire.AppendBytes(protowire.AppendTag(nil, num, protowire.BytesType), g.r.Bytes(g.r.Intn(6)))
}

// chunks for one populated field (order among them matters)
func (g *vgen) fieldChunks(m protoreflect.Message, fd protoreflect.FieldDescriptor, v protoreflect.Value) []chunk {
	num := protowire.Number(fd.Number())
	r := g.r
	switch {
	case fd.IsMap():
		var out []chunk
		kd, vd := fd.MapKey(), fd.MapValue()
		var entries []struct{ k, v protoreflect.Value }
		v.Map().Range(func(k protoreflect.MapKey, mv protoreflect.Value) bool {
			entries = append(entries, struct{ k, v protoreflect.Value }{k.Value(), mv})
			return true
		})
		for _, e := range entries {
			if !g.noTrick && r.Intn(5) == 0 { // superseded earlier entry with the same key
				out = append(out, g.entry(num, kd, vd, e.k, randValueFor(r, vd), false))
			}
			out = append(out, g.entry(num, kd, vd, e.k, e.v, true))
		}
		return out
	case fd.IsList():
		l := v.List()
		if !packable(fd) {
			var out []chunk
			for i := 0; i < l.Len(); i++ {
				out = append(out, g.occurrence(num, fd, l.Get(i)))
			}
			return out
		}
		var out []chunk
		i := 0
		if !g.noTrick && r.Intn(6) == 0 {
			out = append(out, protowire.AppendBytes(protowire.AppendTag(nil, num, protowire.BytesType), nil)) // empty packed run
		}
		for i < l.Len() {
			mode := r.Intn(3)
			if g.noTrick {
				if fd.IsPacked() {
					mode = 2
				} else {
					mode = 0
				}
			}
			if mode == 0 { // unpacked element
				out = append(out, g.occurrence(num, fd, l.Get(i)))
				i++
				continue
			}
			n := 1 + r.Intn(l.Len()-i)
			if mode == 2 {
				n = l.Len() - i
			}
			var body []byte
			for k := 0; k < n; k++ {
				body = appendScalar(body, fd, l.Get(i+k))
			}
			out = append(out, protowire.AppendBytes(protowire.AppendTag(nil, num, protowire.BytesType), body))
			i += n
		}
		return out
	case fd.Kind() == protoreflect.MessageKind:
		if g.merge && r.Intn(3) == 0 {
			// split the sub-message's fields over two occurrences: a conforming parser merges them
			full := g.messageChunks(v.Message())
			cut := r.Intn(len(full) + 1)
			a, b := concatChunks(full[:cut]), concatChunks(full[cut:])
			tag := protowire.AppendTag(nil, num, protowire.BytesType)
			return []chunk{protowire.AppendBytes(append([]byte{}, tag...), a), protowire.AppendBytes(append([]byte{}, tag...), b)}
		}
		return []chunk{g.occurrence(num, fd, v)}
	default:
		var out []chunk
		if !g.noTrick && r.Intn(5) == 0 { // superseded earlier occurrence
			out = append(out, g.occurrence(num, fd, randValueFor(r, fd)))
		}
		return append(out, g.occurrence(num, fd, v))
	}
}

func randValueFor(r *hx.Rng, fd protoreflect.FieldDescriptor) protoreflect.Value {
	if fd.Kind() == protoreflect.MessageKind {
		// superseded values stay shallow and carry only scalars, so that generating them terminates
		m := dynamicpb.NewMessage(fd.Message())
		fs := fd.Message().Fields()
		for i := 0; i < fs.Len(); i++ {
			f := fs.Get(i)
			if f.Kind() != protoreflect.MessageKind && !f.IsList() && !f.IsMap() && f.ContainingOneof() == nil && r.Intn(2) == 0 {
				m.Set(f, randScalar(r, f))
			}
		}
		fillRequired(r, m, 3) // writers only emit initialised messages
		return protoreflect.ValueOfMessage(m)
	}
	return randScalar(r, fd)
}

func isDefault(fd protoreflect.FieldDescriptor, v protoreflect.Value) bool {
	switch fd.Kind() {
	case protoreflect.MessageKind:
		// an empty message value may be left out of a map entry
		return proto.Size(v.Message().Interface()) == 0
	case protoreflect.StringKind:
		return v.String() == ""
	case protoreflect.BytesKind:
		return len(v.Bytes()) == 0
	case protoreflect.BoolKind:
		return !v.Bool()
	case protoreflect.EnumKind:
		return v.Enum() == 0
	case protoreflect.FloatKind, protoreflect.DoubleKind:
		return mathFloat64bits(v.Float()) == 0
	case protoreflect.Int32Kind, protoreflect.Int64Kind, protoreflect.Sint32Kind, protoreflect.Sint64Kind, protoreflect.Sfixed32Kind, protoreflect.Sfixed64Kind:
		return v.Int() == 0
	}
	return v.Uint() == 0
}

func (g *vgen) entry(num protowire.Number, kd, vd protoreflect.FieldDescriptor, k, v protoreflect.Value, final bool) chunk {
	r := g.r
	kc := g.occurrence(1, kd, k)
	vc := g.occurrence(2, vd, v)
	var parts []chunk
	shape := r.Intn(8)
	if g.noTrick {
		shape = 0
	}
	switch shape {
	case 1: // value first
		parts = []chunk{vc, kc}
	case 2: // default key / value omitted
		if !isDefault(kd, k) {
			parts = append(parts, kc)
		}
		if !isDefault(vd, v) {
			parts = append(parts, vc)
		}
	case 3: // duplicated key and value inside the entry: last wins
		parts = []chunk{g.occurrence(1, kd, randScalar(r, kd)), kc, g.occurrence(2, vd, randValueFor(r, vd)), vc}
		if vd.Kind() == protoreflect.MessageKind {
			parts = []chunk{g.occurrence(1, kd, randScalar(r, kd)), kc, vc} // (message values would merge)
		}
	case 4: // a foreign field inside the entry is ignored
		parts = []chunk{kc, protowire.AppendVarint(protowire.AppendTag(nil, 3, protowire.VarintType), 7), vc}
	default:
		parts = []chunk{kc, vc}
	}
	return protowire.AppendBytes(protowire.AppendTag(nil, num, protowire.BytesType), concatChunks(parts))
}

func concatChunks(cs []chunk) []byte {
	var out []byte
	for _, c := range cs {
		out = append(out, c...)
	}
	return out
}

// all chunks of a message, fields interleaved at random (per-field order kept)
func (g *vgen) messageChunks(m protoreflect.Message) []chunk {
	r := g.r
	var groups [][]chunk // each group keeps its internal order
	oneofChunks := map[string][]chunk{}
	m.Range(func(fd protoreflect.FieldDescriptor, v protoreflect.Value) bool {
		cs := g.fieldChunks(m, fd, v)
		if od := fd.ContainingOneof(); od != nil && !od.IsSynthetic() {
			// an earlier, superseded member of the same oneof
			if !g.noTrick && r.Intn(4) == 0 && od.Fields().Len() > 1 {
				other := od.Fields().Get(r.Intn(od.Fields().Len()))
				if other.Number() != fd.Number() {
					cs = append([]chunk{g.occurrence(protowire.Number(other.Number()), other, randValueFor(r, other))}, cs...)
				}
			}
			oneofChunks[string(od.Name())] = cs
			return true
		}
		groups = append(groups, cs)
		return true
	})
	for _, cs := range oneofChunks {
		groups = append(groups, cs)
	}
	if g.unknown {
		for k := r.Intn(3); k > 0; k-- {
			groups = append(groups, []chunk{g.unknownField(m.Descriptor())})
		}
	}
	// the message's own unknown fields stay in order
	if u := m.GetUnknown(); len(u) > 0 {
		groups = append(groups, []chunk{chunk(u)})
	}
	// random merge
	var out []chunk
	for len(groups) > 0 {
		i := 0
		if !g.noTrick {
			i = r.Intn(len(groups))
		}
		out = append(out, groups[i][0])
		groups[i] = groups[i][1:]
		if len(groups[i]) == 0 {
			groups = append(groups[:i], groups[i+1:]...)
		}
	}
	return out
}

func (g *vgen) message(m protoreflect.Message) []byte {
	g.depth++
	defer func() { g.depth-- }()
	if g.depth > 40 {
		panic("vgen: nesting too deep: " + string(m.Descriptor().FullName()) + " " + pbrenderMsg(m))
	}
	return concatChunks(g.messageChunks(m))
}

// canonical encoding (what the marshal checks use) for comparison purposes
func canonical(m proto.Message) []byte {
	b, err := proto.MarshalOptions{Deterministic: true, AllowPartial: true}.Marshal(m)
	hx.Must(err)
	return b
}

var _ = dynamicpb.NewMessage

func pbrenderMsg(m protoreflect.Message) string {
	s := pbrender.Message(m)
	if len(s) > 300 {
		s = s[:300]
	}
	return s
}
