package main

import (
	"fmt"
	"strconv"
	"strings"
	"unicode/utf8"

	"google.golang.org/protobuf/encoding/protowire"
	"google.golang.org/protobuf/proto"
	"google.golang.org/protobuf/reflect/protoreflect"
	"google.golang.org/protobuf/types/dynamicpb"

	"verif/harness/internal/hx"
	"verif/harness/pbrender"
)

// reference verdict on a byte string: "err" or "ok <render>"; partial = missing required fields tolerated
func refParse(md protoreflect.MessageDescriptor, b []byte, partial bool) (out string) {
	// protobuf-go's reflective decoder itself panics on some malformed map entries ("cannot convert
	// nil to map key"): count that as the reference not accepting the input
	defer func() {
		if x := recover(); x != nil {
			out = "err"
		}
	}()
	ref := dynamicpb.NewMessage(md)
	if err := (proto.UnmarshalOptions{AllowPartial: partial, Resolver: corpusTypes}).Unmarshal(b, ref); err != nil {
		return "err"
	}
	return "ok " + pbrender.Message(ref)
}

func hasRequiredDeep(md protoreflect.MessageDescriptor, seen map[protoreflect.FullName]bool) bool {
	if seen[md.FullName()] {
		return false
	}
	seen[md.FullName()] = true
	fs := md.Fields()
	for i := 0; i < fs.Len(); i++ {
		fd := fs.Get(i)
		if fd.Cardinality() == protoreflect.Required {
			return true
		}
		if fd.Kind() == protoreflect.MessageKind {
			sub := fd.Message()
			if fd.IsMap() {
				if fd.MapValue().Kind() != protoreflect.MessageKind {
					continue
				}
				sub = fd.MapValue().Message()
			}
			if hasRequiredDeep(sub, seen) {
				return true
			}
		}
	}
	return false
}

type ucase struct {
	c      *cfile
	md     protoreflect.MessageDescriptor
	input  []byte
	pre    []byte
	stream string
	legal  bool // a conforming writer's encoding: the generated Unmarshal must accept it
}

func mutate(r *hx.Rng, b []byte) []byte {
	m := append([]byte{}, b...)
	if len(m) == 0 {
		return r.Bytes(1 + r.Intn(4))
	}
	j := r.Intn(len(m))
	m[j] = []byte{m[j] + 1, m[j] - 1, m[j] ^ 0x80, 0xFF, 0x00, m[j] | 7, m[j]&0xF8 | 3, m[j]&0xF8 | 4}[r.Intn(8)]
	return m
}

// inflate one length prefix of the encoding
func inflate(r *hx.Rng, b []byte) []byte {
	// find LEN fields at top level
	var offs []int
	p := b
	off := 0
	for len(p) > 0 {
		num, typ, n := protowire.ConsumeTag(p)
		if n < 0 {
			break
		}
		m := protowire.ConsumeFieldValue(num, typ, p[n:])
		if m < 0 {
			break
		}
		if typ == protowire.BytesType {
			offs = append(offs, off+n)
		}
		p = p[n+m:]
		off += n + m
	}
	if len(offs) == 0 {
		return mutate(r, b)
	}
	at := offs[r.Intn(len(offs))]
	_, ln := protowire.ConsumeVarint(b[at:])
	big := []uint64{uint64(len(b)) + 1, 1<<31 - 1, 1 << 31, 1 << 40, 1 << 63, ^uint64(0)}[r.Intn(6)]
	out := append([]byte{}, b[:at]...)
	out = protowire.AppendVarint(out, big)
	return append(out, b[at+ln:]...)
}

func streamUnmarshal(r *hx.Rng, cfs []*cfile, bs *builtSet) {
	reportUnusable(bs)
	for _, bv := range bs.variants {
		var cases []ucase
		for _, c := range cfs {
			if !bv.OK[c.F.Base] {
				continue
			}
			for _, md := range c.messages() {
				vals := genValues(r, md)
				// map entries reduced to their key / their value / nothing, for every map field (an omitted message
				// value is the empty message: when its type has required fields the input lacks a required field)
				if prop == "C06" || prop == "C17" || prop == "C08" {
					for i := 0; i < md.Fields().Len(); i++ {
						fd := md.Fields().Get(i)
						if !fd.IsMap() {
							continue
						}
						g := &vgen{r: r, noTrick: true}
						kc := g.occurrence(1, fd.MapKey(), randScalar(r, fd.MapKey()))
						vc := g.occurrence(2, fd.MapValue(), randValueFor(r, fd.MapValue()))
						for _, parts := range [][]chunk{{kc}, {vc}, {}, {vc, kc}} {
							in := protowire.AppendBytes(protowire.AppendTag(nil, fd.Number(), protowire.BytesType), concatChunks(parts))
							// plus the message's own required fields, so that only the entry decides
							base := dynamicpb.NewMessage(md)
							fillRequired(r, base, 3)
							in = append(canonical(base), in...)
							cases = append(cases, ucase{c, md, in, nil, "mapedge", prop != "C08"})
						}
					}
				}
				for vi, v := range vals {
					canon := canonical(v)
					pre := []byte{}
					if vi%2 == 1 {
						pre = canonical(vals[r.Intn(len(vals))])
					}
					switch prop {
					case "C06", "C07":
						cases = append(cases, ucase{c, md, canon, pre, "canonical", true})
						nv := 2
						if thorough {
							nv = 4
						}
						for k := 0; k < nv; k++ {
							g := &vgen{r: r, unknown: prop == "C07" || k%2 == 1, merge: k%2 == 1}
							cases = append(cases, ucase{c, md, g.message(v), pre, "variant", true})
						}
					case "C10":
						cases = append(cases, ucase{c, md, canon, nil, "canonical", true})
						g := &vgen{r: r, unknown: true}
						cases = append(cases, ucase{c, md, g.message(v), nil, "variant", true})
					case "C17":
						cases = append(cases, ucase{c, md, canon, pre, "canonical", true})
					case "C08":
						if !thorough && vi%5 != 0 || thorough && vi%3 != 0 {
							continue // (quick: every fifth value, thorough: every third)
						}
						g := &vgen{r: r, unknown: true, noTrick: true}
						base := g.message(v)
						cases = append(cases, ucase{c, md, base, pre, "valid", false})
						// the same value as legal wire data no encoder emits: split / mixed packed runs, empty runs, superseded
						// occurrences, sub-messages split over two occurrences
						g2 := &vgen{r: r, unknown: true, merge: true}
						cases = append(cases, ucase{c, md, g2.message(v), nil, "valid-variant", false}, ucase{c, md, g2.message(v), pre, "valid-variant", false})
						step, limit := 1, 40
						if thorough {
							limit = 60
						}
						if len(base) > limit {
							step = len(base) / limit
						}
						for cut := 0; cut < len(base); cut += step {
							cases = append(cases, ucase{c, md, base[:cut], nil, "truncated", false})
						}
						for k := 0; k < len(base); k += step {
							m := append([]byte{}, base...)
							m[k] = []byte{m[k] + 1, m[k] ^ 0x80, 0xFF, 0x00, m[k]&0xF8 | 3, m[k] | 7}[r.Intn(6)]
							cases = append(cases, ucase{c, md, m, nil, "mutated", false})
						}
						cases = append(cases, ucase{c, md, inflate(r, base), nil, "inflated", false}, ucase{c, md, inflate(r, base), pre, "inflated", false},
							ucase{c, md, r.Bytes(1 + r.Intn(16)), nil, "random", false})
						if vi%10 == 0 || thorough && vi%4 == 0 {
							// an unknown field whose KEY is a non-minimal varint (well-formed wire data no writer emits), first / last
							unk := g.unknownField(md)
							_, _, kn := protowire.ConsumeTag(unk)
							pad := append(append([]byte{}, unk[:kn-1]...), unk[kn-1]|0x80, 0x00)
							pad = append(pad, unk[kn:]...)
							cases = append(cases, ucase{c, md, append(append([]byte{}, base...), pad...), nil, "nonminkey", false},
								ucase{c, md, append(append([]byte{}, pad...), base...), pre, "nonminkey", false})
						}
					}
				}
			}
		}
		var reqs []string
		for _, u := range cases {
			switch prop {
			case "C07":
				// (every other case decodes into a destination that already holds another message WITH unknown fields)
				pre := u.pre
				if len(pre) > 0 {
					g := &vgen{r: r}
					pre = append(append([]byte{}, pre...), g.unknownField(u.md)...)
				}
				reqs = append(reqs, fmt.Sprintf("RT %s %s %s", u.md.FullName(), hx.B(u.input), hx.B(pre)))
			case "C10":
				reqs = append(reqs, fmt.Sprintf("AL %s %s", u.md.FullName(), hx.B(u.input)))
			default:
				reqs = append(reqs, fmt.Sprintf("UM %s %s %s", u.md.FullName(), hx.B(u.input), hx.B(u.pre)))
			}
		}
		resps, derr := runDriver(bv.Driver, reqs)
		if derr != nil {
			fail("the driver process running generated code died (fatal error / out of memory)", bv.V.Name(), "all requests answered", derr.Error(), "driver-died")
		}
		// C08, the most literal reference: the owning runtime's own decoder on the SAME generated Go type (protobuf-go's
		// fast path, gogo's table-driven code), for a sample of the inputs and for all with non-minimal unknown keys
		if prop == "C08" && bv.V.Runtime() == "google" {
			// (protobuf-go is THE reference runtime of the properties; gogo's own decoder differs from protobuf-go on
			// illegal encodings -- e.g. it un-zig-zags a sint32 varint of more than 32 bits before truncating, protobuf-go
			// and csproto after -- and files unknown fields of extendable messages under its extension store)
			var ruIdx []int
			var ruReqs []string
			for i, u := range cases {
				if u.stream == "nonminkey" || i%4 == 0 {
					ruIdx = append(ruIdx, i)
					ruReqs = append(ruReqs, fmt.Sprintf("RU %s %s", u.md.FullName(), hx.B(u.input)))
				}
			}
			ruResps, _ := runDriver(bv.Driver, ruReqs)
			for k, i := range ruIdx {
				u := cases[i]
				setCtx(bv, u.md, u.input)
				sink.OracleN++
				sink.Count("runtime-own-decoder")
				if strings.HasPrefix(resps[i], "ok ") && strings.HasPrefix(ruResps[k], "ok ") && resps[i] != ruResps[k] {
					fail("generated Unmarshal and the owning runtime's own decoder both accept the input but decode different messages",
						fmt.Sprintf("variant=%s type=%s input=%s", bv.V.Name(), u.md.FullName(), hx.B(u.input)), ruResps[k], resps[i], classify("um-vs-runtime-differs", u.md, u.input))
				}
			}
			failCtx.suffix = ""
		}
		if prop == "C08" {
			deepNesting(r, cfs, bv)
		}
		for i, u := range cases {
			resp := resps[i]
			cs := fmt.Sprintf("variant=%s type=%s input=%s prefill=%s", bv.V.Name(), u.md.FullName(), hx.B(u.input), hx.B(u.pre))
			sink.OracleN++
			sink.Count("stream:" + u.stream)
			outside := setCtx(bv, u.md, u.input)
			if resp == "driver-died" {
				continue
			}
			if resp == "panic" {
				fail("generated Unmarshal panicked", cs, "error or message", "panic", "um-panic")
			}
			refPartial := refParse(u.md, u.input, true)
			refStrict := refParse(u.md, u.input, false)
			idx := u.c.Idx[u.c.relName(u.md)]
			switch prop {
			case "C06":
				sink.Count("ref:" + strings.SplitN(refPartial, " ", 2)[0])
				if refStrict == "err" {
					// missing required fields: C17's business
					if refPartial != "err" && resp != "err" && resp != "panic" {
						// still compare the partial message
					}
				}
				if refPartial == "err" {
					hx.Must(fmt.Errorf("harness: variant generator produced bytes the reference rejects: %s", cs))
				}
				if refStrict != "err" && resp != refStrict {
					cls := "um-differs"
					if resp == "err" {
						cls = "um-reject"
					}
					fail("generated Unmarshal disagrees with the reference on a legal encoding", cs, refStrict, resp, classify(cls, u.md, u.input))
				}
				if !outside {
					sink.Add("unmarshal:"+bv.V.Name(), fmt.Sprintf("G UM@%s %s %d %s", bv.V.Name(), u.c.Term, idx, hx.B(u.input)), resp, len(u.input) > 0)
				}
				// the variant generator must stay inside the hypothesis space of the C06 theorems (GenLegal.v),
				// and the finding classifier must agree with the theorem's exclusion predicate
				if bv == bs.variants[0] {
					dup := "nodup"
					if dupSingularMsg(u.md, u.input) {
						dup = "dup"
					}
					// legal encodings only nest initialised messages (a conforming writer refuses to emit others); the
					// corpus values with unset required fields below the root fall outside, by this independent test
					leg := "legal"
					if nestedUninit(u.md, u.input) {
						leg = "illegal"
						sink.Count("legal:nested-uninitialised")
					}
					sink.Add("legal", fmt.Sprintf("G LG %s %d %s", u.c.Term, idx, hx.B(u.input)), leg+" "+dup, len(u.input) > 0)
				}
			case "C08":
				sink.Count("resp:" + strings.SplitN(resp, " ", 2)[0])
				// the reference semantics of the model (RefMsg.v + varints_fit) against dynamicpb on the same
				// arbitrary bytes: what the both-accept theorem quantifies over is what protobuf-go does
				// (one direction: RefWire.v is deliberately more liberal than protowire -- field number 0, numbers
				// above 2^29-1, varints above 64 bits -- so only inputs protobuf-go ACCEPTS are compared: there the
				// model must accept too, satisfy varints_fit, and read the same message)
				if bv == bs.variants[0] && refPartial != "err" {
					if why := outsideRefModel(u.md, u.input); why != "" {
						sink.Count("ref-arbitrary-outside:" + why)
					} else {
						sink.Add("refarbitrary", fmt.Sprintf("G RA %s %d %s", u.c.Term, idx, hx.B(u.input)), refPartial, len(u.input) > 0)
					}
				}
				if strings.HasPrefix(resp, "ok ") && strings.HasPrefix(refStrict, "ok ") && resp != refStrict {
					fail("generated Unmarshal and the reference both accept the input but decode different messages", cs, refStrict, resp, classify("um-silent-differs", u.md, u.input))
				}
				if !outside {
					sink.Add("unmarshal:"+bv.V.Name(), fmt.Sprintf("G UM@%s %s %d %s", bv.V.Name(), u.c.Term, idx, hx.B(u.input)), resp, len(u.input) > 0)
				}
			case "C17":
				missing := refStrict == "err" && refPartial != "err"
				if missing && resp != "err" {
					fail("Unmarshal of bytes lacking a required field did not return an error", cs, "err", resp, "req-unmarshal-missing")
				}
				if !missing && refStrict != "err" && resp == "err" {
					fail("Unmarshal reported an error although all required fields are present", cs, refStrict, resp, classify("req-unmarshal-spurious", u.md, u.input))
				}
				if !outside {
					sink.Add("unmarshal:"+bv.V.Name(), fmt.Sprintf("G UM@%s %s %d %s", bv.V.Name(), u.c.Term, idx, hx.B(u.input)), resp, len(u.input) > 0)
				}
			case "C07":
				// Unmarshal then Marshal: the unknown fields of the input must come out again, byte for byte
				f := strings.Split(resp, " ")
				if refStrict == "err" {
					continue
				}
				if len(f) != 3 || f[0] != "ok" {
					fail("generated Unmarshal/Marshal failed on a legal encoding with unknown fields", cs, "ok", resp, classify("rt-fail", u.md, u.input))
					continue
				}
				out := hx.UnB(f[2])
				if fmt.Sprint(len(out)) != f[1] {
					fail("Size() does not account for the retained unknown fields", cs, fmt.Sprint(len(out)), f[1], "rt-size")
				}
				refIn := dynamicpb.NewMessage(u.md)
				_ = (proto.UnmarshalOptions{AllowPartial: true, Resolver: corpusTypes}).Unmarshal(u.input, refIn)
				refOut := dynamicpb.NewMessage(u.md)
				if err := (proto.UnmarshalOptions{AllowPartial: true, Resolver: corpusTypes}).Unmarshal(out, refOut); err != nil {
					fail("re-marshaled bytes are not parsable by the reference", cs, "parsable", err.Error(), "rt-unparsable")
					continue
				}
				if pbrender.Message(refIn) != pbrender.Message(refOut) {
					fail("unknown fields (or known ones) were lost or altered by Unmarshal followed by Marshal", cs, pbrender.Message(refIn), pbrender.Message(refOut), classify("rt-lost", u.md, u.input))
				}
				if !outside {
					sink.Add("roundtrip:"+bv.V.Name(), fmt.Sprintf("G RT@%s %s %d %s", bv.V.Name(), u.c.Term, idx, hx.B(u.input)), f[1]+" "+canonHex(u.md, f[2]), len(u.input) > 0)
				}
			case "C10":
				if bv.V.Unsafe {
					sink.Count("alias:unsafe-variant-skipped")
					continue // the user opted into aliasing
				}
				if strings.HasPrefix(resp, "ok changed") {
					fail("message decoded in safe mode changed when the input buffer was overwritten", cs, "unchanged", resp, "alias")
				}
				if !outside {
					sink.Add("alias:"+bv.V.Name(), fmt.Sprintf("G AL@%s %s %d %s", bv.V.Name(), u.c.Term, idx, hx.B(u.input)), strings.Join(strings.Split(resp, " ")[:min(2, len(strings.Split(resp, " ")))], " "), len(u.input) > 0)
				}
			}
		}
	}
}

// ---------------------------------------------------------------------------------------------
// classification of inputs that fall under a recorded finding (known_findings.json)

// G12: some singular message field (also a oneof message member, or the message value inside one map
// entry) occurs more than once, at any depth: the reference merges the occurrences, the generated
// Unmarshal keeps the last one
func dupSingularMsg(md protoreflect.MessageDescriptor, b []byte) bool {
	count := map[protowire.Number]int{}
	for len(b) > 0 {
		num, typ, n := protowire.ConsumeTag(b)
		if n < 0 {
			return false
		}
		m := protowire.ConsumeFieldValue(num, typ, b[n:])
		if m < 0 {
			return false
		}
		fd := fieldByNumber(md, num)
		if fd != nil && typ == protowire.BytesType && fd.Kind() == protoreflect.MessageKind {
			val, _ := protowire.ConsumeBytes(b[n:])
			if fd.IsMap() {
				if dupSingularMsg(fd.Message(), val) {
					return true
				}
			} else {
				if !fd.IsList() {
					count[num]++
					if count[num] > 1 {
						return true
					}
				}
				if dupSingularMsg(fd.Message(), val) {
					return true
				}
			}
		}
		b = b[n+m:]
	}
	return false
}

// G6: a proto3 implicit-presence float/double field holding -0.0, at any depth
func hasNegZero(md protoreflect.MessageDescriptor, b []byte) bool {
	for len(b) > 0 {
		num, typ, n := protowire.ConsumeTag(b)
		if n < 0 {
			return false
		}
		m := protowire.ConsumeFieldValue(num, typ, b[n:])
		if m < 0 {
			return false
		}
		if fd := fieldByNumber(md, num); fd != nil {
			implicit := fd.Syntax() == protoreflect.Proto3 && !fd.HasPresence() && !fd.IsList() && !fd.IsMap()
			switch {
			case implicit && fd.Kind() == protoreflect.FloatKind && typ == protowire.Fixed32Type:
				if v, _ := protowire.ConsumeFixed32(b[n:]); v == 0x80000000 {
					return true
				}
			case implicit && fd.Kind() == protoreflect.DoubleKind && typ == protowire.Fixed64Type:
				if v, _ := protowire.ConsumeFixed64(b[n:]); v == 0x8000000000000000 {
					return true
				}
			case typ == protowire.BytesType && fd.IsMap():
				// map values are always emitted (no `!= 0` test): only message values can hold the pattern
				if vd := fd.MapValue(); vd.Kind() == protoreflect.MessageKind {
					e, _ := protowire.ConsumeBytes(b[n:])
					for len(e) > 0 {
						n2, t2, c := protowire.ConsumeTag(e)
						if c < 0 {
							break
						}
						k2 := protowire.ConsumeFieldValue(n2, t2, e[c:])
						if k2 < 0 {
							break
						}
						if n2 == 2 && t2 == protowire.BytesType {
							pv, _ := protowire.ConsumeBytes(e[c:])
							if hasNegZero(vd.Message(), pv) {
								return true
							}
						}
						e = e[c+k2:]
					}
				}
			case typ == protowire.BytesType && fd.Kind() == protoreflect.MessageKind:
				val, _ := protowire.ConsumeBytes(b[n:])
				if hasNegZero(fd.Message(), val) {
					return true
				}
			}
		}
		b = b[n+m:]
	}
	return false
}

func classify(base string, md protoreflect.MessageDescriptor, input []byte) string {
	if dupSingularMsg(md, input) {
		return base + ":dupmsg"
	}
	if nonMinimalUnknownKey(md, input) {
		return base + ":nonminkey"
	}
	if hasNegZero(md, input) {
		return base + ":negzero"
	}
	return base
}

// nestedUninit: some occurrence of a message-typed field (singular, oneof member, list element, map value;
// a map entry without a value counts as the empty message), at any depth, is a message with a required
// field unset.  Each occurrence is judged on its own bytes, as GenLegal.v does.
func nestedUninit(md protoreflect.MessageDescriptor, b []byte) bool {
	uninit := func(sub protoreflect.MessageDescriptor, payload []byte) bool {
		m := dynamicpb.NewMessage(sub)
		bad := false
		func() {
			defer func() {
				if recover() != nil {
					bad = true
				}
			}()
			if err := (proto.UnmarshalOptions{AllowPartial: true, Resolver: corpusTypes}).Unmarshal(payload, m); err != nil {
				bad = true
			}
		}()
		if bad {
			return false // not a parsable message: illegal for other reasons, not ours to flag
		}
		return proto.CheckInitialized(m) != nil || nestedUninit(sub, payload)
	}
	for len(b) > 0 {
		num, typ, n := protowire.ConsumeTag(b)
		if n < 0 {
			return false
		}
		k := protowire.ConsumeFieldValue(num, typ, b[n:])
		if k < 0 {
			return false
		}
		if fd := fieldByNumber(md, num); fd != nil && typ == protowire.BytesType && fd.Kind() == protoreflect.MessageKind {
			val, _ := protowire.ConsumeBytes(b[n:])
			if fd.IsMap() {
				if vd := fd.MapValue(); vd.Kind() == protoreflect.MessageKind {
					seen := false
					e := val
					for len(e) > 0 {
						n2, t2, c := protowire.ConsumeTag(e)
						if c < 0 {
							break
						}
						k2 := protowire.ConsumeFieldValue(n2, t2, e[c:])
						if k2 < 0 {
							break
						}
						if n2 == 2 && t2 == protowire.BytesType {
							seen = true
							pv, _ := protowire.ConsumeBytes(e[c:])
							if uninit(vd.Message(), pv) {
								return true
							}
						}
						e = e[c+k2:]
					}
					if !seen && uninit(vd.Message(), nil) {
						return true
					}
				}
			} else if uninit(fd.Message(), val) {
				return true
			}
		}
		b = b[n+k:]
	}
	return false
}

// outsideRefModel: features of a byte string on which protobuf-go and the reference semantics of the model
// are known to differ by design, so that the two are not compared: group wire types (protowire skips groups
// as unknown fields, RefWire.v has no groups) and invalid UTF-8 in a proto3 string (protobuf-go validates,
// the model's strings are byte strings).
func outsideRefModel(md protoreflect.MessageDescriptor, b []byte) string {
	for len(b) > 0 {
		num, typ, n := protowire.ConsumeTag(b)
		if n < 0 {
			return ""
		}
		if typ == protowire.StartGroupType || typ == protowire.EndGroupType {
			return "group"
		}
		if fieldByNumber(md, num) == nil && n > protowire.SizeVarint(protowire.EncodeTag(num, typ)) {
			return "nonminkey" // protobuf-go re-encodes the key of an unknown field in minimal form (finding G37)
		}
		k := protowire.ConsumeFieldValue(num, typ, b[n:])
		if k < 0 {
			return ""
		}
		if fd := fieldByNumber(md, num); fd != nil && typ == protowire.BytesType {
			val, _ := protowire.ConsumeBytes(b[n:])
			switch {
			case fd.IsMap():
				if why := outsideRefModel(fd.Message(), val); why != "" {
					return why
				}
			case fd.Kind() == protoreflect.MessageKind:
				if why := outsideRefModel(fd.Message(), val); why != "" {
					return why
				}
			case fd.Kind() == protoreflect.StringKind && fd.Syntax() == protoreflect.Proto3 && !utf8.Valid(val):
				return "utf8"
			}
		}
		b = b[n+k:]
	}
	return ""
}

// nonMinimalUnknownKey: some field the schema does not declare (at any depth) has its key written as a
// non-minimal varint.  protobuf-go stores unknown fields as canonical key + raw value, the generated code (and
// the model's reference semantics) keep the raw bytes: finding G37.
func nonMinimalUnknownKey(md protoreflect.MessageDescriptor, b []byte) bool {
	for len(b) > 0 {
		num, typ, n := protowire.ConsumeTag(b)
		if n < 0 {
			return false
		}
		k := protowire.ConsumeFieldValue(num, typ, b[n:])
		if k < 0 {
			return false
		}
		fd := fieldByNumber(md, num)
		if fd == nil && n > protowire.SizeVarint(protowire.EncodeTag(num, typ)) {
			return true
		}
		if fd != nil && typ == protowire.BytesType && fd.Kind() == protoreflect.MessageKind {
			// (a map entry is a message {1: key, 2: value}: foreign fields inside it are ignored by both sides, its
			// message value is looked into)
			val, _ := protowire.ConsumeBytes(b[n:])
			if nonMinimalUnknownKey(fd.Message(), val) {
				return true
			}
		}
		b = b[n+k:]
	}
	return false
}

// C08, "without allocating memory out of proportion to the input", where the proportion itself may degrade: inputs nested
// hundreds to thousands of levels deep through every self-referential singular message field of the corpus. The yardstick is
// what the owning runtime's own decoder allocates for the same input into the same Go type.
func deepNesting(r *hx.Rng, cfs []*cfile, bv *builtVariant) {
	depths := []int{150, 1500}
	if thorough {
		depths = []int{150, 1500, 5000}
	}
	type dcase struct {
		md    protoreflect.MessageDescriptor
		depth int
		n     int
	}
	var reqs []string
	var cs []dcase
	for _, c := range cfs {
		if !bv.OK[c.F.Base] {
			continue
		}
		for _, md := range c.messages() {
			for i := 0; i < md.Fields().Len(); i++ {
				fd := md.Fields().Get(i)
				if fd.Message() == nil || fd.Message().FullName() != md.FullName() || fd.IsList() || fd.IsMap() || fd.Kind() == protoreflect.GroupKind {
					continue
				}
				base := dynamicpb.NewMessage(md)
				fillRequired(r, base, 1)
				inner := canonical(base)
				for _, d := range depths {
					in := append([]byte{}, inner...)
					for k := 0; k < d; k++ {
						// each level: the required fields of the level (if any), then the child
						lvl := append([]byte{}, inner...)
						lvl = protowire.AppendTag(lvl, fd.Number(), protowire.BytesType)
						lvl = protowire.AppendBytes(lvl, in)
						in = lvl
					}
					reqs = append(reqs, fmt.Sprintf("UA %s %s", md.FullName(), hx.B(in)))
					cs = append(cs, dcase{md, d, len(in)})
				}
			}
		}
	}
	if len(reqs) == 0 {
		return
	}
	resps, derr := runDriver(bv.Driver, reqs)
	if derr != nil {
		fail("the driver process running generated code died on a deeply nested input", bv.V.Name(), "all requests answered", derr.Error(), "driver-died")
	}
	for i, c := range cs {
		f := strings.Split(resps[i], " ")
		sink.OracleN++
		sink.Count("deep-nesting-alloc")
		desc := fmt.Sprintf("variant=%s type=%s self-nested %d levels deep (%d input bytes)", bv.V.Name(), c.md.FullName(), c.depth, c.n)
		if len(f) != 4 {
			if resps[i] != "driver-died" {
				fail("driver could not run the case", desc, "", resps[i], "driver-error")
			}
			continue
		}
		if f[0] == "panic" {
			fail("generated Unmarshal panicked on a deeply nested input", desc, "error or message", resps[i], "um-panic")
			continue
		}
		gen, _ := strconv.ParseUint(f[1], 10, 64)
		ref, _ := strconv.ParseUint(f[3], 10, 64)
		if f[2] == "ok" && gen > 8*ref+64*uint64(c.n)+(256<<10) {
			fail("generated Unmarshal allocates out of proportion to the input on a deeply nested message (yardstick: the owning runtime's own decoder on the same input)",
				desc, fmt.Sprintf("at most 8 x %d + 64 x %d + 256KiB bytes", ref, c.n), fmt.Sprintf("%d bytes allocated", gen), "um-alloc-deep")
		}
	}
}
