package main

import (
	"bytes"
	"fmt"
	"os"
	"os/exec"
	"path/filepath"
	"sort"
	"strings"
	"sync"

	"google.golang.org/protobuf/proto"
	"google.golang.org/protobuf/types/pluginpb"

	"verif/harness/corpus"
)

// A Variant is one combination of generator options.
type Variant struct {
	API        string // "v1" (gogo runtime) or "v2" (google runtime)
	PerMessage bool
	Unsafe     bool
}

func (v Variant) Name() string {
	n := v.API
	if v.PerMessage {
		n += "-permsg"
	} else {
		n += "-single"
	}
	if v.Unsafe {
		n += "-unsafe"
	} else {
		n += "-safe"
	}
	return n
}
func (v Variant) Runtime() string {
	if v.API == "v1" {
		return "gogo"
	}
	return "google"
}
func (v Variant) Param() string {
	p := "paths=source_relative,apiversion=" + v.API
	// both spellings of "off": the option left out, and the option given as false
	if v.PerMessage {
		p += ",filepermessage=true"
	} else if v.Unsafe {
		p += ",filepermessage=false"
	}
	if v.Unsafe {
		p += ",enableunsafedecode=true"
	} else if v.PerMessage {
		p += ",enableunsafedecode=false"
	}
	return p
}

// the pairwise-covering quick set, and all eight
var quickVariants = []Variant{{"v2", false, false}, {"v2", true, true}, {"v1", false, true}, {"v1", true, false}}
var allVariants = []Variant{{"v2", false, false}, {"v2", false, true}, {"v2", true, false}, {"v2", true, true},
	{"v1", false, false}, {"v1", false, true}, {"v1", true, false}, {"v1", true, true}}

type genFile struct {
	Name    string
	Content string
}

// runPlugin pipes a CodeGeneratorRequest through a protoc plug-in.
func runPlugin(bin string, req *pluginpb.CodeGeneratorRequest, cwd string, env []string) ([]genFile, string, error) {
	in, err := proto.Marshal(req)
	if err != nil {
		return nil, "", err
	}
	cmd := exec.Command(bin)
	cmd.Stdin = bytes.NewReader(in)
	cmd.Dir = cwd
	if env != nil {
		cmd.Env = append(os.Environ(), env...)
	}
	var so, se bytes.Buffer
	cmd.Stdout, cmd.Stderr = &so, &se
	if err := cmd.Run(); err != nil {
		return nil, "", fmt.Errorf("plug-in %s failed: %v: %s", filepath.Base(bin), err, se.String())
	}
	var resp pluginpb.CodeGeneratorResponse
	if err := proto.Unmarshal(so.Bytes(), &resp); err != nil {
		return nil, "", fmt.Errorf("plug-in %s wrote an unparsable response: %v", filepath.Base(bin), err)
	}
	if resp.Error != nil {
		return nil, resp.GetError(), nil
	}
	var out []genFile
	for _, f := range resp.File {
		out = append(out, genFile{f.GetName(), f.GetContent()})
	}
	return out, "", nil
}

func request(f *corpus.File, param string) *pluginpb.CodeGeneratorRequest {
	if f.ParamV1 != "" && strings.Contains(param, "apiversion=v1") {
		param += "," + f.ParamV1
	}
	return &pluginpb.CodeGeneratorRequest{
		FileToGenerate: []string{f.ProtoPath()},
		Parameter:      proto.String(param),
		ProtoFile:      f.AllDescriptors(),
	}
}

type fileStatus struct {
	File     string   `json:"file"`
	Variant  string   `json:"variant"`
	GenError string   `json:"gen_error,omitempty"` // plug-in reported an error / crashed
	Compile  string   `json:"compile_error,omitempty"`
	Outputs  []string `json:"outputs,omitempty"`
}

type builtVariant struct {
	V          Variant
	Root       string
	Driver     string
	RaceDriver string          // the same driver built with -race (only when requested)
	OK         map[string]bool // corpus file base -> usable
	Status     []fileStatus
}

const goModTmpl = `module gencorpus

go 1.21

require (
	github.com/CrowdStrike/csproto v0.0.0
	github.com/gogo/protobuf v1.3.2
	github.com/golang/protobuf v1.5.4
	google.golang.org/protobuf v1.36.4
	verif/harness v0.0.0
)

replace github.com/CrowdStrike/csproto => %s

replace github.com/CrowdStrike/csproto/example => %s/example

replace verif/harness => %s
`

func goEnv() []string {
	return append(os.Environ(), "GOFLAGS=-mod=mod", "GOPROXY=off", "GOSUMDB=off", "GOTOOLCHAIN=local")
}

// buildVariant generates every corpus file with the base plug-in of the variant's runtime and with
// protoc-gen-fastmarshal (built from /repo), compiles package by package, and links the driver
// from the packages that compile.
var wantRaceDriver bool

func buildVariant(v Variant, files []*corpus.File, root, bindir, repo, harnessDir string) (*builtVariant, error) {
	bv := &builtVariant{V: v, Root: root, OK: map[string]bool{}}
	if err := os.RemoveAll(root); err != nil {
		return nil, err
	}
	if err := os.MkdirAll(root, 0o755); err != nil {
		return nil, err
	}
	if err := os.WriteFile(filepath.Join(root, "go.mod"), []byte(fmt.Sprintf(goModTmpl, repo, repo, harnessDir)), 0o644); err != nil {
		return nil, err
	}
	sum, _ := os.ReadFile(filepath.Join(harnessDir, "go.sum"))
	_ = os.WriteFile(filepath.Join(root, "go.sum"), sum, 0o644)
	base := filepath.Join(bindir, "protoc-gen-go")
	if v.Runtime() == "gogo" {
		base = filepath.Join(bindir, "protoc-gen-gogo")
	}
	fm := filepath.Join(bindir, "protoc-gen-fastmarshal")
	dirOf := map[string]string{}
	for _, f := range files {
		dirOf[f.Base] = f.Dir()
	}
	for _, f := range files {
		if f.GoogleOnly && v.Runtime() != "google" {
			continue
		}
		st := fileStatus{File: f.Base, Variant: v.Name()}
		outs, perr, err := runPlugin(base, request(f, "paths=source_relative"), root, nil)
		if err != nil || perr != "" {
			return nil, fmt.Errorf("base plug-in failed on %s: %v %s", f.Base, err, perr)
		}
		fmOuts, perr, err := runPlugin(fm, request(f, v.Param()), root, nil)
		if err != nil {
			st.GenError = err.Error()
		} else if perr != "" {
			st.GenError = perr
		}
		if st.GenError == "" {
			seen := map[string]bool{}
			for _, o := range append(outs, fmOuts...) {
				if seen[o.Name] {
					st.GenError = "output file written twice: " + o.Name
				}
				seen[o.Name] = true
				p := filepath.Join(root, o.Name)
				_ = os.MkdirAll(filepath.Dir(p), 0o755)
				if err := os.WriteFile(p, []byte(o.Content), 0o644); err != nil {
					return nil, err
				}
			}
			for _, o := range fmOuts {
				st.Outputs = append(st.Outputs, o.Name)
			}
		}
		bv.Status = append(bv.Status, st)
	}
	// compile package by package (in parallel)
	var wg sync.WaitGroup
	var mu sync.Mutex
	for i := range bv.Status {
		st := &bv.Status[i]
		if st.GenError != "" {
			continue
		}
		wg.Add(1)
		go func(st *fileStatus) {
			defer wg.Done()
			cmd := exec.Command("go", "build", "./"+dirOf[st.File]+"/...")
			cmd.Dir = root
			cmd.Env = goEnv()
			out, err := cmd.CombinedOutput()
			mu.Lock()
			defer mu.Unlock()
			if err != nil {
				lines := strings.Split(strings.TrimSpace(string(out)), "\n")
				if len(lines) > 12 {
					lines = lines[:12]
				}
				st.Compile = strings.Join(lines, "\n")
			} else {
				bv.OK[st.File] = true
			}
		}(st)
	}
	wg.Wait()
	// driver
	var imports []string
	seenDir := map[string]bool{}
	for b := range bv.OK {
		if !seenDir[dirOf[b]] {
			seenDir[dirOf[b]] = true
			imports = append(imports, b)
		}
	}
	sort.Strings(imports)
	var sb strings.Builder
	sb.WriteString("package main\n\nimport (\n\t\"verif/harness/gendriver\"\n")
	for _, b := range imports {
		fmt.Fprintf(&sb, "\t_ \"gencorpus/%s\"\n", dirOf[b])
	}
	fmt.Fprintf(&sb, ")\n\nfunc main() { gendriver.Main(%q) }\n", v.Runtime())
	_ = os.MkdirAll(filepath.Join(root, "driver"), 0o755)
	if err := os.WriteFile(filepath.Join(root, "driver", "main.go"), []byte(sb.String()), 0o644); err != nil {
		return nil, err
	}
	bv.Driver = filepath.Join(root, "driver.bin")
	cmd := exec.Command("go", "build", "-o", bv.Driver, "./driver")
	cmd.Dir = root
	cmd.Env = goEnv()
	if out, err := cmd.CombinedOutput(); err != nil {
		return nil, fmt.Errorf("driver of variant %s does not build: %v\n%s", v.Name(), err, out)
	}
	if wantRaceDriver && !v.PerMessage {
		bv.RaceDriver = filepath.Join(root, "driver-race.bin")
		cmd := exec.Command("go", "build", "-race", "-o", bv.RaceDriver, "./driver")
		cmd.Dir = root
		cmd.Env = goEnv()
		if out, err := cmd.CombinedOutput(); err != nil {
			return nil, fmt.Errorf("race driver of variant %s does not build: %v\n%s", v.Name(), err, out)
		}
	}
	return bv, nil
}
