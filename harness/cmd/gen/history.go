package main

import (
	"bytes"
	"fmt"
	"os/exec"
	"strconv"
	"strings"

	"google.golang.org/protobuf/encoding/protowire"
	"google.golang.org/protobuf/proto"
	"google.golang.org/protobuf/reflect/protoreflect"
	"google.golang.org/protobuf/types/dynamicpb"

	"verif/harness/internal/hx"
)

// C09: operation histories on one message; the harness keeps a dynamicpb mirror of the contents and the set
// of message nodes (root + singular nested messages, by path) whose size cache holds a positive value, so
// that it can tell when a mutation makes a cached size stale (recorded finding G14) -- the same predicate
// the Coq model computes (mutation_fresh); the two are compared on every history.

type hist struct {
	google bool // protobuf-go's cache holds size+1: a size of 0 is cached as well
	md     protoreflect.MessageDescriptor
	mirror *dynamicpb.Message
	sized  map[string]bool
	stale  bool
}

func pathKey(p []int) string {
	s := make([]string, len(p))
	for i, x := range p {
		s[i] = strconv.Itoa(x)
	}
	return strings.Join(s, ".")
}

func trueSize(m protoreflect.Message) int {
	b, err := proto.MarshalOptions{AllowPartial: true, Deterministic: true}.Marshal(m.Interface())
	hx.Must(err)
	return len(b)
}

// Size(): computed (and stored) at every node without a positive cache; nodes below a cached node are not visited
func (h *hist) visitSize(m protoreflect.Message, p []int) {
	if h.sized[pathKey(p)] {
		return
	}
	m.Range(func(fd protoreflect.FieldDescriptor, v protoreflect.Value) bool {
		if fd.Kind() == protoreflect.MessageKind && !fd.IsList() && !fd.IsMap() {
			h.visitSize(v.Message(), append(append([]int{}, p...), int(fd.Number())))
		}
		return true
	})
	h.sized[pathKey(p)] = h.google || trueSize(m) > 0
}

// protobuf-go's own Size: recomputes and overwrites every cache
func (h *hist) rtSize(m protoreflect.Message, p []int) {
	h.sized[pathKey(p)] = h.google || trueSize(m) > 0
	m.Range(func(fd protoreflect.FieldDescriptor, v protoreflect.Value) bool {
		if fd.Kind() == protoreflect.MessageKind && !fd.IsList() && !fd.IsMap() {
			h.rtSize(v.Message(), append(append([]int{}, p...), int(fd.Number())))
		}
		return true
	})
}

// all paths of set singular nested messages
func singularPaths(m protoreflect.Message, p []int, out *[][]int) {
	*out = append(*out, append([]int{}, p...))
	m.Range(func(fd protoreflect.FieldDescriptor, v protoreflect.Value) bool {
		if fd.Kind() == protoreflect.MessageKind && !fd.IsList() && !fd.IsMap() {
			singularPaths(v.Message(), append(append([]int{}, p...), int(fd.Number())), out)
		}
		return true
	})
}

func msgAt(m protoreflect.Message, p []int) protoreflect.Message {
	for _, n := range p {
		fd := fieldByNumber(m.Descriptor(), protoreflect.FieldNumber(n))
		m = m.Get(fd).Message()
	}
	return m
}

func streamHistory(r *hx.Rng, cfs []*cfile, bs *builtSet) {
	reportUnusable(bs)
	nPer := 6
	maxOps := 8
	if thorough {
		nPer, maxOps = 60, 14
	}
	for _, bv := range bs.variants {
		google := bv.V.Runtime() == "google"
		type hcase struct {
			c       *cfile
			md      protoreflect.MessageDescriptor
			toks    []string
			staleAt int // index of the first assignment made while a size was cached for an enclosing message (-1: never)
			qAt     int // index from which results are outside the model's scope (staleAt, or protobuf-go sizing a -0.0: G6)
			kinds   []byte
			negz    []bool   // the contents hold a proto3 -0.0 (finding G6) when op j runs
			ext     []string // class suffix of the extension finding that applies to the contents when op j runs
			oracle  bool     // oracle-only history (uses an operation History.v does not have)
		}
		var cases []hcase
		var reqs []string
		for _, c := range cfs {
			if !bv.OK[c.F.Base] {
				continue
			}
			if !google && fileHasExt(c) {
				// the driver assigns fields through protoreflect, which cannot reach gogo's extension store
				continue
			}
			for _, md := range c.messages() {
				// scripted op sequences come first (operation classes: 0 assign, 5 Size, 7 Marshal/MarshalTo, 9 runtime
				// Size, 10 Unmarshal -- with unknown fields --, 11 Reset/Clone): the orders in which the caches are
				// written by one party and read by the other, which random histories only hit by luck
				// 20 = MarshalTo into a caller-sized buffer (no Size() on the message first), 21 = assign a top-level non-message
				// field: oracle-only histories (History.v has no such MarshalTo; after it no size is cached for the root, so the
				// assignment is not the stale-cache finding G14)
				scripts := [][]int{{10, 9, 5, 7, 7}, {10, 5, 9, 7, 5}, {0, 9, 7, 11, 7, 5}, {10, 11, 9, 7}, {0, 0, 9, 5, 7, 9, 7}, {10, 7, 9, 5, 10, 9, 7},
					{10, 20, 21, 5, 7}, {21, 21, 20, 21, 7, 5}, {10, 20, 21, 21, 20, 7},
					// 22 = csproto.Clone whose result is dropped: the source goes on, and must not have been sized by it
					{21, 21, 22, 21, 7, 5}, {10, 22, 21, 5, 7}, {0, 0, 22, 21, 21, 7}}
				for k := 0; k < nPer+len(scripts); k++ {
					h := &hist{google: google, md: md, mirror: dynamicpb.NewMessage(md), sized: map[string]bool{}}
					hc := hcase{c: c, md: md, staleAt: -1, qAt: -1}
					nops := 3 + r.Intn(maxOps-2)
					var script []int
					if k >= nPer {
						script = scripts[k-nPer]
						nops = len(script)
						for _, c := range script {
							hc.oracle = hc.oracle || c == 20 || c == 22
						}
					}
					for i := 0; i < nops; i++ {
						var tok string
						var kind byte
						choice := r.Intn(12)
						if i == 0 {
							choice = 0
						}
						if script != nil {
							choice = script[i]
						}
						switch {
						case choice == 20:
							tok, kind = "TF", 'M'
						case choice == 22:
							tok, kind = "KS", 'R'
						case choice < 5 || choice == 21: // mutation
							var paths [][]int
							singularPaths(h.mirror, nil, &paths)
							p := paths[r.Intn(len(paths))]
							if choice == 21 {
								p = nil
							}
							// two out of three assignments that would meet a cached size (finding G14, outside the model's
							// scope from there on) are replaced by a Clone, which starts again without caches
							wouldStale := false
							for l := 0; l <= len(p); l++ {
								wouldStale = wouldStale || h.sized[pathKey(p[:l])]
							}
							if choice != 21 && wouldStale && hc.staleAt < 0 && r.Intn(3) != 0 && !hasNegZero(md, canonical(h.mirror)) {
								h.sized = map[string]bool{}
								tok, kind = "K", 'R'
								break
							}
							target := msgAt(h.mirror, p)
							fds := allFields(target.Descriptor())
							if len(fds) == 0 {
								h.visitSize(h.mirror, nil)
								tok, kind = "Z", 'Z'
								break
							}
							if choice == 21 {
								var plain []protoreflect.FieldDescriptor
								for _, f := range fds {
									if f.Kind() != protoreflect.MessageKind && !f.IsMap() && !f.IsExtension() {
										plain = append(plain, f)
									}
								}
								if len(plain) == 0 {
									tok, kind = "Z", 'Z'
									break
								}
								fds = plain
							}
							fd := fds[r.Intn(len(fds))]
							tmp := dynamicpb.NewMessage(target.Descriptor())
							if r.Intn(6) != 0 {
								setRandom(r, tmp, fd, 2)
								if fd.Cardinality() == protoreflect.Required && !tmp.Has(fd) {
									setRandom(r, tmp, fd, 2)
								}
							}
							// the encoding carries the message's required fields too (the driver decodes it with the
							// generated code, which insists on them); only field fd of it is assigned
							fillRequired(r, tmp, 3)
							enc := canonical(tmp)
							// stale?
							for l := 0; l <= len(p); l++ {
								if h.sized[pathKey(p[:l])] && hc.staleAt < 0 && !hc.oracle {
									hc.staleAt = i
								}
							}
							if tmp.Has(fd) {
								target.Set(fd, tmp.Get(fd))
							} else {
								target.Clear(fd)
							}
							below := pathKey(append(append([]int{}, p...), int(fd.Number())))
							for kk := range h.sized {
								if kk == below || strings.HasPrefix(kk, below+".") {
									delete(h.sized, kk)
								}
							}
							ps := "-"
							if len(p) > 0 {
								ps = pathKey(p)
							}
							tok, kind = fmt.Sprintf("S:%s:%d:%s", ps, fd.Number(), hx.B(enc)), 'S'
						case choice < 7:
							h.visitSize(h.mirror, nil)
							tok, kind = "Z", 'Z'
						case choice < 9:
							h.visitSize(h.mirror, nil)
							tok, kind = []string{"M", "T"}[r.Intn(2)], 'M'
						case choice < 10:
							if google {
								h.rtSize(h.mirror, nil)
							} else {
								h.visitSize(h.mirror, nil)
							}
							tok, kind = "RS", 'Z'
						case choice < 11:
							v := randMessage(r, md, 2)
							fillRequired(r, v, 3)
							enc := canonical(v)
							if r.Bool() || script != nil {
								// fields the schema does not declare: kept as unknown bytes, counted by Size, re-emitted
								g := &vgen{r: r}
								for k := 1 + r.Intn(2); k > 0; k-- {
									enc = append(enc, g.unknownField(md)...)
								}
								// legal, non-canonical: implicit-presence fields written out with their zero value (a length-0 bytes
								// field decodes to an empty, non-nil slice)
								for _, fd := range allFields(md) {
									if fd.HasPresence() || fd.IsList() || fd.IsMap() || fd.IsExtension() || v.Has(fd) || r.Intn(2) == 0 {
										continue
									}
									num := protowire.Number(fd.Number())
									switch fd.Kind() {
									case protoreflect.StringKind, protoreflect.BytesKind:
										enc = protowire.AppendBytes(protowire.AppendTag(enc, num, protowire.BytesType), nil)
									case protoreflect.Fixed32Kind, protoreflect.Sfixed32Kind, protoreflect.FloatKind:
										enc = protowire.AppendFixed32(protowire.AppendTag(enc, num, protowire.Fixed32Type), 0)
									case protoreflect.Fixed64Kind, protoreflect.Sfixed64Kind, protoreflect.DoubleKind:
										enc = protowire.AppendFixed64(protowire.AppendTag(enc, num, protowire.Fixed64Type), 0)
									default:
										enc = protowire.AppendVarint(protowire.AppendTag(enc, num, protowire.VarintType), 0)
									}
								}
								v = dynamicpb.NewMessage(md)
								hx.Must((proto.UnmarshalOptions{AllowPartial: true, Resolver: corpusTypes}).Unmarshal(enc, v))
							}
							h.mirror = v
							h.sized = map[string]bool{}
							tok, kind = "U:"+hx.B(enc), 'U'
						default:
							// (the runtimes' Clone / Merge -- protobuf-go and gogo alike -- leave out a -0.0 held by an implicit-presence float field: a quirk of the
							// runtime csproto.Clone passes through; such states are reset instead of cloned)
							if r.Bool() || hasNegZero(md, canonical(h.mirror)) {
								h.mirror = dynamicpb.NewMessage(md)
								tok = "R"
							} else {
								tok = "K"
							}
							h.sized = map[string]bool{}
							kind = 'R'
						}
						nz := hasNegZero(md, canonical(h.mirror))
						hc.negz = append(hc.negz, nz)
						setCtx(bv, md, canonical(h.mirror))
						hc.ext = append(hc.ext, failCtx.suffix)
						failCtx.suffix = ""
						if hc.qAt < 0 && hc.staleAt >= 0 {
							hc.qAt = i
						}
						hc.toks = append(hc.toks, tok)
						hc.kinds = append(hc.kinds, kind)
					}
					cases = append(cases, hc)
					reqs = append(reqs, fmt.Sprintf("HI %s %s", md.FullName(), strings.Join(hc.toks, " ")))
				}
			}
		}
		resps, derr := runDriver(bv.Driver, reqs)
		if derr != nil {
			fail("the driver process running generated code died", bv.V.Name(), "all requests answered", derr.Error(), "driver-died")
		}
		for i, hc := range cases {
			outs := strings.Split(resps[i], " ")
			cs := fmt.Sprintf("variant=%s type=%s history=%s", bv.V.Name(), hc.md.FullName(), strings.Join(hc.toks, " "))
			var implToks []string
			for j := range hc.toks {
				o := "missing"
				if j < len(outs) {
					o = outs[j]
				}
				stale := hc.staleAt >= 0 && j >= hc.staleAt
				sink.OracleN++
				cls := ""
				what := ""
				switch hc.kinds[j] {
				case 'Z', 'M':
					parts := strings.SplitN(o, "/", 2)
					got, fresh := parts[0], ""
					if len(parts) == 2 {
						fresh = parts[1]
					}
					bad := o == "panic" || o == "missing" || strings.HasPrefix(o, "driver-error") || len(parts) != 2
					if hc.kinds[j] == 'M' && !bad {
						got, fresh = canonHex(hc.md, got), canonHex(hc.md, fresh)
					}
					if bad {
						cls, what = "hist-panic", "Size/Marshal panicked in the course of a history"
					} else if got != fresh {
						cls, what = "hist-differs", "Marshal/Size returned something else than marshaling a fresh deep copy of the current contents"
					}
					o = got
				default:
					if o == "panic" || strings.HasPrefix(o, "driver-error") || o == "missing" {
						cls, what = "hist-panic", "an operation of the history panicked"
					}
				}
				if cls != "" {
					if hc.negz[j] {
						cls += ":negzero"
					}
					if stale {
						cls += ":stalecache"
					}
					if hc.ext[j] != "" && !stale {
						cls += hc.ext[j]
					}
					fail(what, cs+" at op "+strconv.Itoa(j), "as for a fresh deep copy", outs[min(j, len(outs)-1)], cls)
				}
				if hc.qAt >= 0 && j >= hc.qAt {
					o = "?"
				}
				implToks = append(implToks, o)
				if o == "panic" || o == "missing" {
					break
				}
			}
			// after a panic the driver stops: pad
			for len(implToks) < len(hc.toks) {
				implToks = append(implToks, "?")
			}
			g := "0"
			if google {
				g = "1"
			}
			extOutside := ""
			for _, e := range hc.ext {
				if e != "" {
					extOutside = e
				}
			}
			if extOutside != "" {
				sink.Count("outside-model" + extOutside)
				continue
			}
			if hc.oracle {
				sink.Count("history:oracle-only")
				continue
			}
			sink.Add("history:"+bv.V.Name(), fmt.Sprintf("G HI@%s %s %d %s %s", bv.V.Name(), hc.c.Term, hc.c.Idx[hc.c.relName(hc.md)], g, strings.Join(hc.toks, " ")),
				strings.Join(implToks, " "), len(hc.toks) >= 2)
			if hc.staleAt >= 0 {
				sink.Count("history:stale")
			} else {
				sink.Count("history:fresh")
			}
		}
		// concurrent readers, in a -race build of the driver
		if bv.RaceDriver != "" {
			var creqs []string
			for _, c := range cfs {
				if !bv.OK[c.F.Base] {
					continue
				}
				for _, md := range c.messages() {
					for k := 0; k < 2; k++ {
						v := randMessage(r, md, 3)
						fillRequired(r, v, 3)
						creqs = append(creqs, fmt.Sprintf("CC %s %s %d %d", md.FullName(), hx.B(canonical(v)), []int{4, 32}[k], 300))
					}
				}
			}
			cmd := exec.Command(bv.RaceDriver)
			cmd.Stdin = strings.NewReader(strings.Join(creqs, "\n") + "\n")
			var so, se bytes.Buffer
			cmd.Stdout, cmd.Stderr = &so, &se
			cmd.Env = append(goEnv(), "GORACE=halt_on_error=0 exitcode=66")
			err := cmd.Run()
			sink.OracleN += len(creqs)
			sink.Count("concurrent-readers:" + bv.V.Name())
			if strings.Contains(se.String(), "DATA RACE") {
				i := strings.Index(se.String(), "WARNING: DATA RACE")
				fail("the race detector reported a data race between concurrent Size/Marshal calls", bv.V.Name(), "no race", se.String()[i:min(len(se.String()), i+2500)], "hist-race")
			} else if err != nil {
				fail("the race-enabled driver failed", bv.V.Name(), "ok", err.Error()+se.String()[:min(500, se.Len())], "driver-died")
			}
			for j, l := range strings.Split(strings.TrimSpace(so.String()), "\n") {
				if strings.HasPrefix(l, "mismatch") {
					fail("a concurrent Size/Marshal call returned something else than the single-threaded result", creqs[min(j, len(creqs)-1)], "same bytes", l, "hist-concurrent")
				}
			}
		}
	}
}

func fileHasExt(c *cfile) bool {
	for _, m := range c.F.AllMessages() {
		if m.ExtRange {
			return true
		}
	}
	return false
}
