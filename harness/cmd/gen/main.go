// Command gen: the generated-code checks (C04-C10, C16, C17).  Builds protoc-gen-fastmarshal's output
// for the schema corpus under several option variants, compiles it with the owning runtime's base
// types, links a driver per variant and runs generated Size/Marshal/MarshalTo/Unmarshal on
// generated message values; compares with the dynamicpb reference (oracle) and writes the case lines
// for the Coq model.
package main

import (
	"bytes"
	"encoding/json"
	"flag"
	"fmt"
	"os"
	"os/exec"
	"path/filepath"
	"sort"
	"strconv"
	"strings"
	"sync"

	"google.golang.org/protobuf/encoding/protowire"
	"google.golang.org/protobuf/proto"
	"google.golang.org/protobuf/reflect/protodesc"
	"google.golang.org/protobuf/reflect/protoreflect"
	"google.golang.org/protobuf/reflect/protoregistry"
	"google.golang.org/protobuf/types/descriptorpb"
	"google.golang.org/protobuf/types/dynamicpb"
	"google.golang.org/protobuf/types/pluginpb"

	"verif/harness/corpus"
	"verif/harness/internal/hx"
	"verif/harness/pbrender"
)

var (
	sink     *hx.Sink
	prop     string
	thorough bool
)

// the case being judged: failures on gogo / golang-v1 messages that carry a scalar proto2 extension are
// the recorded finding G10 and get a class suffix; such cases are also kept out of the model comparison
var failCtx struct {
	suffix string
}

// setCtx reports whether the case is outside the model's scope (a recorded extension finding applies)
func setCtx(bv *builtVariant, md protoreflect.MessageDescriptor, b []byte) bool {
	failCtx.suffix = ""
	switch {
	case hasExt(md, b, func(fd protoreflect.FieldDescriptor) bool { return fd.IsList() }):
		failCtx.suffix = ":extrepeated" // G35: repeated extensions
	case bv != nil && bv.V.Runtime() == "gogo" && hasExt(md, b, func(fd protoreflect.FieldDescriptor) bool { return fd.Kind() != protoreflect.MessageKind }):
		failCtx.suffix = ":extscalar-v1" // G10: scalar extensions on the pointer-based runtimes
	}
	return failCtx.suffix != ""
}

// hasExt: the encoding holds, at any depth, a known extension field satisfying pred
func hasExt(md protoreflect.MessageDescriptor, b []byte, pred func(protoreflect.FieldDescriptor) bool) bool {
	for len(b) > 0 {
		// the key, read as the decoder under test reads it: field number 0 is let through (and skipped as unknown)
		kv, n := protowire.ConsumeVarint(b)
		if n < 0 || kv>>3 > 1<<29-1 {
			return false
		}
		num, typ := protowire.Number(kv>>3), protowire.Type(kv&7)
		var fd protoreflect.FieldDescriptor
		if num > 0 {
			fd = fieldByNumber(md, num)
		}
		if fd != nil && fd.IsExtension() && pred(fd) {
			return true // (whatever follows the key, well-formed or not)
		}
		k := protowire.ConsumeFieldValue(max(num, 1), typ, b[n:])
		if k < 0 && typ == protowire.VarintType {
			// a varint protowire rejects as wider than 64 bits: the code under test (and the model) read on behind it
			for k = 0; n+k < len(b) && b[n+k]&0x80 != 0; k++ {
			}
			if k++; n+k > len(b) {
				return false
			}
		}
		if k < 0 {
			return false
		}
		if fd != nil {
			if typ == protowire.BytesType && fd.Kind() == protoreflect.MessageKind {
				val, _ := protowire.ConsumeBytes(b[n:])
				sub := fd.Message()
				if fd.IsMap() {
					sub = nil
					if fd.MapValue().Kind() == protoreflect.MessageKind {
						// entry: look into value payloads
						e := val
						for len(e) > 0 {
							n2, t2, c := protowire.ConsumeTag(e)
							if c < 0 {
								break
							}
							k2 := protowire.ConsumeFieldValue(n2, t2, e[c:])
							if k2 < 0 {
								break
							}
							if n2 == 2 && t2 == protowire.BytesType {
								pv, _ := protowire.ConsumeBytes(e[c:])
								if hasExt(fd.MapValue().Message(), pv, pred) {
									return true
								}
							}
							e = e[c+k2:]
						}
					}
				}
				if sub != nil && hasExt(sub, val, pred) {
					return true
				}
			}
		}
		b = b[n+k:]
	}
	return false
}

func fail(what, cs, exp, got, class string) {
	class += failCtx.suffix
	sink.Fail(hx.Failure{Property: prop, Kind: "oracle", What: what, Case: cs, Expected: exp, Got: got, Class: class})
}

// one corpus file with its reflective descriptor
type cfile struct {
	F    *corpus.File
	FD   protoreflect.FileDescriptor
	Term string
	Idx  map[string]int
}

// corpusTypes resolves the extensions declared in the corpus (for dynamicpb parsing of extension fields)
var corpusFiles = new(protoregistry.Files)
var corpusTypes = dynamicpb.NewTypes(corpusFiles)
var corpusExts = map[protoreflect.FullName][]protoreflect.ExtensionDescriptor{}

func collectExts(xs protoreflect.ExtensionDescriptors, ms protoreflect.MessageDescriptors) {
	for i := 0; i < xs.Len(); i++ {
		x := xs.Get(i)
		corpusExts[x.ContainingMessage().FullName()] = append(corpusExts[x.ContainingMessage().FullName()], x)
	}
	for i := 0; i < ms.Len(); i++ {
		collectExts(ms.Get(i).Extensions(), ms.Get(i).Messages())
	}
}

// the fields the generated code knows for a message: declared fields + extensions of the corpus
func allFields(md protoreflect.MessageDescriptor) []protoreflect.FieldDescriptor {
	var out []protoreflect.FieldDescriptor
	for i := 0; i < md.Fields().Len(); i++ {
		out = append(out, md.Fields().Get(i))
	}
	var xs []protoreflect.FieldDescriptor
	for _, xd := range corpusExts[md.FullName()] {
		xs = append(xs, dynamicpb.NewExtensionType(xd).TypeDescriptor())
	}
	sort.Slice(xs, func(i, j int) bool { return xs[i].Number() < xs[j].Number() })
	return append(out, xs...)
}

func fieldByNumber(md protoreflect.MessageDescriptor, num protoreflect.FieldNumber) protoreflect.FieldDescriptor {
	if fd := md.Fields().ByNumber(num); fd != nil {
		return fd
	}
	if xt, err := corpusTypes.FindExtensionByNumber(md.FullName(), num); err == nil {
		return xt.TypeDescriptor()
	}
	return nil
}

func loadCorpus() []*cfile {
	var out []*cfile
	for _, f := range corpus.Matrix() {
		fd, err := protodesc.NewFile(f.Descriptor(), corpusFiles)
		if err != nil {
			hx.Must(fmt.Errorf("corpus file %s is not a valid descriptor: %v", f.Base, err))
		}
		hx.Must(corpusFiles.RegisterFile(fd))
		collectExts(fd.Extensions(), fd.Messages())
		_, idx := f.Index()
		out = append(out, &cfile{F: f, FD: fd, Term: f.SchemaTerm(), Idx: idx})
	}
	return out
}

// all message descriptors of a file (incl. nested, excl. map entries), by proto-relative name
func (c *cfile) messages() []protoreflect.MessageDescriptor {
	var out []protoreflect.MessageDescriptor
	var walk func(ms protoreflect.MessageDescriptors)
	walk = func(ms protoreflect.MessageDescriptors) {
		for i := 0; i < ms.Len(); i++ {
			m := ms.Get(i)
			if m.IsMapEntry() {
				continue
			}
			out = append(out, m)
			walk(m.Messages())
		}
	}
	walk(c.FD.Messages())
	return out
}
func (c *cfile) relName(md protoreflect.MessageDescriptor) string {
	return strings.TrimPrefix(string(md.FullName()), c.F.ProtoPackage()+".")
}

// ---------------------------------------------------------------------------------------------
// driver client: batch mode

func runDriverOnce(driver string, reqs []string) ([]string, error, string) {
	cmd := exec.Command("bash", "-c", "ulimit -v 12000000; exec "+driver)
	cmd.Stdin = strings.NewReader(strings.Join(reqs, "\n") + "\n")
	var so, se bytes.Buffer
	cmd.Stdout, cmd.Stderr = &so, &se
	err := cmd.Run()
	out := so.String()
	if k := strings.LastIndexByte(out, '\n'); k >= 0 {
		out = out[:k] // complete lines only
	} else {
		out = ""
	}
	var lines []string
	if out != "" {
		lines = strings.Split(out, "\n")
	}
	tail := se.String()
	if len(tail) > 1500 {
		tail = tail[:1500]
	}
	return lines, err, tail
}

// runDriver feeds the requests to a driver process.  The driver answers each request before reading the
// next one, so when the process dies (fatal error, out of memory) the request without an answer is the
// one that killed it: it is answered "driver-died", reported, and a new process takes the rest.
func runDriver(driver string, reqs []string) ([]string, error) {
	out := make([]string, 0, len(reqs))
	var firstErr error
	start := 0
	for restarts := 0; start < len(reqs); restarts++ {
		lines, err, tail := runDriverOnce(driver, reqs[start:])
		if len(lines) > len(reqs)-start {
			lines = lines[:len(reqs)-start]
		}
		out = append(out, lines...)
		if len(out) == len(reqs) {
			if err != nil && firstErr == nil {
				firstErr = fmt.Errorf("driver exited with %v after answering everything: %s", err, tail)
			}
			break
		}
		killer := reqs[len(out)]
		if firstErr == nil {
			firstErr = fmt.Errorf("driver died on request %q (%v): %s", killer, err, tail)
		}
		out = append(out, "driver-died")
		start = len(out)
		if restarts >= 8 {
			for len(out) < len(reqs) {
				out = append(out, "driver-died")
			}
		}
	}
	return out, firstErr
}

// ---------------------------------------------------------------------------------------------
// canonical map order: Go iterates maps in random order, so runs of entries of one map field are
// sorted bytewise (recursively inside nested messages) before byte comparison
func canonBytes(md protoreflect.MessageDescriptor, b []byte) []byte {
	type fld struct {
		num protowire.Number
		raw []byte
	}
	var fs []fld
	p := b
	for len(p) > 0 {
		num, typ, n := protowire.ConsumeTag(p)
		if n < 0 {
			return b
		}
		m := protowire.ConsumeFieldValue(num, typ, p[n:])
		if m < 0 {
			return b
		}
		raw := p[:n+m]
		fd := fieldByNumber(md, num)
		if fd != nil && typ == protowire.BytesType && fd.Kind() == protoreflect.MessageKind {
			val, _ := protowire.ConsumeBytes(p[n:])
			sub := canonBytes(fd.Message(), val)
			raw = protowire.AppendBytes(protowire.AppendTag(nil, num, typ), sub)
		}
		fs = append(fs, fld{num, raw})
		p = p[n+m:]
	}
	// sort runs of the same map field
	for i := 0; i < len(fs); {
		j := i
		fd := fieldByNumber(md, fs[i].num)
		for j < len(fs) && fs[j].num == fs[i].num {
			j++
		}
		if fd != nil && fd.IsMap() {
			run := fs[i:j]
			sort.Slice(run, func(a, c int) bool { return bytes.Compare(run[a].raw, run[c].raw) < 0 })
		}
		i = j
	}
	var out []byte
	for _, f := range fs {
		out = append(out, f.raw...)
	}
	return out
}

func canonHex(md protoreflect.MessageDescriptor, h string) string {
	if h == "err" || h == "panic" || h == "-" || h == "nosize" {
		return h
	}
	return hx.B(canonBytes(md, hx.UnB(h)))
}

// ---------------------------------------------------------------------------------------------

type builtSet struct {
	variants []*builtVariant
	status   []fileStatus
}

func buildAll(vs []Variant, files []*corpus.File, workRoot, bindir, repo, harnessDir string) (*builtSet, error) {
	bs := &builtSet{variants: make([]*builtVariant, len(vs))}
	var wg sync.WaitGroup
	errs := make([]error, len(vs))
	for i, v := range vs {
		wg.Add(1)
		go func(i int, v Variant) {
			defer wg.Done()
			bs.variants[i], errs[i] = buildVariant(v, files, filepath.Join(workRoot, v.Name()), bindir, repo, harnessDir)
		}(i, v)
	}
	wg.Wait()
	for _, e := range errs {
		if e != nil {
			return nil, e
		}
	}
	for _, bv := range bs.variants {
		bs.status = append(bs.status, bv.Status...)
	}
	return bs, nil
}

func main() {
	out := flag.String("out", "", "output directory")
	tier := flag.String("tier", "quick", "quick|thorough")
	flag.StringVar(&prop, "prop", "C04", "property")
	seed := flag.Uint64("seed", hx.SeedFromEnv(), "seed")
	repo := flag.String("repo", "/repo", "csproto working tree")
	bindir := flag.String("bin", "/verif/bin", "directory holding protoc-gen-go, protoc-gen-gogo, protoc-gen-fastmarshal")
	harnessDir := flag.String("harness", "/verif/harness", "harness module directory")
	genRoot := flag.String("genroot", "/verif/.work/gen", "scratch directory for generated code")
	flag.Parse()
	thorough = *tier == "thorough"
	sink = hx.NewSink()
	r := hx.NewRng(*seed).Fork(prop)
	cfs := loadCorpus()
	var files []*corpus.File
	for _, c := range cfs {
		files = append(files, c.F)
	}
	vs := quickVariants
	if thorough || prop == "C16" {
		vs = allVariants
	}
	if prop == "C16" {
		files = append(files, corpus.Extra()...)
	}
	wantRaceDriver = prop == "C09"
	bs, err := buildAll(vs, files, *genRoot, *bindir, *repo, *harnessDir)
	hx.Must(err)
	hx.Must(os.MkdirAll(*out, 0o755))
	st, _ := json.MarshalIndent(bs.status, "", " ")
	_ = os.WriteFile(filepath.Join(*out, "generation.json"), st, 0o644)
	for _, s := range bs.status {
		if s.GenError != "" {
			sink.Count("generation-failed")
		} else if s.Compile != "" {
			sink.Count("compile-failed")
		} else {
			sink.Count("generated-ok")
		}
	}
	switch prop {
	case "C04", "C05":
		streamMarshal(r, cfs, bs)
	case "C17":
		streamMarshal(r, cfs, bs)
		streamUnmarshal(r.Fork("unmarshal"), cfs, bs)
	case "C06", "C07", "C08", "C10":
		streamUnmarshal(r, cfs, bs)
	case "C09":
		streamHistory(r, cfs, bs)
	case "C16":
		streamGenerator(r, cfs, bs, *bindir, *genRoot)
	default:
		fmt.Fprintln(os.Stderr, "unknown property", prop)
		os.Exit(2)
	}
	hx.Must(sink.Write(*out))
}

// generation / compilation failures make a schema unusable for the value-level checks: report them
func reportUnusable(bs *builtSet) {
	for _, s := range bs.status {
		if s.GenError != "" || s.Compile != "" {
			what := "the plug-in failed on a corpus schema"
			got := s.GenError
			cls := "gen-error"
			if s.Compile != "" {
				what = "generated code does not compile"
				got = s.Compile
				cls = "gen-compile"
			}
			fail(what, fmt.Sprintf("schema=%s variant=%s", s.File, s.Variant), "generated, compiling code", got, cls+":"+s.File)
		}
	}
}

// ---------------------------------------------------------------------------------------------
// C04 / C05 / C17 (marshal direction)

func streamMarshal(r *hx.Rng, cfs []*cfile, bs *builtSet) {
	reportUnusable(bs)
	type pending struct {
		c    *cfile
		md   protoreflect.MessageDescriptor
		val  *dynamicpb.Message
		wire []byte
		text string
		us   bool // decoded by the generated Unmarshal from a legal non-canonical encoding first (C04 only)
	}
	for _, bv := range bs.variants {
		var reqs []string
		var pend []pending
		for _, c := range cfs {
			if !bv.OK[c.F.Base] {
				continue
			}
			for _, md := range c.messages() {
				for _, v := range genValues(r, md) {
					wire, err := proto.MarshalOptions{Deterministic: true, AllowPartial: true}.Marshal(v)
					hx.Must(err)
					reqs = append(reqs, fmt.Sprintf("SM %s %s", md.FullName(), hx.B(wire)))
					pend = append(pend, pending{c, md, v, wire, pbrender.Message(v), false})
					if prop == "C04" && len(pend)%3 == 0 && proto.CheckInitialized(v) == nil {
						// the same value after a trip through the generated Unmarshal, from an encoding no encoder emits (split and
						// unpacked runs, superseded occurrences, explicit defaults in map entries, unknown fields)
						g := &vgen{r: r, unknown: true, merge: len(pend)%2 == 0}
						in := g.message(v)
						reqs = append(reqs, fmt.Sprintf("US %s %s", md.FullName(), hx.B(in)))
						pend = append(pend, pending{c, md, v, in, pbrender.Message(v), true})
					}
				}
			}
		}
		resps, derr := runDriver(bv.Driver, reqs)
		if derr != nil {
			fail("the driver process running generated code died", bv.V.Name(), "all requests answered", derr.Error(), "driver-died")
		}
		for i, p := range pend {
			f := strings.Split(resps[i], " ")
			cs := fmt.Sprintf("variant=%s type=%s value=%s wire=%s", bv.V.Name(), p.md.FullName(), p.text, hx.B(p.wire))
			sink.OracleN++
			outside := setCtx(bv, p.md, p.wire)
			if len(f) != 4 {
				fail("driver could not run the case", cs, "", resps[i], "driver-error")
				continue
			}
			sz, m, mt, sz2 := f[0], f[1], f[2], f[3]
			if p.us {
				sink.Count("size-marshal-after-unmarshal")
				m, mt = canonHex(p.md, m), canonHex(p.md, mt)
				switch {
				case sz == "uerr" || outside:
					// (the decoder's verdict on the input is C06's business)
				case sz == "panic" || m == "panic" || mt == "panic" || sz2 == "panic":
					fail("generated Size/Marshal/MarshalTo panicked on a message produced by the generated Unmarshal", cs, "no panic", resps[i], "sm-panic")
				case m == "err" || mt == "err":
					fail("generated Marshal failed on a fully initialised message produced by the generated Unmarshal", cs, "bytes", resps[i], "sm-error")
				default:
					if n, _ := strconv.Atoi(sz); n != len(hx.UnB(m)) {
						fail("Size() differs from len(Marshal()) on a message produced by the generated Unmarshal", cs, strconv.Itoa(len(hx.UnB(m))), sz, "sm-size")
					}
					if mt != m {
						fail("MarshalTo into a buffer of Size() bytes did not write exactly the Marshal bytes (message produced by the generated Unmarshal)", cs, m, mt, "sm-marshalto")
					}
					if sz2 != sz {
						fail("Size() changed after marshaling (message produced by the generated Unmarshal)", cs, sz, sz2, "sm-size2")
					}
				}
				continue
			}
			missingReq := proto.CheckInitialized(p.val) != nil
			m = canonHex(p.md, m)
			mt = canonHex(p.md, mt)
			switch prop {
			case "C04":
				switch {
				case sz == "panic" || m == "panic" || mt == "panic" || sz2 == "panic":
					fail("generated Size/Marshal/MarshalTo panicked", cs, "no panic", resps[i], "sm-panic")
				case m == "err" || mt == "err":
					if !missingReq {
						fail("generated Marshal failed on a fully initialised message", cs, "bytes", resps[i], "sm-error")
					}
				default:
					if n, _ := strconv.Atoi(sz); n != len(hx.UnB(m)) {
						fail("Size() differs from len(Marshal())", cs, strconv.Itoa(len(hx.UnB(m))), sz, "sm-size")
					}
					if mt != m {
						fail("MarshalTo into a buffer of Size() bytes did not write exactly the Marshal bytes", cs, m, mt, "sm-marshalto")
					}
					if sz2 != sz {
						fail("Size() changed after marshaling", cs, sz, sz2, "sm-size2")
					}
				}
			case "C05":
				if m != "err" && m != "panic" {
					ref := dynamicpb.NewMessage(p.md)
					if err := (proto.UnmarshalOptions{AllowPartial: true, Resolver: corpusTypes}).Unmarshal(hx.UnB(m), ref); err != nil {
						fail("the reference runtime cannot parse the generated Marshal output", cs, "parsable", err.Error(), "ref-reject")
					} else if got := pbrender.Message(ref); got != p.text {
						fail("reference parse of the generated Marshal output differs from the original message", cs, p.text, got, classify("ref-differs", p.md, p.wire))
					}
				} else if m == "panic" || !missingReq {
					fail("generated Marshal failed", cs, "bytes", m, "sm-error")
				}
			case "C17":
				if missingReq && m != "err" {
					fail("Marshal of a message with an unset required field did not return an error", cs, "err", m, "req-marshal-missing")
				}
				if !missingReq && m == "err" {
					fail("Marshal of a fully initialised message returned a required-field error", cs, "bytes", m, "req-marshal-spurious")
				}
			}
			// reference leg: RefMsg.v's ref_decode vs dynamicpb on the canonical encoding of the value and on
			// what the generated code wrote
			if prop == "C05" {
				inputs := [][]byte{p.wire}
				if m != "err" && m != "panic" {
					inputs = append(inputs, hx.UnB(m))
				}
				for _, b := range inputs {
					ref := dynamicpb.NewMessage(p.md)
					res := "err"
					if err := (proto.UnmarshalOptions{AllowPartial: true, Resolver: corpusTypes}).Unmarshal(b, ref); err == nil {
						res = "ok " + pbrender.Message(ref)
					}
					sink.Add("refdecode", fmt.Sprintf("G RD %s %d %s", p.c.Term, p.c.Idx[p.c.relName(p.md)], hx.B(b)), res, len(b) > 0)
				}
			}
			// model case: size and bytes (map entries in canonical order)
			impl := sz + " " + m
			if sz == "panic" || m == "panic" {
				impl = "panic"
			} else if m == "err" {
				impl = "err"
			}
			if outside {
				sink.Count("outside-model" + failCtx.suffix)
				continue
			}
			sink.Add("marshal:"+bv.V.Name(), fmt.Sprintf("G SM@%s %s %d %s", bv.V.Name(), p.c.Term, p.c.Idx[p.c.relName(p.md)], p.text), impl, len(p.wire) > 0)
		}
	}
}

func streamGenerator(r *hx.Rng, cfs []*cfile, bs *builtSet, bindir, genRoot string) {
	// (1) every corpus schema x every option variant compiled (bs was built with all eight variants);
	//     the naming / import edge cases of corpus.Extra() ride along
	for _, s := range bs.status {
		sink.OracleN++
		if s.GenError != "" || s.Compile != "" {
			what, got, cls := "the plug-in failed on a valid schema", s.GenError, "gen-error:"+s.File
			if s.Compile != "" {
				what, got, cls = "generated code does not compile", s.Compile, "gen-compile:"+s.File
			}
			if strings.Contains(got, "written twice") || strings.Contains(got, "generated twice") || strings.Contains(got, "duplicate") {
				cls = "gen-collision:" + s.File
			}
			fail(what, fmt.Sprintf("schema=%s variant=%s", s.File, s.Variant), "generated, compiling code", got, cls)
		}
	}
	// (2) determinism, output names, parsability: the plug-in is run twice per (schema, variant) in
	//     different working directories, time zones and at different times
	fm := filepath.Join(bindir, "protoc-gen-fastmarshal")
	all := corpus.Matrix()
	all = append(all, corpus.Extra()...)
	d1 := filepath.Join(genRoot, "cwd1")
	d2 := filepath.Join(genRoot, "cwd2", "deeper")
	hx.Must(os.MkdirAll(d1, 0o755))
	hx.Must(os.MkdirAll(d2, 0o755))
	single := map[string]map[string]string{} // variant -> output file name -> content, from the one-file requests
	for _, f := range all {
		for _, v := range allVariants {
			if f.GoogleOnly && v.Runtime() != "google" {
				continue
			}
			req := request(f, v.Param())
			o1, e1, err1 := runPlugin(fm, req, d1, []string{"TZ=UTC"})
			if single[v.Name()] == nil {
				single[v.Name()] = map[string]string{}
			}
			if err1 == nil && e1 == "" && f.ParamV1 == "" {
				for _, o := range o1 {
					if _, dup := single[v.Name()][o.Name]; dup {
						single[v.Name()][o.Name] = "\x00ambiguous" // finding G17: one name, two contents
					} else {
						single[v.Name()][o.Name] = o.Content
					}
				}
			}
			o2, e2, err2 := runPlugin(fm, req, d2, []string{"TZ=Asia/Tokyo", "LANG=C"})
			cs := fmt.Sprintf("schema=%s variant=%s", f.Base, v.Name())
			sink.OracleN++
			if err1 != nil || err2 != nil {
				fail("the plug-in crashed or wrote an unparsable response", cs, "a response", fmt.Sprint(err1, err2), "gen-crash")
				continue
			}
			same := e1 == e2 && len(o1) == len(o2)
			for i := range o1 {
				if same && (o1[i].Name != o2[i].Name || o1[i].Content != o2[i].Content) {
					same = false
				}
			}
			// wherever the output has an order that the schema does not fix (several imports), Go's randomised map
			// iteration shows up only every few runs: repeat
			for rep := 0; same && len(f.Imports) >= 2 && rep < 24; rep++ {
				o3, e3, err3 := runPlugin(fm, req, d1, nil)
				if err3 != nil || e3 != e1 || len(o3) != len(o1) {
					same = false
					break
				}
				for i := range o1 {
					if o1[i].Name != o3[i].Name || o1[i].Content != o3[i].Content {
						same = false
					}
				}
			}
			if !same {
				fail("two runs on the identical request produced different output", cs, "byte-identical", "differs", "gen-nondeterministic")
			}
			var names []string
			seen := map[string]bool{}
			for _, o := range o1 {
				names = append(names, o.Name)
				if seen[o.Name] {
					fail("an output file name is used twice", cs, "distinct names", o.Name, "gen-collision:"+f.Base)
				}
				seen[o.Name] = true
				if !v.PerMessage || true {
					if _, perr := goParse(o.Name, o.Content); perr != "" {
						fail("an emitted file is not valid Go", cs+" file="+o.Name, "parsable", perr, "gen-unparsable:"+f.Base)
					}
				}
			}
			impl := strings.Join(names, " ")
			if e1 != "" {
				impl = "error"
				if !strings.Contains(e1, "unparsable Go source") {
					// anything else than a rendering problem
				}
			}
			pm := "0"
			if v.PerMessage {
				pm = "1"
			}
			if e1 == "" {
				sink.Add("names", fmt.Sprintf("G NM@%s %s %s/%s %s", v.Name(), pm, f.Dir(), f.Base, f.Forest()), impl, true)
			}
			sink.Count("generated:" + v.Name())
		}
	}
	// (2b) one request naming MANY files to generate (what `protoc a.proto b.proto ...` sends): every file must come
	//      out exactly as when it is generated alone
	for _, v := range allVariants {
		var names []string
		var descs []*descriptorpb.FileDescriptorProto
		seen := map[string]bool{}
		for _, f := range all {
			if (f.GoogleOnly && v.Runtime() != "google") || f.ParamV1 != "" {
				continue
			}
			if _, ok := single[v.Name()][f.Dir()+"/"+f.Base+".pb.fm.go"]; !ok && !v.PerMessage {
				continue // does not generate alone either (reported above)
			}
			for _, dp := range f.AllDescriptors() {
				if !seen[dp.GetName()] {
					seen[dp.GetName()] = true
					descs = append(descs, dp)
				}
			}
			names = append(names, f.ProtoPath())
		}
		req := &pluginpb.CodeGeneratorRequest{FileToGenerate: names, Parameter: proto.String(v.Param()), ProtoFile: descs}
		outs, e, err := runPlugin(fm, req, d1, nil)
		sink.OracleN++
		cs := fmt.Sprintf("variant=%s files=%d in one request", v.Name(), len(names))
		if err != nil || e != "" {
			if !(v.PerMessage && (strings.Contains(e, "twice") || strings.Contains(e, "duplicate"))) {
				fail("the plug-in failed on a request naming several files, each of which it generates alone", cs, "output", fmt.Sprint(err, " ", e), "gen-multifile")
			}
			continue
		}
		for _, o := range outs {
			want, ok := single[v.Name()][o.Name]
			if !ok {
				continue // (an output of a file that fails alone, e.g. a recorded name collision)
			}
			if want != o.Content && want != "\x00ambiguous" {
				fail("a file generated as part of a multi-file request differs from the same file generated alone", cs+" output="+o.Name, "identical", firstDiff(want, o.Content), "gen-multifile")
				break
			}
		}
		sink.Count("multifile-request:" + v.Name())
	}
	// (3) option handling: documented spellings accepted, anything else rejected
	f0 := all[0]
	for _, pc := range []struct {
		param string
		ok    bool
	}{{"paths=source_relative,apiversion=V2", true}, {"paths=source_relative,apiversion=v1", true}, {"paths=source_relative,apiversion=v3", false},
		{"paths=source_relative,filepermessage=1", true}, {"paths=source_relative,filepermessage=T", true}, {"paths=source_relative,filepermessage=yes", false},
		{"paths=source_relative,enableunsafedecode=false", true}, {"paths=source_relative,specialname=Size,specialname=Foo", true},
		{"paths=source_relative,nosuchoption=1", false}, {"paths=source_relative", true}} {
		_, e, err := runPlugin(fm, request(f0, pc.param), d1, nil)
		sink.OracleN++
		got := err == nil && e == ""
		if got != pc.ok {
			fail("generator option handling differs from the documentation", pc.param, fmt.Sprint(pc.ok), fmt.Sprint(got, " ", e, " ", err), "gen-options")
		}
		res := "rejected"
		if got {
			res = "accepted"
		}
		sink.Add("options", "G OP "+pc.param, res, true)
	}
	os.RemoveAll(filepath.Join(genRoot, "cwd1"))
	os.RemoveAll(filepath.Join(genRoot, "cwd2"))
}

func firstDiff(a, b string) string {
	la, lb := strings.Split(a, "\n"), strings.Split(b, "\n")
	for i := 0; i < len(la) && i < len(lb); i++ {
		if la[i] != lb[i] {
			return fmt.Sprintf("line %d: %q vs %q", i+1, la[i], lb[i])
		}
	}
	return fmt.Sprintf("%d vs %d lines", len(la), len(lb))
}
