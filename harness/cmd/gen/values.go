package main

import (
	"bytes"
	"fmt"
	"math"
	"strings"

	"google.golang.org/protobuf/encoding/protowire"
	"google.golang.org/protobuf/reflect/protoreflect"
	"google.golang.org/protobuf/types/dynamicpb"

	"verif/harness/internal/hx"
)

// boundary values per kind (as protoreflect values)
func boundaries(fd protoreflect.FieldDescriptor) []protoreflect.Value {
	V := protoreflect.ValueOf
	switch fd.Kind() {
	case protoreflect.BoolKind:
		return []protoreflect.Value{V(false), V(true)}
	case protoreflect.Int32Kind, protoreflect.Sint32Kind, protoreflect.Sfixed32Kind:
		return []protoreflect.Value{V(int32(0)), V(int32(1)), V(int32(-1)), V(int32(127)), V(int32(128)), V(int32(-64)), V(int32(-65)), V(int32(math.MaxInt32)), V(int32(math.MinInt32)), V(int32(16384))}
	case protoreflect.Int64Kind, protoreflect.Sint64Kind, protoreflect.Sfixed64Kind:
		return []protoreflect.Value{V(int64(0)), V(int64(1)), V(int64(-1)), V(int64(127)), V(int64(128)), V(int64(math.MaxInt32) + 1), V(int64(math.MinInt32) - 1), V(int64(math.MaxInt64)), V(int64(math.MinInt64)), V(int64(1) << 56)}
	case protoreflect.Uint32Kind, protoreflect.Fixed32Kind:
		return []protoreflect.Value{V(uint32(0)), V(uint32(1)), V(uint32(127)), V(uint32(128)), V(uint32(16383)), V(uint32(16384)), V(uint32(1) << 31), V(uint32(math.MaxUint32))}
	case protoreflect.Uint64Kind, protoreflect.Fixed64Kind:
		return []protoreflect.Value{V(uint64(0)), V(uint64(1)), V(uint64(127)), V(uint64(128)), V(uint64(1) << 32), V(uint64(1) << 63), V(uint64(math.MaxUint64)), V(uint64(1)<<56 - 1)}
	case protoreflect.FloatKind:
		return []protoreflect.Value{V(float32(0)), V(float32(math.Copysign(0, -1))), V(float32(1.5)), V(float32(-2)), V(float32(math.Inf(1))), V(float32(math.MaxFloat32)), V(math.Float32frombits(0x7FC00001)), V(float32(math.SmallestNonzeroFloat32))}
	case protoreflect.DoubleKind:
		return []protoreflect.Value{V(float64(0)), V(math.Copysign(0, -1)), V(float64(1.5)), V(float64(-2)), V(math.Inf(-1)), V(math.MaxFloat64), V(math.Float64frombits(0x7FF8000000000001)), V(math.SmallestNonzeroFloat64)}
	case protoreflect.EnumKind:
		vals := fd.Enum().Values()
		var out []protoreflect.Value
		for i := 0; i < vals.Len(); i++ {
			out = append(out, protoreflect.ValueOfEnum(vals.Get(i).Number()))
		}
		if fd.Syntax() == protoreflect.Proto3 {
			out = append(out, protoreflect.ValueOfEnum(77), protoreflect.ValueOfEnum(math.MinInt32))
		}
		return out
	case protoreflect.StringKind:
		return []protoreflect.Value{V(""), V("a"), V("héllo ✓"), V(string(make([]byte, 127))), V(string(make([]byte, 128))), V("tag: 1\n"), V(strings.Repeat("x", 126)), V(strings.Repeat("é", 64))}
	case protoreflect.BytesKind:
		return []protoreflect.Value{V([]byte{}), V([]byte{0}), V([]byte{0xFF, 0x80, 0x00}), V(make([]byte, 127)), V(make([]byte, 128)), V(make([]byte, 300))}
	}
	return nil
}

func randScalar(r *hx.Rng, fd protoreflect.FieldDescriptor) protoreflect.Value {
	b := boundaries(fd)
	if r.Intn(3) == 0 {
		return b[r.Intn(len(b))]
	}
	V := protoreflect.ValueOf
	bits := r.U64() >> uint(r.Intn(64))
	if r.Intn(3) == 0 {
		bits = -bits
	}
	switch fd.Kind() {
	case protoreflect.BoolKind:
		return V(bits&1 == 1)
	case protoreflect.Int32Kind, protoreflect.Sint32Kind, protoreflect.Sfixed32Kind:
		return V(int32(bits))
	case protoreflect.Int64Kind, protoreflect.Sint64Kind, protoreflect.Sfixed64Kind:
		return V(int64(bits))
	case protoreflect.Uint32Kind, protoreflect.Fixed32Kind:
		return V(uint32(bits))
	case protoreflect.Uint64Kind, protoreflect.Fixed64Kind:
		return V(bits)
	case protoreflect.FloatKind:
		f := math.Float32frombits(uint32(bits))
		return V(f)
	case protoreflect.DoubleKind:
		return V(math.Float64frombits(bits))
	case protoreflect.EnumKind:
		return b[r.Intn(len(b))]
	case protoreflect.StringKind:
		pool := []rune("abcXYZ019 _-é✓漢")
		n := r.Intn(12)
		out := make([]rune, n)
		for i := range out {
			out[i] = pool[r.Intn(len(pool))]
		}
		return V(string(out))
	case protoreflect.BytesKind:
		return V(r.Bytes(r.Intn(12)))
	}
	panic("randScalar: " + fd.Kind().String())
}

// nonZeroValue: a random value that is not the kind's zero (so that every byte of its encoding is emitted)
func nonZeroValue(r *hx.Rng, fd protoreflect.FieldDescriptor) protoreflect.Value {
	for i := 0; i < 50; i++ {
		v := randValue(r, fd, 1)
		switch fd.Kind() {
		case protoreflect.MessageKind:
			return v
		case protoreflect.StringKind:
			if v.String() != "" {
				return v
			}
		case protoreflect.BytesKind:
			if len(v.Bytes()) > 0 {
				return v
			}
		case protoreflect.BoolKind:
			return protoreflect.ValueOfBool(true)
		case protoreflect.FloatKind, protoreflect.DoubleKind:
			if v.Float() != 0 {
				return v
			}
		case protoreflect.EnumKind:
			if v.Enum() != 0 {
				return v
			}
		default:
			if fmt.Sprint(v.Interface()) != "0" {
				return v
			}
		}
	}
	return randValue(r, fd, 1)
}

func randMessage(r *hx.Rng, md protoreflect.MessageDescriptor, depth int) *dynamicpb.Message {
	m := dynamicpb.NewMessage(md)
	for _, fd := range allFields(md) {
		if r.Intn(3) == 0 && fd.Cardinality() != protoreflect.Required {
			continue
		}
		if fd.Cardinality() == protoreflect.Required && r.Intn(12) == 0 {
			continue
		}
		setRandom(r, m, fd, depth)
	}
	return m
}

func randValue(r *hx.Rng, fd protoreflect.FieldDescriptor, depth int) protoreflect.Value {
	if fd.Kind() == protoreflect.MessageKind {
		if depth <= 0 {
			return protoreflect.ValueOfMessage(dynamicpb.NewMessage(fd.Message()))
		}
		return protoreflect.ValueOfMessage(randMessage(r, fd.Message(), depth-1))
	}
	return randScalar(r, fd)
}

func setRandom(r *hx.Rng, m *dynamicpb.Message, fd protoreflect.FieldDescriptor, depth int) {
	switch {
	case fd.IsMap():
		mp := m.Mutable(fd).Map()
		for k := r.Intn(4); k > 0; k-- {
			mp.Set(randScalar(r, fd.MapKey()).MapKey(), randValue(r, fd.MapValue(), depth))
		}
	case fd.IsList():
		l := m.Mutable(fd).List()
		n := []int{0, 1, 2, 3, 15, 16, 17, 33}[r.Intn(8)]
		if fd.Kind() == protoreflect.MessageKind && n > 3 {
			n = 3
		}
		for ; n > 0; n-- {
			l.Append(randValue(r, fd, depth))
		}
	default:
		m.Set(fd, randValue(r, fd, depth))
	}
}

// genValues: the empty message; every field set alone to each boundary value (lists: lengths 1, 2,
// 15, 16, 17, 31, 32, 33 of boundary/random elements; maps: one entry per boundary key and per
// boundary value, and a three-entry map; message fields: empty and populated sub-messages); then
// random combinations with nesting.
func genValues(r *hx.Rng, md protoreflect.MessageDescriptor) []*dynamicpb.Message {
	var out []*dynamicpb.Message
	out = append(out, dynamicpb.NewMessage(md))
	fields := md.Fields()
	for _, fd := range allFields(md) {
		fd := fd
		one := func(f func(m *dynamicpb.Message)) {
			m := dynamicpb.NewMessage(md)
			f(m)
			out = append(out, m)
		}
		switch {
		case fd.IsMap():
			kb := boundaries(fd.MapKey())
			for _, k := range kb {
				k := k
				one(func(m *dynamicpb.Message) { m.Mutable(fd).Map().Set(k.MapKey(), randValue(r, fd.MapValue(), 1)) })
			}
			if fd.MapValue().Kind() == protoreflect.MessageKind {
				one(func(m *dynamicpb.Message) {
					m.Mutable(fd).Map().Set(randScalar(r, fd.MapKey()).MapKey(), protoreflect.ValueOfMessage(dynamicpb.NewMessage(fd.MapValue().Message())))
				})
			} else {
				for _, v := range boundaries(fd.MapValue()) {
					v := v
					one(func(m *dynamicpb.Message) { m.Mutable(fd).Map().Set(randScalar(r, fd.MapKey()).MapKey(), v) })
				}
			}
			one(func(m *dynamicpb.Message) {
				for k := 0; k < 3; k++ {
					m.Mutable(fd).Map().Set(randScalar(r, fd.MapKey()).MapKey(), randValue(r, fd.MapValue(), 1))
				}
			})
			// entry lengths around the 1|2-byte length-prefix boundary: the ENTRY (key + value) crosses 128 while
			// neither part does, for every key/value length split the field's kinds allow
			if fd.MapKey().Kind() == protoreflect.StringKind {
				for L := 108; L <= 128; L++ {
					L := L
					one(func(m *dynamicpb.Message) {
						m.Mutable(fd).Map().Set(protoreflect.ValueOfString(strings.Repeat("k", L)).MapKey(), nonZeroValue(r, fd.MapValue()))
					})
				}
			}
			if k := fd.MapValue().Kind(); k == protoreflect.StringKind || k == protoreflect.BytesKind {
				for L := 108; L <= 128; L++ {
					L := L
					one(func(m *dynamicpb.Message) {
						var v protoreflect.Value
						if k == protoreflect.StringKind {
							v = protoreflect.ValueOfString(strings.Repeat("v", L))
						} else {
							v = protoreflect.ValueOfBytes(bytes.Repeat([]byte{7}, L))
						}
						m.Mutable(fd).Map().Set(nonZeroValue(r, fd.MapKey()).MapKey(), v)
					})
				}
			}
		case fd.IsList():
			if fd.Kind() == protoreflect.MessageKind {
				one(func(m *dynamicpb.Message) {
					m.Mutable(fd).List().Append(protoreflect.ValueOfMessage(dynamicpb.NewMessage(fd.Message())))
				})
				one(func(m *dynamicpb.Message) {
					l := m.Mutable(fd).List()
					l.Append(randValue(r, fd, 1))
					l.Append(protoreflect.ValueOfMessage(dynamicpb.NewMessage(fd.Message())))
					l.Append(randValue(r, fd, 2))
				})
				continue
			}
			b := boundaries(fd)
			one(func(m *dynamicpb.Message) { // every boundary value in one list
				l := m.Mutable(fd).List()
				for _, v := range b {
					l.Append(v)
				}
			})
			for _, n := range []int{1, 2, 15, 16, 17, 31, 32, 33} {
				n := n
				one(func(m *dynamicpb.Message) {
					l := m.Mutable(fd).List()
					for k := 0; k < n; k++ {
						l.Append(randScalar(r, fd))
					}
				})
			}
		case fd.Kind() == protoreflect.MessageKind:
			one(func(m *dynamicpb.Message) { m.Set(fd, protoreflect.ValueOfMessage(dynamicpb.NewMessage(fd.Message()))) })
			one(func(m *dynamicpb.Message) { m.Set(fd, randValue(r, fd, 1)) })
			one(func(m *dynamicpb.Message) { m.Set(fd, randValue(r, fd, 3)) })
		default:
			for _, v := range boundaries(fd) {
				v := v
				one(func(m *dynamicpb.Message) { m.Set(fd, v) })
			}
		}
	}
	n := 12
	if thorough {
		n = 40
	}
	for i := 0; i < n; i++ {
		out = append(out, randMessage(r, md, 3))
	}
	// messages that carry UNKNOWN fields (what Unmarshal retains), at the top level and in nested / list / map /
	// oneof children: Size, the cached size and Marshal must all count them
	g := &vgen{r: r}
	for i := 0; i < n/2+4; i++ {
		m := randMessage(r, md, 3)
		if i%2 == 0 {
			fillRequired(r, m, 4)
		}
		addUnknown(g, m, 3, i%3 == 0)
		out = append(out, m)
	}
	// all required fields set (when there are any), so that success paths are exercised too
	hasReq := false
	for i := 0; i < fields.Len(); i++ {
		if fields.Get(i).Cardinality() == protoreflect.Required {
			hasReq = true
		}
	}
	if hasReq {
		for k := 0; k < 6; k++ {
			m := randMessage(r, md, 2)
			fillRequired(r, m, 4)
			out = append(out, m)
		}
	}
	return out
}

// set every unset required field, recursively through set message fields
func fillRequired(r *hx.Rng, m protoreflect.Message, depth int) {
	fields := m.Descriptor().Fields()
	for i := 0; i < fields.Len(); i++ {
		fd := fields.Get(i)
		if fd.Cardinality() == protoreflect.Required && !m.Has(fd) {
			if fd.Kind() == protoreflect.MessageKind {
				m.Set(fd, protoreflect.ValueOfMessage(dynamicpb.NewMessage(fd.Message())))
			} else {
				m.Set(fd, randScalar(r, fd))
			}
		}
	}
	if depth <= 0 {
		return
	}
	m.Range(func(fd protoreflect.FieldDescriptor, v protoreflect.Value) bool {
		if fd.Kind() != protoreflect.MessageKind {
			return true
		}
		switch {
		case fd.IsMap():
			if fd.MapValue().Kind() != protoreflect.MessageKind {
				return true
			}
			v.Map().Range(func(_ protoreflect.MapKey, mv protoreflect.Value) bool {
				fillRequired(r, mv.Message(), depth-1)
				return true
			})
		case fd.IsList():
			for i := 0; i < v.List().Len(); i++ {
				fillRequired(r, v.List().Get(i).Message(), depth-1)
			}
		default:
			fillRequired(r, v.Message(), depth-1)
		}
		return true
	})
}

// addUnknown gives m (always) and its message-valued children (each with probability 1/2, or all of them) 1-3 unknown fields
func addUnknown(g *vgen, m protoreflect.Message, depth int, all bool) {
	md := m.Descriptor()
	inExtRange := func(n protoreflect.FieldNumber) bool { return md.ExtensionRanges().Has(n) }
	var u []byte
	for k := 1 + g.r.Intn(3); k > 0; k-- {
		for {
			c := g.unknownField(md)
			num, _, _ := protowire.ConsumeTag(c)
			if !inExtRange(num) {
				u = append(u, c...)
				break
			}
		}
	}
	m.SetUnknown(u)
	if depth <= 0 {
		return
	}
	m.Range(func(fd protoreflect.FieldDescriptor, v protoreflect.Value) bool {
		if fd.IsExtension() {
			return true
		}
		switch {
		case fd.IsMap() && fd.MapValue().Kind() == protoreflect.MessageKind:
			v.Map().Range(func(_ protoreflect.MapKey, mv protoreflect.Value) bool {
				if all || g.r.Intn(2) == 0 {
					addUnknown(g, mv.Message(), depth-1, all)
				}
				return true
			})
		case fd.IsList() && fd.Kind() == protoreflect.MessageKind:
			for i := 0; i < v.List().Len(); i++ {
				if all || g.r.Intn(2) == 0 {
					addUnknown(g, v.List().Get(i).Message(), depth-1, all)
				}
			}
		case !fd.IsMap() && !fd.IsList() && fd.Kind() == protoreflect.MessageKind:
			if all || g.r.Intn(2) == 0 {
				addUnknown(g, v.Message(), depth-1, all)
			}
		}
		return true
	})
}
