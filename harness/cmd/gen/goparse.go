package main

import (
	"go/parser"
	"go/token"
)

func goParse(name, content string) (bool, string) {
	fset := token.NewFileSet()
	if _, err := parser.ParseFile(fset, name, content, parser.AllErrors); err != nil {
		return false, err.Error()
	}
	return true, ""
}
