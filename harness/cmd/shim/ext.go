package main

import (
	"fmt"
	"sort"
	"strings"

	"github.com/CrowdStrike/csproto"
	gogoproto "github.com/gogo/protobuf/proto"
	gogodesc "github.com/gogo/protobuf/protoc-gen-gogo/descriptor"
	protoV1 "github.com/golang/protobuf/proto" //nolint
	"google.golang.org/protobuf/proto"
	"google.golang.org/protobuf/reflect/protodesc"
	"google.golang.org/protobuf/reflect/protoreflect"
	"google.golang.org/protobuf/reflect/protoregistry"
	"google.golang.org/protobuf/runtime/protoimpl"
	"google.golang.org/protobuf/types/descriptorpb"
	"google.golang.org/protobuf/types/dynamicpb"

	"verif/harness/internal/hx"
)

// Extension descriptors of the three flavours, all int64-valued extensions of MessageOptions:
//
//	v2[n]     protoreflect.ExtensionType (dynamicpb) of google.protobuf.MessageOptions
//	v1[n]     *golang/protobuf ExtensionDesc (= protoimpl.ExtensionInfo) of descriptorpb.MessageOptions
//	gogo[n]   *gogo ExtensionDesc of gogo's descriptor.MessageOptions
var (
	extNums  = []int32{50100, 50101, 50102, 50103}
	v2Exts   = map[int32]protoreflect.ExtensionType{}
	v1Exts   = map[int32]*protoV1.ExtensionDesc{}
	gogoExts = map[int32]*gogoproto.ExtensionDesc{}
)

func setupExts() {
	fdp := &descriptorpb.FileDescriptorProto{
		Name:       proto.String("verif/ext.proto"),
		Package:    proto.String("verif.ext"),
		Syntax:     proto.String("proto2"),
		Dependency: []string{"google/protobuf/descriptor.proto"},
	}
	for _, n := range extNums[:2] {
		fdp.Extension = append(fdp.Extension, &descriptorpb.FieldDescriptorProto{
			Name: proto.String(fmt.Sprintf("e%d", n)), Number: proto.Int32(n), Extendee: proto.String(".google.protobuf.MessageOptions"),
			Type: descriptorpb.FieldDescriptorProto_TYPE_INT64.Enum(), Label: descriptorpb.FieldDescriptorProto_LABEL_OPTIONAL.Enum(),
			JsonName: proto.String(fmt.Sprintf("e%d", n))})
	}
	fd, err := protodesc.NewFile(fdp, protoregistry.GlobalFiles)
	hx.Must(err)
	for i := 0; i < fd.Extensions().Len(); i++ {
		xd := fd.Extensions().Get(i)
		xt := dynamicpb.NewExtensionType(xd)
		v2Exts[int32(xd.Number())] = xt
		_ = protoregistry.GlobalTypes.RegisterExtension(xt)
	}
	for _, n := range extNums[2:] {
		xi := &protoimpl.ExtensionInfo{ExtendedType: (*descriptorpb.MessageOptions)(nil), ExtensionType: (*int64)(nil), Field: n,
			Name: fmt.Sprintf("verif.ext.l%d", n), Tag: fmt.Sprintf("varint,%d,opt,name=l%d", n, n)}
		v1Exts[n] = xi
		_ = protoregistry.GlobalTypes.RegisterExtension(xi)
	}
	for _, n := range extNums {
		gd := &gogoproto.ExtensionDesc{ExtendedType: (*gogodesc.MessageOptions)(nil), ExtensionType: (*int64)(nil), Field: n,
			Name: fmt.Sprintf("verif.ext.g%d", n), Tag: fmt.Sprintf("varint,%d,opt,name=g%d", n, n)}
		gogoproto.RegisterExtension(gd)
		gogoExts[n] = gd
	}
}

// descriptor of flavour fl for number n (nil when that flavour has none for n)
func descFor(fl string, n int32) interface{} {
	switch fl {
	case "v2":
		if x, ok := v2Exts[n]; ok {
			return x
		}
		return v2Exts[extNums[0]] // same flavour, other number never requested
	case "v1":
		if x, ok := v1Exts[n]; ok {
			return x
		}
	case "gogo":
		if x, ok := gogoExts[n]; ok {
			return x
		}
	case "other":
		return "not a descriptor"
	}
	return nil
}

type xop struct {
	typ string // set get has clear clearall range number
	fl  string
	n   int32
	v   int64
}

func (o xop) token() string {
	switch o.typ {
	case "set":
		return fmt.Sprintf("set:%s:%d:%s", o.fl, o.n, hx.I(o.v))
	case "get", "has", "clear", "number":
		return fmt.Sprintf("%s:%s:%d", o.typ, o.fl, o.n)
	}
	return o.typ
}

// numbers of the extensions set, per the OWNING runtime's API
func ownerSet(rt string, m interface{}) []int32 {
	var out []int32
	switch rt {
	case "google":
		proto.RangeExtensions(m.(proto.Message), func(xt protoreflect.ExtensionType, _ interface{}) bool {
			out = append(out, int32(xt.TypeDescriptor().Number()))
			return true
		})
	case "gogo":
		ds, _ := gogoproto.ExtensionDescs(m.(gogoproto.Message))
		for _, d := range ds {
			out = append(out, d.Field)
		}
	}
	sort.Slice(out, func(i, j int) bool { return out[i] < out[j] })
	return out
}

func fmtNums(ns []int32) string {
	s := make([]string, len(ns))
	for i, n := range ns {
		s[i] = fmt.Sprint(n)
	}
	return "nums:" + strings.Join(s, ",")
}

func streamC12(r *hx.Rng) {
	setupExts()
	n := 300
	if thorough {
		n = 5000
	}
	type rtcase struct {
		rt      string
		fresh   func() interface{}
		flavors []string // descriptor flavours that exist for numbers: which numbers each flavour covers
	}
	rts := []rtcase{
		{"google", func() interface{} { return &descriptorpb.MessageOptions{} }, nil},
		{"gogo", func() interface{} { return &gogodesc.MessageOptions{} }, nil},
		{"googlev1", func() interface{} { return &LegacyV1{} }, nil},
		{"unknown", func() interface{} { return new(int) }, nil},
	}
	flNums := map[string][]int32{"v2": extNums[:2], "v1": extNums[2:], "gogo": extNums, "other": {1}}
	for i := 0; i < n; i++ {
		rc := rts[i%len(rts)]
		if i%len(rts) >= 2 && i%7 != 0 {
			rc = rts[i%2]
		}
		m := rc.fresh()
		nops := 3 + r.Intn(8)
		var toks, outs []string
		for k := 0; k < nops; k++ {
			var o xop
			fls := []string{"v2", "v1", "gogo"}
			// mostly the flavours the runtime accepts, sometimes a foreign one
			accept := map[string][]string{"google": {"v2", "v1"}, "gogo": {"gogo"}, "googlev1": {"v1"}, "unknown": {"v2"}}[rc.rt]
			fl := accept[r.Intn(len(accept))]
			if r.Intn(5) == 0 {
				fl = fls[r.Intn(3)]
			}
			if r.Intn(25) == 0 {
				fl = "other"
			}
			nums := flNums[fl]
			num := nums[r.Intn(len(nums))]
			switch c := r.Intn(12); {
			case c < 4:
				o = xop{typ: "set", fl: fl, n: num, v: int64(r.U64() >> uint(r.Intn(64)))}
			case c < 6:
				o = xop{typ: "get", fl: fl, n: num}
			case c < 8:
				o = xop{typ: "has", fl: fl, n: num}
			case c < 9:
				o = xop{typ: "clear", fl: fl, n: num}
			case c < 10:
				o = xop{typ: "clearall"}
			case c < 11:
				o = xop{typ: "range"}
			default:
				o = xop{typ: "number", fl: fl, n: num}
			}
			if rc.rt == "googlev1" && o.typ == "range" {
				o = xop{typ: "clearall"} // LegacyV1 has no extension ranges: the v1 runtime's own ExtensionDescs answers with an error
			}
			if rc.rt == "googlev1" && (o.typ == "set" || o.typ == "get" || o.typ == "has" || o.typ == "clear") && fl == "v1" {
				// LegacyV1 declares no extension ranges: the v1 runtime itself panics / errs on it; only mismatches are exercised
				o.fl = "gogo"
				o.n = extNums[0]
			}
			d := descFor(o.fl, o.n)
			before := ownerSet(rc.rt, m)
			out := guard(func() string {
				switch o.typ {
				case "set":
					var val interface{} = o.v
					if o.fl == "gogo" || (o.fl == "v1" && rc.rt != "google") {
						vv := o.v
						val = &vv
					}
					if err := csproto.SetExtension(m, d, val); err != nil {
						return "err"
					}
					return "none"
				case "get":
					v, err := csproto.GetExtension(m, d)
					if err != nil && !(rc.rt == "gogo" && err == gogoproto.ErrMissingExtension) {
						return "err"
					}
					if !csproto.HasExtension(m, d) {
						return "val:none"
					}
					switch tv := v.(type) {
					case int64:
						return "val:" + hx.I(tv)
					case *int64:
						return "val:" + hx.I(*tv)
					}
					return fmt.Sprintf("val:?%T", v)
				case "has":
					return fmt.Sprint("bool:", csproto.HasExtension(m, d))
				case "clear":
					return guard(func() string { csproto.ClearExtension(m, d); return "none" })
				case "clearall":
					csproto.ClearAllExtensions(m)
					return "none"
				case "range":
					var ns []int32
					if err := csproto.RangeExtensions(m, func(_ interface{}, _ string, f int32) error { ns = append(ns, f); return nil }); err != nil {
						return "err"
					}
					sort.Slice(ns, func(i, j int) bool { return ns[i] < ns[j] })
					return fmtNums(ns)
				default:
					f, err := csproto.ExtensionFieldNumber(d)
					if err != nil {
						return "err"
					}
					return fmt.Sprint("num:", f)
				}
			})
			if o.typ == "clear" && out == "panic" {
				out = "docpanic"
			}
			toks = append(toks, o.token())
			outs = append(outs, out)
			sink.OracleN++
			cs := fmt.Sprintf("runtime=%s history=%s", rc.rt, strings.Join(toks, " "))
			if out == "panic" {
				fail("an extension accessor panicked", cs, "result or error", out, "ext-panic")
			}
			// oracle: coherent with the owning runtime's own API
			after := ownerSet(rc.rt, m)
			accepted := map[string]map[string]bool{"google": {"v2": true, "v1": true}, "gogo": {"gogo": true}, "googlev1": {"v1": true}}[rc.rt][o.fl]
			switch o.typ {
			case "set":
				if accepted {
					if out != "none" || !csproto.HasExtension(m, d) {
						fail("after SetExtension, HasExtension is not true", cs, "true", out, "ext-set")
					}
					if rc.rt == "google" && !proto.HasExtension(m.(proto.Message), d.(protoreflect.ExtensionType)) {
						fail("SetExtension did not reach the owning runtime", cs, "set", "unset", "ext-set")
					}
					if rc.rt == "gogo" && !gogoproto.HasExtension(m.(gogoproto.Message), d.(*gogoproto.ExtensionDesc)) {
						fail("SetExtension did not reach the owning runtime", cs, "set", "unset", "ext-set")
					}
				} else if fmt.Sprint(before) != fmt.Sprint(after) || out == "none" {
					fail("SetExtension with a descriptor of another runtime modified the message or reported success", cs, "error, unchanged", out, "ext-mismatch")
				}
			case "clear":
				if accepted && csproto.HasExtension(m, d) {
					fail("after ClearExtension, HasExtension is still true", cs, "false", "true", "ext-clear")
				}
				if !accepted && (fmt.Sprint(before) != fmt.Sprint(after) || out != "docpanic") {
					fail("ClearExtension with a mismatching descriptor did not panic as documented / modified the message", cs, "documented panic", out, "ext-mismatch")
				}
			case "clearall":
				if len(after) != 0 {
					fail("ClearAllExtensions left extensions set", cs, "none", fmtNums(after), "ext-clearall")
				}
				if b, err := ownerMarshalExt(rc.rt, m); err == nil && len(b) != 0 {
					fail("extensions still appear in the marshaled bytes after ClearAllExtensions", cs, "empty", hx.B(b), "ext-clearall")
				}
			case "range":
				if rc.rt == "google" || rc.rt == "gogo" {
					if out != fmtNums(before) {
						fail("RangeExtensions does not visit exactly the extensions that are set", cs, fmtNums(before), out, "ext-range")
					}
				}
			case "has", "get":
				if !accepted && o.typ == "has" && out != "bool:false" {
					fail("HasExtension with a descriptor of another runtime is not false", cs, "false", out, "ext-mismatch")
				}
				if !accepted && o.typ == "get" && out != "err" {
					fail("GetExtension with a descriptor of another runtime did not return an error", cs, "err", out, "ext-mismatch")
				}
			case "number":
				if o.fl != "other" && out != fmt.Sprint("num:", o.n) {
					fail("ExtensionFieldNumber differs from the declared number", cs, fmt.Sprint(o.n), out, "ext-number")
				}
			}
		}
		sink.Add("ext-history", fmt.Sprintf("S EXT %s %s", rc.rt, strings.Join(toks, " ")), strings.Join(outs, " "), len(toks) >= 2)
	}
}

func ownerMarshalExt(rt string, m interface{}) ([]byte, error) {
	switch rt {
	case "google":
		return proto.Marshal(m.(proto.Message))
	case "gogo":
		return gogoproto.Marshal(m.(gogoproto.Message))
	}
	return nil, fmt.Errorf("n/a")
}
