package main

import (
	"bytes"
	"encoding/binary"
	"fmt"
	"math"
	"reflect"
	"sort"
	"strconv"
	"strings"
	"sync"

	"github.com/CrowdStrike/csproto"
	gogoproto "github.com/gogo/protobuf/proto"
	gogodesc "github.com/gogo/protobuf/protoc-gen-gogo/descriptor"
	gogotypes "github.com/gogo/protobuf/types"
	protoV1 "github.com/golang/protobuf/proto" //nolint
	"google.golang.org/protobuf/encoding/prototext"
	"google.golang.org/protobuf/encoding/protowire"
	"google.golang.org/protobuf/proto"
	"google.golang.org/protobuf/reflect/protodesc"
	"google.golang.org/protobuf/reflect/protoreflect"
	"google.golang.org/protobuf/reflect/protoregistry"
	"google.golang.org/protobuf/runtime/protoimpl"
	"google.golang.org/protobuf/types/descriptorpb"
	"google.golang.org/protobuf/types/dynamicpb"
	"google.golang.org/protobuf/types/known/wrapperspb"

	"verif/harness/internal/hx"
)

// Extension descriptors of the three flavours, all extensions of MessageOptions, one per value kind
// (int64, string, bytes, bool, enum, message, double):
//
//	v2[n]     protoreflect.ExtensionType (dynamicpb) of google.protobuf.MessageOptions      n = 50100 + kind
//	v1[n]     *golang/protobuf ExtensionDesc (= protoimpl.ExtensionInfo) of descriptorpb.MessageOptions   n = 50200 + kind
//	gogo[n]   *gogo ExtensionDesc of gogo's descriptor.MessageOptions, for all of those numbers
type xkind int

const (
	xkI64 xkind = iota
	xkStr
	xkBytes
	xkBool
	xkEnum
	xkMsg
	xkDouble
	nxk
)

// numbers ..00-..06: one extension per kind; ..07: an int64 extension that declares a default value
func kindOf(n int32) xkind {
	if k := xkind(n % 100); k < nxk {
		return k
	}
	return xkI64
}

var (
	v2Nums, v1Nums, extNums []int32
	v2Exts                  = map[int32]protoreflect.ExtensionType{}
	v1Exts                  = map[int32]*protoV1.ExtensionDesc{}
	gogoExts                = map[int32]*gogoproto.ExtensionDesc{}
)

// the value an extension of kind k holds for the abstract value code (what the model calls Z), in the Go
// shape the descriptor flavour wants; normCode maps an arbitrary integer into the kind's range first
func normCode(k xkind, v int64) int64 {
	switch k {
	case xkBool:
		return v & 1
	case xkEnum:
		if v < 0 {
			v = -(v + 1)
		}
		return 1 + v%18 // FieldDescriptorProto.Type has the values 1..18
	case xkDouble:
		if f := math.Float64frombits(uint64(v)); f != f {
			return v &^ (0x7ff << 52) // no NaNs: runtimes may quiet them
		}
	}
	return v
}

func toGo(fl string, pointers bool, k xkind, code int64) interface{} {
	if fl == "v2" {
		switch k {
		case xkI64:
			return code
		case xkStr:
			return strconv.FormatInt(code, 10)
		case xkBytes:
			if code == 0 {
				return []byte{} // present and empty (not nil)
			}
			return binary.BigEndian.AppendUint64(nil, uint64(code))
		case xkBool:
			return code == 1
		case xkEnum:
			return protoreflect.EnumNumber(code)
		case xkDouble:
			return math.Float64frombits(uint64(code))
		default:
			dm := dynamicpb.NewMessage(v2Exts[50100+int32(xkMsg)].TypeDescriptor().Message())
			dm.Set(dm.Descriptor().Fields().ByNumber(1), protoreflect.ValueOfInt64(code))
			return dm
		}
	}
	gogo := fl == "gogo"
	switch k {
	case xkI64:
		if pointers {
			return &code
		}
		return code
	case xkStr:
		s := strconv.FormatInt(code, 10)
		if pointers {
			return &s
		}
		return s
	case xkBytes:
		if code == 0 {
			return []byte{}
		}
		return binary.BigEndian.AppendUint64(nil, uint64(code))
	case xkBool:
		b := code == 1
		if pointers {
			return &b
		}
		return b
	case xkEnum:
		if gogo {
			e := gogodesc.FieldDescriptorProto_Type(code)
			return &e
		}
		e := descriptorpb.FieldDescriptorProto_Type(code)
		if pointers {
			return &e
		}
		return e
	case xkDouble:
		f := math.Float64frombits(uint64(code))
		if pointers {
			return &f
		}
		return f
	default:
		if gogo {
			return &gogotypes.Int64Value{Value: code}
		}
		return &wrapperspb.Int64Value{Value: code}
	}
}

// the abstract value code of whatever GetExtension handed back
func fromGo(v interface{}) string {
	switch x := v.(type) {
	case int64:
		return hx.I(x)
	case *int64:
		return hx.I(*x)
	case string:
		n, _ := strconv.ParseInt(x, 10, 64)
		return hx.I(n)
	case *string:
		n, _ := strconv.ParseInt(*x, 10, 64)
		return hx.I(n)
	case []byte:
		if x == nil {
			return "?nil-bytes"
		}
		if len(x) == 0 {
			return hx.I(0)
		}
		if len(x) != 8 {
			return "?len"
		}
		return hx.I(int64(binary.BigEndian.Uint64(x)))
	case bool:
		if x {
			return hx.I(1)
		}
		return hx.I(0)
	case *bool:
		if *x {
			return hx.I(1)
		}
		return hx.I(0)
	case protoreflect.EnumNumber:
		return hx.I(int64(x))
	case descriptorpb.FieldDescriptorProto_Type:
		return hx.I(int64(x))
	case *descriptorpb.FieldDescriptorProto_Type:
		return hx.I(int64(*x))
	case *gogodesc.FieldDescriptorProto_Type:
		return hx.I(int64(*x))
	case float64:
		return hx.I(int64(math.Float64bits(x)))
	case *float64:
		return hx.I(int64(math.Float64bits(*x)))
	case *wrapperspb.Int64Value:
		return hx.I(x.GetValue())
	case *gogotypes.Int64Value:
		return hx.I(x.GetValue())
	case proto.Message:
		rm := x.ProtoReflect()
		return hx.I(rm.Get(rm.Descriptor().Fields().ByNumber(1)).Int())
	}
	return fmt.Sprintf("?%T", v)
}

var setupExtsOnce sync.Once

func setupExts() { setupExtsOnce.Do(setupExtsImpl) }

func setupExtsImpl() {
	fdp := &descriptorpb.FileDescriptorProto{
		Name:       proto.String("verif/ext.proto"),
		Package:    proto.String("verif.ext"),
		Syntax:     proto.String("proto2"),
		Dependency: []string{"google/protobuf/descriptor.proto", "google/protobuf/wrappers.proto"},
	}
	v2type := map[xkind]descriptorpb.FieldDescriptorProto_Type{xkI64: descriptorpb.FieldDescriptorProto_TYPE_INT64, xkStr: descriptorpb.FieldDescriptorProto_TYPE_STRING,
		xkBytes: descriptorpb.FieldDescriptorProto_TYPE_BYTES, xkBool: descriptorpb.FieldDescriptorProto_TYPE_BOOL, xkEnum: descriptorpb.FieldDescriptorProto_TYPE_ENUM,
		xkMsg: descriptorpb.FieldDescriptorProto_TYPE_MESSAGE, xkDouble: descriptorpb.FieldDescriptorProto_TYPE_DOUBLE}
	for k := xkind(0); k < nxk; k++ {
		n := 50100 + int32(k)
		v2Nums = append(v2Nums, n)
		v1Nums = append(v1Nums, 50200+int32(k))
		x := &descriptorpb.FieldDescriptorProto{
			Name: proto.String(fmt.Sprintf("e%d", n)), Number: proto.Int32(n), Extendee: proto.String(".google.protobuf.MessageOptions"),
			Type: v2type[k].Enum(), Label: descriptorpb.FieldDescriptorProto_LABEL_OPTIONAL.Enum()}
		switch k {
		case xkEnum:
			x.TypeName = proto.String(".google.protobuf.FieldDescriptorProto.Type")
		case xkMsg:
			x.TypeName = proto.String(".google.protobuf.Int64Value")
		}
		// two of them are declared inside message scopes under the SAME short name (the "eventExt" idiom): only their
		// full names and numbers tell them apart
		if k == xkStr || k == xkBool {
			x.Name = proto.String("scoped_ext")
			fdp.MessageType = append(fdp.MessageType, &descriptorpb.DescriptorProto{Name: proto.String(fmt.Sprintf("Scope%d", n)),
				Extension: []*descriptorpb.FieldDescriptorProto{x}})
			continue
		}
		fdp.Extension = append(fdp.Extension, x)
	}
	{
		// an extension with a declared default: unset, the runtimes answer the default from Get and false from Has
		n := int32(50107)
		v2Nums = append(v2Nums, n)
		v1Nums = append(v1Nums, 50207)
		fdp.Extension = append(fdp.Extension, &descriptorpb.FieldDescriptorProto{
			Name: proto.String("e50107"), Number: proto.Int32(n), Extendee: proto.String(".google.protobuf.MessageOptions"),
			Type: descriptorpb.FieldDescriptorProto_TYPE_INT64.Enum(), Label: descriptorpb.FieldDescriptorProto_LABEL_OPTIONAL.Enum(), DefaultValue: proto.String("7")})
	}
	extNums = append(append([]int32{}, v2Nums...), v1Nums...)
	fd, err := protodesc.NewFile(fdp, protoregistry.GlobalFiles)
	hx.Must(err)
	var xds []protoreflect.ExtensionDescriptor
	for i := 0; i < fd.Extensions().Len(); i++ {
		xds = append(xds, fd.Extensions().Get(i))
	}
	for i := 0; i < fd.Messages().Len(); i++ {
		for j := 0; j < fd.Messages().Get(i).Extensions().Len(); j++ {
			xds = append(xds, fd.Messages().Get(i).Extensions().Get(j))
		}
	}
	for _, xd := range xds {
		xt := dynamicpb.NewExtensionType(xd)
		v2Exts[int32(xd.Number())] = xt
		_ = protoregistry.GlobalTypes.RegisterExtension(xt)
	}
	tagOf := func(k xkind, n int32, name string) string {
		switch k {
		case xkStr, xkBytes, xkMsg:
			return fmt.Sprintf("bytes,%d,opt,name=%s", n, name)
		case xkDouble:
			return fmt.Sprintf("fixed64,%d,opt,name=%s", n, name)
		case xkEnum:
			return fmt.Sprintf("varint,%d,opt,name=%s,enum=google.protobuf.FieldDescriptorProto_Type", n, name)
		}
		if n%100 == 7 {
			return fmt.Sprintf("varint,%d,opt,name=%s,def=7", n, name)
		}
		return fmt.Sprintf("varint,%d,opt,name=%s", n, name)
	}
	v1type := map[xkind]interface{}{xkI64: (*int64)(nil), xkStr: (*string)(nil), xkBytes: []byte(nil), xkBool: (*bool)(nil),
		xkEnum: (*descriptorpb.FieldDescriptorProto_Type)(nil), xkMsg: (*wrapperspb.Int64Value)(nil), xkDouble: (*float64)(nil)}
	gogotype := map[xkind]interface{}{xkI64: (*int64)(nil), xkStr: (*string)(nil), xkBytes: []byte(nil), xkBool: (*bool)(nil),
		xkEnum: (*gogodesc.FieldDescriptorProto_Type)(nil), xkMsg: (*gogotypes.Int64Value)(nil), xkDouble: (*float64)(nil)}
	for _, n := range v1Nums {
		k := kindOf(n)
		xi := &protoimpl.ExtensionInfo{ExtendedType: (*descriptorpb.MessageOptions)(nil), ExtensionType: v1type[k], Field: n,
			Name: fmt.Sprintf("verif.ext.l%d", n), Tag: tagOf(k, n, fmt.Sprintf("l%d", n))}
		v1Exts[n] = xi
		_ = protoregistry.GlobalTypes.RegisterExtension(xi)
	}
	for _, n := range extNums {
		k := kindOf(n)
		gd := &gogoproto.ExtensionDesc{ExtendedType: (*gogodesc.MessageOptions)(nil), ExtensionType: gogotype[k], Field: n,
			Name: fmt.Sprintf("verif.ext.g%d", n), Tag: tagOf(k, n, fmt.Sprintf("g%d", n))}
		gogoproto.RegisterExtension(gd)
		gogoExts[n] = gd
	}
}

// descriptor of flavour fl for number n (nil when that flavour has none for n)
func descFor(fl string, n int32) interface{} {
	switch fl {
	case "v2":
		if x, ok := v2Exts[n]; ok {
			return x
		}
		return v2Exts[v2Nums[0]] // same flavour, other number never requested
	case "v1":
		if x, ok := v1Exts[n]; ok {
			return x
		}
	case "gogo":
		if x, ok := gogoExts[n]; ok {
			return x
		}
	case "other":
		return "not a descriptor"
	}
	return nil
}

type xop struct {
	typ string // set get has clear clearall range number
	fl  string
	n   int32
	v   int64
}

func (o xop) token() string {
	switch o.typ {
	case "set":
		return fmt.Sprintf("set:%s:%d:%s", o.fl, o.n, hx.I(o.v))
	case "get", "has", "clear", "number":
		return fmt.Sprintf("%s:%s:%d", o.typ, o.fl, o.n)
	}
	return o.typ
}

// numbers of the extensions set, per the OWNING runtime's API
func ownerSet(rt string, m interface{}) []int32 {
	var out []int32
	switch rt {
	case "google":
		proto.RangeExtensions(m.(proto.Message), func(xt protoreflect.ExtensionType, _ interface{}) bool {
			out = append(out, int32(xt.TypeDescriptor().Number()))
			return true
		})
	case "gogo":
		ds, _ := gogoproto.ExtensionDescs(m.(gogoproto.Message))
		for _, d := range ds {
			out = append(out, d.Field)
		}
	}
	sort.Slice(out, func(i, j int) bool { return out[i] < out[j] })
	return out
}

func fmtNums(ns []int32) string {
	s := make([]string, len(ns))
	for i, n := range ns {
		s[i] = fmt.Sprint(n)
	}
	return "nums:" + strings.Join(s, ",")
}

// an extension type that is NOT in the global registry (dynamically loaded custom option), on a message type for
// which this binary links no generated extension at all: set through the runtime, it must be visible to every
// csproto extension function exactly as to the runtime's own
func streamC12Unregistered() {
	fdp := &descriptorpb.FileDescriptorProto{
		Name: proto.String("verif/ext_unregistered.proto"), Package: proto.String("verif.extu"), Syntax: proto.String("proto2"),
		Dependency: []string{"google/protobuf/descriptor.proto"},
		Extension: []*descriptorpb.FieldDescriptorProto{
			{Name: proto.String("u1"), Number: proto.Int32(50301), Extendee: proto.String(".google.protobuf.OneofOptions"),
				Type: descriptorpb.FieldDescriptorProto_TYPE_INT64.Enum(), Label: descriptorpb.FieldDescriptorProto_LABEL_OPTIONAL.Enum()},
			{Name: proto.String("u2"), Number: proto.Int32(50302), Extendee: proto.String(".google.protobuf.OneofOptions"),
				Type: descriptorpb.FieldDescriptorProto_TYPE_STRING.Enum(), Label: descriptorpb.FieldDescriptorProto_LABEL_OPTIONAL.Enum()}}}
	fd, err := protodesc.NewFile(fdp, protoregistry.GlobalFiles)
	hx.Must(err)
	x1 := dynamicpb.NewExtensionType(fd.Extensions().Get(0))
	x2 := dynamicpb.NewExtensionType(fd.Extensions().Get(1))
	m := &descriptorpb.OneofOptions{}
	proto.SetExtension(m, x1, int64(-5))
	proto.SetExtension(m, x2, "dyn")
	var want, got []int32
	proto.RangeExtensions(m, func(xt protoreflect.ExtensionType, _ interface{}) bool {
		want = append(want, int32(xt.TypeDescriptor().Number()))
		return true
	})
	rerr := csproto.RangeExtensions(m, func(_ interface{}, _ string, f int32) error { got = append(got, f); return nil })
	sort.Slice(want, func(i, j int) bool { return want[i] < want[j] })
	sort.Slice(got, func(i, j int) bool { return got[i] < got[j] })
	sink.OracleN++
	if rerr != nil || fmt.Sprint(got) != fmt.Sprint(want) {
		fail("RangeExtensions does not visit exactly the extensions that are set", "google OneofOptions with two set extensions whose types are not in the global registry", fmt.Sprint(want), fmt.Sprint(got, rerr), "ext-range-unregistered")
	}
	sink.OracleN++
	if !csproto.HasExtension(m, x1) || !csproto.HasExtension(m, x2) {
		fail("HasExtension is false for a set extension of an unregistered type", "google OneofOptions", "true", "false", "ext-has-unregistered")
	}
	if v, err := csproto.GetExtension(m, x1); err != nil || fmt.Sprint(v) != "-5" {
		if p, ok := v.(*int64); !ok || p == nil || *p != -5 {
			fail("GetExtension does not return the value of a set extension of an unregistered type", "google OneofOptions", "-5", fmt.Sprint(v, err), "ext-get-unregistered")
		}
	}
	csproto.ClearAllExtensions(m)
	sink.OracleN++
	if proto.HasExtension(m, x1) || proto.HasExtension(m, x2) || proto.Size(m) != 0 {
		fail("ClearAllExtensions left an extension of an unregistered type set", "google OneofOptions", "nothing set", prototext.Format(m), "ext-clearall-unregistered")
	}
	sink.Count("ext-unregistered-probe")
	// a Google V1 message holding an extension in UNDECODED form (its type unknown when the bytes were unmarshaled):
	// ClearAllExtensions removes it like the runtime's own function does
	for _, in := range [][]byte{{0x08, 0x01, 0xA0, 0x06, 0x05}, {0xA0, 0x06, 0x05, 0xAA, 0x06, 0x01, 0x78, 0x08, 0x02}, {0x08, 0x03}, {0x08, 0x01, 0xC0, 0x3E, 0x01 /* 1000: outside the range */, 0xA0, 0x06, 0x05}} {
		a, b := &LegacyV1Ext{}, &LegacyV1Ext{}
		if protoV1.Unmarshal(in, a) != nil || protoV1.Unmarshal(in, b) != nil {
			continue
		}
		protoV1.ClearAllExtensions(a)
		csproto.ClearAllExtensions(b)
		wa, _ := protoV1.Marshal(a)
		wb, _ := protoV1.Marshal(b)
		sink.OracleN++
		if !bytes.Equal(wa, wb) {
			fail("ClearAllExtensions on a Google V1 message leaves other content than the runtime's own ClearAllExtensions", "LegacyV1Ext decoded from "+hx.B(in), hx.B(wa), hx.B(wb), "ext-clearall-undecoded")
		}
	}
}

func streamC12(r *hx.Rng) {
	setupExts()
	streamC12Unregistered()
	n := 3000
	if thorough {
		n = 40000
	}
	type rtcase struct {
		rt      string
		fresh   func() interface{}
		flavors []string // descriptor flavours that exist for numbers: which numbers each flavour covers
	}
	rts := []rtcase{
		{"google", func() interface{} { return &descriptorpb.MessageOptions{} }, nil},
		{"gogo", func() interface{} { return &gogodesc.MessageOptions{} }, nil},
		{"googlev1", func() interface{} { return &LegacyV1{} }, nil},
		{"unknown", func() interface{} { return new(int) }, nil},
	}
	flNums := map[string][]int32{"v2": v2Nums, "v1": v1Nums, "gogo": extNums, "other": {1}}
	// scripted histories first: for every runtime, accepted flavour and extension: two assignments in a row
	// of special value pairs (equal values, zeros of opposite sign, the declared default), then every reader
	type script struct {
		rc  rtcase
		ops []xop
	}
	var scripts []script
	for ri, fls := range [][]string{{"v2", "v1"}, {"gogo"}} {
		for _, fl := range fls {
			for _, num := range flNums[fl] {
				for _, pair := range [][2]int64{{0, math.MinInt64}, {math.MinInt64, 0}, {5, 5}, {7, 7}, {0, 0}, {1, 0}} {
					k := kindOf(num)
					scripts = append(scripts, script{rts[ri], []xop{
						{typ: "has", fl: fl, n: num}, {typ: "get", fl: fl, n: num},
						{typ: "set", fl: fl, n: num, v: normCode(k, pair[0])}, {typ: "get", fl: fl, n: num},
						{typ: "set", fl: fl, n: num, v: normCode(k, pair[1])}, {typ: "get", fl: fl, n: num}, {typ: "has", fl: fl, n: num}, {typ: "range"},
						{typ: "clear", fl: fl, n: num}, {typ: "get", fl: fl, n: num}, {typ: "has", fl: fl, n: num}, {typ: "range"}}})
				}
			}
		}
	}
	// ... and every ordered pair of distinct extensions set at the same time, then Range, Clear of the first, Range
	for ri, fls := range [][]string{{"v2", "v1"}, {"gogo"}} {
		for _, fl := range fls {
			for _, a := range flNums[fl] {
				for _, b := range flNums[fl] {
					if a != b {
						scripts = append(scripts, script{rts[ri], []xop{
							{typ: "set", fl: fl, n: a, v: normCode(kindOf(a), 3)}, {typ: "set", fl: fl, n: b, v: normCode(kindOf(b), 4)}, {typ: "range"},
							{typ: "get", fl: fl, n: a}, {typ: "get", fl: fl, n: b}, {typ: "clear", fl: fl, n: a}, {typ: "range"}, {typ: "has", fl: fl, n: b}}})
					}
				}
			}
		}
	}
	for i := 0; i < n+len(scripts); i++ {
		rc := rts[i%len(rts)]
		if i%len(rts) >= 2 && i%7 != 0 {
			rc = rts[i%2]
		}
		var scripted []xop
		if i < len(scripts) {
			rc, scripted = scripts[i].rc, scripts[i].ops
		}
		m := rc.fresh()
		nops := 3 + r.Intn(8)
		if scripted != nil {
			nops = len(scripted)
		}
		var toks, outs []string
		for k := 0; k < nops; k++ {
			var o xop
			fls := []string{"v2", "v1", "gogo"}
			// mostly the flavours the runtime accepts, sometimes a foreign one
			accept := map[string][]string{"google": {"v2", "v1"}, "gogo": {"gogo"}, "googlev1": {"v1"}, "unknown": {"v2"}}[rc.rt]
			fl := accept[r.Intn(len(accept))]
			if r.Intn(5) == 0 {
				fl = fls[r.Intn(3)]
			}
			if r.Intn(25) == 0 {
				fl = "other"
			}
			nums := flNums[fl]
			num := nums[r.Intn(len(nums))]
			switch c := r.Intn(12); {
			case c < 4:
				v := int64(r.U64() >> uint(r.Intn(64)))
				if r.Intn(3) == 0 {
					// zeros of both signs, and the declared default
					v = []int64{0, math.MinInt64, 7, 1}[r.Intn(4)]
				}
				o = xop{typ: "set", fl: fl, n: num, v: normCode(kindOf(num), v)}
			case c < 6:
				o = xop{typ: "get", fl: fl, n: num}
			case c < 8:
				o = xop{typ: "has", fl: fl, n: num}
			case c < 9:
				o = xop{typ: "clear", fl: fl, n: num}
			case c < 10:
				o = xop{typ: "clearall"}
			case c < 11:
				o = xop{typ: "range"}
			default:
				o = xop{typ: "number", fl: fl, n: num}
			}
			if scripted != nil {
				o = scripted[k]
			}
			if rc.rt == "googlev1" && o.typ == "range" {
				o = xop{typ: "clearall"} // LegacyV1 has no extension ranges: the v1 runtime's own ExtensionDescs answers with an error
			}
			if rc.rt == "googlev1" && (o.typ == "set" || o.typ == "get" || o.typ == "has" || o.typ == "clear") && fl == "v1" {
				// LegacyV1 declares no extension ranges: the v1 runtime itself panics / errs on it; only mismatches are exercised
				o.fl = "gogo"
				o.n = extNums[0]
			}
			d := descFor(o.fl, o.n)
			hx.Inflight(fmt.Sprintf("S EXT %s %s %s", rc.rt, strings.Join(toks, " "), o.token()))
			if o.typ == "get" && o.fl == "v2" && kindOf(o.n) == xkMsg && rc.rt == "google" && !proto.HasExtension(m.(proto.Message), d.(protoreflect.ExtensionType)) {
				// protobuf-go's own proto.GetExtension panics ("assigning invalid zero-value message") for an unset
				// message-typed extension whose type is dynamic: a quirk of the owning runtime, not of the shim
				o.typ = "has"
			}
			before := ownerSet(rc.rt, m)
			if (rc.rt == "google" && o.fl == "v2" || rc.rt == "gogo" && o.fl == "gogo") && (scripted != nil && k == 5 || scripted == nil && r.Intn(6) == 0) {
				// a SetExtension the owning runtime rejects (a value of the wrong Go type: error or, on protobuf-go, its panic)
				// leaves the message as it was: same extensions set, same value for this one
				snap := func() string {
					return fmt.Sprint(ownerSet(rc.rt, m), csproto.HasExtension(m, d), guard(func() string { v, _ := csproto.GetExtension(m, d); return fromGo(v) }))
				}
				s0 := snap()
				res := guard(func() string {
					if err := csproto.SetExtension(m, d, struct{ NotAnExtensionValue int }{1}); err != nil {
						return "err"
					}
					return "none"
				})
				sink.OracleN++
				sink.Count("rejected-set-probe")
				if s1 := snap(); s1 != s0 || res == "none" {
					fail("a SetExtension that the owning runtime rejects (value of the wrong Go type) modified the message or reported success",
						fmt.Sprintf("runtime=%s history=%s then set %s/%d to a struct value", rc.rt, strings.Join(toks, " "), o.fl, o.n), s0+" and an error", s1+" "+res, "ext-rejected-set")
				}
			}
			rangeBad := ""
			out := guard(func() string {
				switch o.typ {
				case "set":
					val := toGo(o.fl, o.fl == "gogo" || (o.fl == "v1" && rc.rt != "google"), kindOf(o.n), o.v)
					if err := csproto.SetExtension(m, d, val); err != nil {
						return "err"
					}
					return "none"
				case "get":
					v, err := csproto.GetExtension(m, d)
					if err != nil && !(rc.rt == "gogo" && err == gogoproto.ErrMissingExtension) {
						return "err"
					}
					if !csproto.HasExtension(m, d) {
						return "val:none"
					}
					return "val:" + fromGo(v)
				case "has":
					return fmt.Sprint("bool:", csproto.HasExtension(m, d))
				case "clear":
					return guard(func() string { csproto.ClearExtension(m, d); return "none" })
				case "clearall":
					csproto.ClearAllExtensions(m)
					return "none"
				case "range":
					var ns []int32
					got := map[int32]string{}
					if err := csproto.RangeExtensions(m, func(v interface{}, _ string, f int32) error {
						ns = append(ns, f)
						got[f] = fmt.Sprintf("%T %s", v, fromGo(v))
						return nil
					}); err != nil {
						return "err"
					}
					// the VALUES handed to the callback are what the owning runtime's own Range hands out (Go type and contents)
					if pm, ok := m.(proto.Message); ok && rc.rt == "google" {
						proto.RangeExtensions(pm, func(xt protoreflect.ExtensionType, v interface{}) bool {
							n := int32(xt.TypeDescriptor().Number())
							if want := fmt.Sprintf("%T %s", v, fromGo(v)); got[n] != want && rangeBad == "" {
								rangeBad = fmt.Sprintf("extension %d: callback got %s, the runtime's Range gives %s", n, got[n], want)
							}
							return true
						})
					}
					sort.Slice(ns, func(i, j int) bool { return ns[i] < ns[j] })
					return fmtNums(ns)
				default:
					f, err := csproto.ExtensionFieldNumber(d)
					if err != nil {
						return "err"
					}
					return fmt.Sprint("num:", f)
				}
			})
			if o.typ == "clear" && out == "panic" {
				out = "docpanic"
			}
			if rangeBad != "" {
				fail("RangeExtensions hands the callback other values than the owning runtime's own Range", fmt.Sprintf("runtime=%s history=%s %s", rc.rt, strings.Join(toks, " "), o.token()), "same Go type and contents", rangeBad, "ext-range-value")
			}
			toks = append(toks, o.token())
			outs = append(outs, out)
			sink.OracleN++
			cs := fmt.Sprintf("runtime=%s history=%s", rc.rt, strings.Join(toks, " "))
			if out == "panic" {
				fail("an extension accessor panicked", cs, "result or error", out, "ext-panic")
			}
			// oracle: coherent with the owning runtime's own API
			after := ownerSet(rc.rt, m)
			accepted := map[string]map[string]bool{"google": {"v2": true, "v1": true}, "gogo": {"gogo": true}, "googlev1": {"v1": true}}[rc.rt][o.fl]
			switch o.typ {
			case "set":
				if accepted {
					if out != "none" || !csproto.HasExtension(m, d) {
						fail("after SetExtension, HasExtension is not true", cs, "true", out, "ext-set")
					}
					if got := guard(func() string { v, _ := csproto.GetExtension(m, d); return fromGo(v) }); got != hx.I(o.v) {
						fail("after SetExtension, GetExtension does not return the value set", cs, hx.I(o.v), got, "ext-set-get")
					}
					if rc.rt == "google" && !proto.HasExtension(m.(proto.Message), d.(protoreflect.ExtensionType)) {
						fail("SetExtension did not reach the owning runtime", cs, "set", "unset", "ext-set")
					}
					if rc.rt == "gogo" && !gogoproto.HasExtension(m.(gogoproto.Message), d.(*gogoproto.ExtensionDesc)) {
						fail("SetExtension did not reach the owning runtime", cs, "set", "unset", "ext-set")
					}
				} else if fmt.Sprint(before) != fmt.Sprint(after) || out == "none" {
					fail("SetExtension with a descriptor of another runtime modified the message or reported success", cs, "error, unchanged", out, "ext-mismatch")
				}
			case "clear":
				if accepted && csproto.HasExtension(m, d) {
					fail("after ClearExtension, HasExtension is still true", cs, "false", "true", "ext-clear")
				}
				if accepted {
					if b, err := ownerMarshalExt(rc.rt, m); err == nil && hasFieldNumber(b, o.n) {
						fail("a cleared extension still appears in the marshaled bytes", cs, "absent", hx.B(b), "ext-clear")
					}
				}
				if !accepted && (fmt.Sprint(before) != fmt.Sprint(after) || out != "docpanic") {
					fail("ClearExtension with a mismatching descriptor did not panic as documented / modified the message", cs, "documented panic", out, "ext-mismatch")
				}
			case "clearall":
				if len(after) != 0 {
					fail("ClearAllExtensions left extensions set", cs, "none", fmtNums(after), "ext-clearall")
				}
				if b, err := ownerMarshalExt(rc.rt, m); err == nil && len(b) != 0 {
					fail("extensions still appear in the marshaled bytes after ClearAllExtensions", cs, "empty", hx.B(b), "ext-clearall")
				}
			case "range":
				if rc.rt == "google" || rc.rt == "gogo" {
					if out != fmtNums(before) {
						fail("RangeExtensions does not visit exactly the extensions that are set", cs, fmtNums(before), out, "ext-range")
					}
				}
			case "has", "get":
				if accepted && o.typ == "get" && (rc.rt == "google" || rc.rt == "gogo") {
					// the very value the owning runtime's own GetExtension hands out: same Go type, same nil-ness
					shape := func(v interface{}, err error) string {
						rv := reflect.ValueOf(v)
						isNil := v == nil || ((rv.Kind() == reflect.Ptr || rv.Kind() == reflect.Slice || rv.Kind() == reflect.Interface || rv.Kind() == reflect.Map) && rv.IsNil())
						return fmt.Sprintf("%T nil=%v err=%v", v, isNil, err != nil)
					}
					var own string
					if rc.rt == "google" {
						own = guard(func() string {
							return shape(proto.GetExtension(m.(proto.Message), d.(protoreflect.ExtensionType)), nil)
						})
					} else {
						own = guard(func() string {
							return shape(gogoproto.GetExtension(m.(gogoproto.Message), d.(*gogoproto.ExtensionDesc)))
						})
					}
					got := guard(func() string { return shape(csproto.GetExtension(m, d)) })
					if got != own {
						fail("GetExtension hands out something else than the owning runtime's own GetExtension", cs, own, got, "ext-get-shape")
					}
				}
				if !accepted && o.typ == "has" && out != "bool:false" {
					fail("HasExtension with a descriptor of another runtime is not false", cs, "false", out, "ext-mismatch")
				}
				if !accepted && o.typ == "get" && out != "err" {
					fail("GetExtension with a descriptor of another runtime did not return an error", cs, "err", out, "ext-mismatch")
				}
			case "number":
				if o.fl != "other" && out != fmt.Sprint("num:", o.n) {
					fail("ExtensionFieldNumber differs from the declared number", cs, fmt.Sprint(o.n), out, "ext-number")
				}
			}
		}
		sink.Add("ext-history", fmt.Sprintf("S EXT %s %s", rc.rt, strings.Join(toks, " ")), strings.Join(outs, " "), len(toks) >= 2)
	}
}

func hasFieldNumber(b []byte, n int32) bool {
	for len(b) > 0 {
		num, typ, k := protowire.ConsumeTag(b)
		if k < 0 {
			return false
		}
		if int32(num) == n {
			return true
		}
		l := protowire.ConsumeFieldValue(num, typ, b[k:])
		if l < 0 {
			return false
		}
		b = b[k+l:]
	}
	return false
}

func ownerMarshalExt(rt string, m interface{}) ([]byte, error) {
	switch rt {
	case "google":
		return proto.Marshal(m.(proto.Message))
	case "gogo":
		return gogoproto.Marshal(m.(gogoproto.Message))
	}
	return nil, fmt.Errorf("n/a")
}
