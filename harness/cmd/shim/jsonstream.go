package main

import (
	"bytes"
	"encoding/hex"
	"encoding/json"
	"fmt"
	"regexp"
	"strings"

	"github.com/CrowdStrike/csproto"
	gogojsonpb "github.com/gogo/protobuf/jsonpb"
	gogoproto "github.com/gogo/protobuf/proto"
	gogodesc "github.com/gogo/protobuf/protoc-gen-gogo/descriptor"
	gogotypes "github.com/gogo/protobuf/types"
	jsonpbV1 "github.com/golang/protobuf/jsonpb" //nolint
	protoV1 "github.com/golang/protobuf/proto"   //nolint
	"google.golang.org/protobuf/encoding/protojson"
	"google.golang.org/protobuf/proto"
	"google.golang.org/protobuf/reflect/protodesc"
	"google.golang.org/protobuf/reflect/protoregistry"
	"google.golang.org/protobuf/types/descriptorpb"
	"google.golang.org/protobuf/types/dynamicpb"
	"google.golang.org/protobuf/types/known/durationpb"
	"google.golang.org/protobuf/types/known/timestamppb"
	"google.golang.org/protobuf/types/known/typepb"
	"google.golang.org/protobuf/types/known/wrapperspb"

	"verif/harness/internal/hx"
)

type jprobe struct {
	name    string
	owner   string // google | gogo | googlev1
	mk      func() interface{}
	empty   func() interface{}
	enumKey string // JSON key of an enum field set to a named, non-zero value ("" = none)
	enumNum string
	zeroKey string // JSON key of a field left at its zero value
}

func jprobes() []jprobe {
	return []jprobe{
		{"typepb.Field", "google", func() interface{} {
			return &typepb.Field{Kind: typepb.Field_TYPE_INT64, Cardinality: typepb.Field_CARDINALITY_REPEATED, Number: 1 << 40 >> 20, Name: "f\"é:  x:   y", JsonName: "a: b,  \"c\":  {"}
		}, func() interface{} { return &typepb.Field{} }, "kind", "3", "packed"},
		{"typepb.Type", "google", func() interface{} {
			return &typepb.Type{Name: "T:  t", Fields: []*typepb.Field{{Kind: typepb.Field_TYPE_BYTES, Name: "b\n:  \t:  "}}, Oneofs: []string{"o:   p", "  "}, Syntax: typepb.Syntax_SYNTAX_PROTO3}
		}, func() interface{} { return &typepb.Type{} }, "syntax", "1", "edition"},
		{"gogotypes.Field", "gogo", func() interface{} {
			return &gogotypes.Field{Kind: gogotypes.Field_TYPE_INT64, Cardinality: gogotypes.Field_CARDINALITY_REPEATED, Number: 77, Name: "f\"é:  x"}
		}, func() interface{} { return &gogotypes.Field{} }, "kind", "3", "packed"},
		{"gogotypes.Int64Value", "gogo", func() interface{} { return &gogotypes.Int64Value{Value: -1 << 62} }, func() interface{} { return &gogotypes.Int64Value{} }, "", "", ""},
		{"LegacyV1", "googlev1", func() interface{} {
			return &LegacyV1{A: i32(-7), S: str("lég\"acy:  x"), R: []int64{1, -1, 1 << 53}, B: []byte{0, 255}}
		},
			func() interface{} { return &LegacyV1{} }, "", "", ""},
		// a v1-era message with well-known-type fields (JSON: a string, a string, a bare number, bare booleans)
		{"LegacyV1WKT", "googlev1", func() interface{} {
			return &LegacyV1WKT{T: &timestamppb.Timestamp{Seconds: 1600000000, Nanos: 5000}, D: &durationpb.Duration{Seconds: -3, Nanos: -500000000},
				W: &wrapperspb.Int64Value{Value: 1 << 60}, N: str("n:  x"), L: []*wrapperspb.BoolValue{{Value: true}, {}}}
		}, func() interface{} { return &LegacyV1WKT{} }, "", "", ""},
		// a Google V2 message nested far deeper than any fixed small recursion bound
		{"DescriptorProto-deep", "google", func() interface{} { return deepDescriptor(160) }, func() interface{} { return &descriptorpb.DescriptorProto{} }, "", "", ""},
	}
}

func deepDescriptor(depth int) *descriptorpb.DescriptorProto {
	d := &descriptorpb.DescriptorProto{Name: proto.String(fmt.Sprint("L", depth))}
	if depth > 1 {
		d.NestedType = []*descriptorpb.DescriptorProto{deepDescriptor(depth - 1)}
	}
	return d
}

func ownerJSONUnmarshal(owner string, b []byte, m interface{}) error {
	switch owner {
	case "google":
		return protojson.Unmarshal(b, m.(proto.Message))
	case "gogo":
		return gogojsonpb.Unmarshal(bytes.NewReader(b), m.(gogoproto.Message))
	case "googlev1":
		return jsonpbV1.Unmarshal(bytes.NewReader(b), m.(protoV1.Message))
	}
	return fmt.Errorf("no owner")
}

func jcapsOf(v interface{}, isNil bool) string {
	if isNil {
		return "10000"
	}
	_, jm := v.(json.Marshaler)
	_, v2 := v.(proto.Message)
	_, v1 := v.(protoV1.Message)
	_, gg := v.(gogoproto.Message)
	return "0" + b2s(jm) + b2s(v2) + b2s(v1) + b2s(gg)
}

func optTokens(indent string, enumNums, zero bool, order int) ([]csproto.JSONOption, string) {
	type ot struct {
		o csproto.JSONOption
		t string
	}
	ots := []ot{
		{csproto.JSONIndent(indent), "indent=" + hexOrDash(indent)},
		{csproto.JSONUseEnumNumbers(enumNums), "enum=" + b2s(enumNums)},
		{csproto.JSONIncludeZeroValues(zero), "zero=" + b2s(zero)},
	}
	// an overridden earlier setting: the last one wins
	pre := []ot{{csproto.JSONUseEnumNumbers(!enumNums), "enum=" + b2s(!enumNums)}, {csproto.JSONIndent("\t\t"), "indent=0909"}, {csproto.JSONIncludeZeroValues(!zero), "zero=" + b2s(!zero)}}
	var seq []ot
	switch order % 3 {
	case 0:
		seq = ots
	case 1:
		seq = append([]ot{pre[order/3%3]}, ots[2], ots[0], ots[1])
	default:
		seq = []ot{ots[1], pre[1], ots[0], ots[2]}
	}
	var os []csproto.JSONOption
	var ts []string
	for _, x := range seq {
		os = append(os, x.o)
		ts = append(ts, x.t)
	}
	return os, strings.Join(ts, ",")
}

func hexOrDash(s string) string {
	if s == "" {
		return "-"
	}
	return hex.EncodeToString([]byte(s))
}

func streamC18(r *hx.Rng) {
	indents := []string{"", " ", "\t", "    ", " \t", "\t  "} // the documented rule: only spaces or tab characters (any mixture)
	// every output is kept and looked at again after all later calls: the bytes handed out belong to the caller
	type kept struct {
		p    jprobe
		cs   string
		out  []byte
		copy []byte
		m    interface{}
	}
	var keep []kept
	order := 0
	for _, p := range jprobes() {
		for _, indent := range indents {
			for _, enumNums := range []bool{false, true} {
				for _, zero := range []bool{false, true} {
					order++
					opts, optTok := optTokens(indent, enumNums, zero, order)
					m := p.mk()
					cs := fmt.Sprintf("probe=%s options=%s", p.name, optTok)
					out, err := csproto.JSONMarshaler(m, opts...).MarshalJSON()
					sink.OracleN++
					if err != nil || !json.Valid(out) {
						fail("JSON adapter output is not well-formed JSON", cs, "valid JSON", fmt.Sprint(err, string(out)), "json-invalid")
						continue
					}
					keep = append(keep, kept{p, cs, out, append([]byte{}, out...), m})
					// accepted by the adapter and by the owning runtime's decoder, equal to the original
					d1 := p.empty()
					if err := csproto.JSONUnmarshaler(d1).UnmarshalJSON(out); err != nil || !ownerEqual(p.owner, d1, m) {
						fail("JSON produced by the marshaling adapter does not round-trip through the unmarshaling adapter", cs, "equal", fmt.Sprint(err, string(out)), "json-roundtrip")
					}
					d2 := p.empty()
					if err := ownerJSONUnmarshal(p.owner, out, d2); err != nil || !ownerEqual(p.owner, d2, m) {
						fail("JSON produced by the adapter is not decoded to an equal message by the owning runtime's JSON decoder", cs, "equal", fmt.Sprint(err, string(out)), "json-owner")
					}
					// observed option effects
					s := string(out)
					obsIndent := ""
					if i := strings.Index(s, "\n"); i >= 0 {
						j := i + 1
						for j < len(s) && (s[j] == ' ' || s[j] == '\t') {
							j++
						}
						obsIndent = s[i+1 : j]
					}
					obsEnum := enumNums
					if p.enumKey != "" {
						obsEnum = regexp.MustCompile(`"` + p.enumKey + `":\s*` + p.enumNum + `\b`).MatchString(s)
					}
					obsZero := zero
					if p.zeroKey != "" {
						obsZero = strings.Contains(s, `"`+p.zeroKey+`"`)
					}
					if !strings.HasPrefix(strings.TrimSpace(s), "{") {
						obsIndent = indent // a bare JSON scalar (wrapper types): indentation has nothing to act on
					}
					if obsIndent != indent {
						fail("the indentation option does not have its documented effect", cs, fmt.Sprintf("%q", indent), fmt.Sprintf("%q in %s", obsIndent, s), "json-indent")
					}
					if obsEnum != enumNums {
						fail("the enum-numbers option does not have its documented effect", cs, fmt.Sprint(enumNums), s, "json-enum")
					}
					if obsZero != zero {
						fail("the include-zero-values option does not have its documented effect", cs, fmt.Sprint(zero), s, "json-zero")
					}
					sink.Add("json-marshal", fmt.Sprintf("S JM %s %s", jcapsOf(m, false), optTok),
						fmt.Sprintf("%s indent=%s enum=%s zero=%s", map[string]string{"google": "v2", "gogo": "v1", "googlev1": "v1"}[p.owner], hexOrDash(obsIndent), b2s(obsEnum), b2s(obsZero)), true)
				}
			}
		}
		// unmarshal options: unknown keys
		m := p.mk()
		base, _ := csproto.JSONMarshaler(m).MarshalJSON()
		withUnknown := append([]byte(`{"noSuchField_zz": 1,`), bytes.TrimLeft(base, " \t\n")[1:]...)
		if bytes.Equal(bytes.TrimSpace(base), []byte("{}")) {
			withUnknown = []byte(`{"noSuchField_zz": 1}`)
		}
		for _, allow := range []bool{false, true} {
			if !bytes.HasPrefix(bytes.TrimSpace(base), []byte("{")) {
				break // a bare JSON scalar has no keys
			}
			d := p.empty()
			err := csproto.JSONUnmarshaler(d, csproto.JSONAllowUnknownFields(allow)).UnmarshalJSON(withUnknown)
			sink.OracleN++
			cs := fmt.Sprintf("probe=%s allowUnknown=%v json=%s", p.name, allow, withUnknown)
			if allow && (err != nil || !ownerEqual(p.owner, d, m)) {
				fail("unknown JSON keys are not tolerated although requested", cs, "ok, equal", fmt.Sprint(err), "json-unknown")
			}
			if !allow && err == nil {
				fail("unknown JSON keys are tolerated although not requested", cs, "error", "nil", "json-unknown")
			}
			res := "err"
			if err == nil {
				res = "ok"
			}
			sink.Add("json-unmarshal", fmt.Sprintf("S JU %s unknown=%s,partial=0 unknownkey", jcapsOf(d, false), b2s(allow)), res, true)
		}
	}
	for _, k := range keep {
		sink.OracleN++
		d := k.p.empty()
		if !bytes.Equal(k.out, k.copy) || ownerJSONUnmarshal(k.p.owner, k.out, d) != nil || !ownerEqual(k.p.owner, d, k.m) {
			fail("JSON returned by an earlier MarshalJSON call changed after later calls (the returned bytes are not the caller's own)", k.cs, string(k.copy), string(k.out), "json-aliased")
			break
		}
	}
	// missing required fields: tolerated iff requested, on Google V2 only
	for _, partial := range []bool{false, true} {
		d := &descriptorpb.UninterpretedOption_NamePart{}
		err := csproto.JSONUnmarshaler(d, csproto.JSONAllowPartialMessages(partial)).UnmarshalJSON([]byte(`{"namePart":"x"}`))
		sink.OracleN++
		if partial != (err == nil) {
			fail("the allow-partial option does not have its documented effect on a Google V2 message", fmt.Sprint("partial=", partial), fmt.Sprint(partial), fmt.Sprint(err), "json-partial")
		}
		res := "err"
		if err == nil {
			res = "ok"
		}
		sink.Add("json-unmarshal", fmt.Sprintf("S JU %s unknown=0,partial=%s missingrequired", jcapsOf(d, false), b2s(partial)), res, true)
		g := &gogodesc.UninterpretedOption_NamePart{}
		gerr := csproto.JSONUnmarshaler(g, csproto.JSONAllowPartialMessages(partial)).UnmarshalJSON([]byte(`{"namePart":"x"}`))
		res = "err"
		if gerr == nil {
			res = "ok"
		}
		sink.Add("json-unmarshal", fmt.Sprintf("S JU %s unknown=0,partial=%s missingrequired", jcapsOf(g, false), b2s(partial)), res, true)
	}
	// a proto3 message CONTAINING a proto2 message with a required field (dynamic types built from descriptors): the
	// nested required field missing is tolerated iff requested, exactly as protojson itself decides
	{
		p2 := &descriptorpb.FileDescriptorProto{Name: proto.String("verif/json_p2.proto"), Package: proto.String("verif.jp2"), Syntax: proto.String("proto2"),
			MessageType: []*descriptorpb.DescriptorProto{{Name: proto.String("Device"), Field: []*descriptorpb.FieldDescriptorProto{
				{Name: proto.String("id"), JsonName: proto.String("id"), Number: proto.Int32(1), Type: descriptorpb.FieldDescriptorProto_TYPE_INT32.Enum(), Label: descriptorpb.FieldDescriptorProto_LABEL_REQUIRED.Enum()},
				{Name: proto.String("note"), JsonName: proto.String("note"), Number: proto.Int32(2), Type: descriptorpb.FieldDescriptorProto_TYPE_STRING.Enum(), Label: descriptorpb.FieldDescriptorProto_LABEL_OPTIONAL.Enum()}}}}}
		p3 := &descriptorpb.FileDescriptorProto{Name: proto.String("verif/json_p3.proto"), Package: proto.String("verif.jp3"), Syntax: proto.String("proto3"), Dependency: []string{"verif/json_p2.proto"},
			MessageType: []*descriptorpb.DescriptorProto{{Name: proto.String("Report"), Field: []*descriptorpb.FieldDescriptorProto{
				{Name: proto.String("dev"), JsonName: proto.String("dev"), Number: proto.Int32(1), Type: descriptorpb.FieldDescriptorProto_TYPE_MESSAGE.Enum(), TypeName: proto.String(".verif.jp2.Device"), Label: descriptorpb.FieldDescriptorProto_LABEL_OPTIONAL.Enum()},
				{Name: proto.String("devs"), JsonName: proto.String("devs"), Number: proto.Int32(2), Type: descriptorpb.FieldDescriptorProto_TYPE_MESSAGE.Enum(), TypeName: proto.String(".verif.jp2.Device"), Label: descriptorpb.FieldDescriptorProto_LABEL_REPEATED.Enum()},
				{Name: proto.String("n"), JsonName: proto.String("n"), Number: proto.Int32(3), Type: descriptorpb.FieldDescriptorProto_TYPE_INT32.Enum(), Label: descriptorpb.FieldDescriptorProto_LABEL_OPTIONAL.Enum()}}}}}
		files := new(protoregistry.Files)
		f2, err := protodesc.NewFile(p2, files)
		hx.Must(err)
		hx.Must(files.RegisterFile(f2))
		f3, err := protodesc.NewFile(p3, files)
		hx.Must(err)
		md := f3.Messages().Get(0)
		for _, js := range []string{`{"dev":{"note":"x"},"n":1}`, `{"devs":[{"id":1},{"note":"y"}]}`, `{"dev":{"id":4}}`, `{"n":2}`} {
			for _, partial := range []bool{false, true} {
				d1, d2 := dynamicpb.NewMessage(md), dynamicpb.NewMessage(md)
				got := csproto.JSONUnmarshaler(d1, csproto.JSONAllowPartialMessages(partial)).UnmarshalJSON([]byte(js))
				want := protojson.UnmarshalOptions{AllowPartial: partial}.Unmarshal([]byte(js), d2)
				sink.OracleN++
				if (got == nil) != (want == nil) || got == nil && !proto.Equal(d1, d2) {
					fail("the unmarshaling adapter decides differently from protojson on a proto3 message containing a proto2 message with a required field",
						fmt.Sprintf("json=%s partial=%v", js, partial), fmt.Sprint(want), fmt.Sprint(got), "json-partial-nested")
				}
			}
		}
	}
	// nil handling
	var nilMsg *typepb.Field
	for _, nv := range []struct {
		name string
		v    interface{}
	}{{"nil", nil}, {"typed nil", nilMsg}} {
		out, err := guardJSON(func() ([]byte, error) { return csproto.JSONMarshaler(nv.v).MarshalJSON() })
		sink.OracleN++
		if err != nil || out != nil {
			fail("a nil message does not marshal to nothing", nv.name, "nil, nil", fmt.Sprint(string(out), err), "json-nil")
		}
		uerr := guardErr(func() error { return csproto.JSONUnmarshaler(nv.v).UnmarshalJSON([]byte(`{}`)) })
		if uerr == nil || strings.HasPrefix(uerr.Error(), "PANIC") {
			fail("unmarshaling into nil is not an error", nv.name, "error", fmt.Sprint(uerr), "json-nil")
		}
		sink.Add("json-nil", "S JM "+jcapsOf(nv.v, true)+" -", "nothing", true)
		sink.Add("json-nil", "S JU "+jcapsOf(nv.v, true)+" unknown=0,partial=0 nil", "nilerror", true)
	}
	_ = r
}

func guardJSON(f func() ([]byte, error)) (b []byte, err error) {
	defer func() {
		if x := recover(); x != nil {
			err = fmt.Errorf("PANIC %v", x)
		}
	}()
	return f()
}
