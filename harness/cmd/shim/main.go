// Command shim: correspondence cases and oracles for the runtime-agnostic API (C11), the extension
// accessors (C12) and the JSON adapters (C18).  The three Protobuf runtimes are the oracles: every
// csproto call is compared with the owning runtime's own function called directly.
package main

import (
	"bytes"
	"encoding"
	"encoding/json"
	"errors"
	"flag"
	"fmt"
	"google.golang.org/protobuf/reflect/protoreflect"
	"google.golang.org/protobuf/runtime/protoimpl"
	"math"
	"os"
	"reflect"
	"strings"
	"sync"
	"time"

	"github.com/CrowdStrike/csproto"
	gogojsonpb "github.com/gogo/protobuf/jsonpb"
	gogoproto "github.com/gogo/protobuf/proto"
	gogodesc "github.com/gogo/protobuf/protoc-gen-gogo/descriptor"
	gogotypes "github.com/gogo/protobuf/types"
	jsonpbV1 "github.com/golang/protobuf/jsonpb" //nolint
	protoV1 "github.com/golang/protobuf/proto"   //nolint
	"google.golang.org/protobuf/encoding/protojson"
	"google.golang.org/protobuf/encoding/prototext"
	"google.golang.org/protobuf/encoding/protowire"
	"google.golang.org/protobuf/proto"
	"google.golang.org/protobuf/types/descriptorpb"
	"google.golang.org/protobuf/types/dynamicpb"
	"google.golang.org/protobuf/types/known/durationpb"
	"google.golang.org/protobuf/types/known/sourcecontextpb"
	"google.golang.org/protobuf/types/known/structpb"
	"google.golang.org/protobuf/types/known/timestamppb"
	"google.golang.org/protobuf/types/known/typepb"
	"google.golang.org/protobuf/types/known/wrapperspb"

	"verif/harness/internal/hx"
)

var (
	sink     *hx.Sink
	prop     string
	thorough bool
)

func fail(what, cs, exp, got, class string) {
	sink.Fail(hx.Failure{Property: prop, Kind: "oracle", What: what, Case: cs, Expected: exp, Got: got, Class: class})
}

func guard(f func() string) (out string) {
	defer func() {
		if x := recover(); x != nil {
			out = "panic"
		}
	}()
	return f()
}

func b2s(b bool) string {
	if b {
		return "1"
	}
	return "0"
}

// capability record of a Go value, by reflection -- the 13 bits of Shim/Dispatch.v, in order
func capsOf(v interface{}) string {
	if v == nil {
		return "1000000000000"
	}
	t := reflect.TypeOf(v)
	_, v2 := v.(proto.Message)
	gm, v1 := v.(gogoproto.Message)
	reg := false
	if v1 && t.Kind() == reflect.Ptr && !reflect.ValueOf(v).IsNil() {
		reg = gogoproto.MessageName(gm) != ""
	} else if v1 && t.Kind() == reflect.Ptr {
		reg = gogoproto.MessageName(gm) != ""
	}
	_, sizer := v.(csproto.Sizer)
	_, marsh := v.(csproto.Marshaler)
	_, unm := v.(csproto.Unmarshaler)
	_, xm := v.(csproto.ProtoV1Marshaler)
	_, xs := v.(csproto.ProtoV1Sizer)
	_, xu := v.(csproto.ProtoV1Unmarshaler)
	_, txt := v.(encoding.TextMarshaler)
	_, rst := v.(interface{ Reset() })
	return "0" + b2s(t.Kind() == reflect.Ptr) + b2s(v2) + b2s(v1) + b2s(reg) + b2s(sizer) + b2s(marsh) + b2s(unm) + b2s(xm) + b2s(xs) + b2s(xu) + b2s(txt) + b2s(rst)
}

var mtNames = map[csproto.MessageType]string{csproto.MessageTypeUnknown: "unknown", csproto.MessageTypeGogo: "gogo",
	csproto.MessageTypeGoogleV1: "googlev1", csproto.MessageTypeGoogle: "google"}

type probe struct {
	name  string
	mk    func() interface{} // a fresh, populated value
	empty func() interface{} // a fresh empty value of the same type (nil when not a message)
	owner string             // google | gogo | googlev1 | own | none
}

func i32(v int32) *int32   { return &v }
func str(s string) *string { return &s }

func probes() []probe {
	ps := []probe{
		{"timestamppb", func() interface{} { return timestamppb.New(time.Unix(1700000000, 42)) }, func() interface{} { return &timestamppb.Timestamp{} }, "google"},
		{"durationpb", func() interface{} { return durationpb.New(-5 * time.Second) }, func() interface{} { return &durationpb.Duration{} }, "google"},
		{"wrappers.String", func() interface{} { return wrapperspb.String("héllo") }, func() interface{} { return &wrapperspb.StringValue{} }, "google"},
		{"wrappers.String-invalid-utf8", func() interface{} { return wrapperspb.String("a\xffb") }, func() interface{} { return &wrapperspb.StringValue{} }, "google"},
		{"wrappers.Bytes", func() interface{} { return wrapperspb.Bytes([]byte{0, 1, 255}) }, func() interface{} { return &wrapperspb.BytesValue{} }, "google"},
		{"structpb", func() interface{} {
			s, _ := structpb.NewStruct(map[string]interface{}{"k": []interface{}{1.5, "v", nil, true}})
			return s
		}, func() interface{} { return &structpb.Struct{} }, "google"},
		{"typepb.Field", func() interface{} {
			return &typepb.Field{Kind: typepb.Field_TYPE_INT64, Cardinality: typepb.Field_CARDINALITY_REPEATED, Number: 7, Name: "f"}
		}, func() interface{} { return &typepb.Field{} }, "google"},
		{"descriptorpb.Field", func() interface{} {
			return &descriptorpb.FieldDescriptorProto{Name: proto.String("x"), Number: proto.Int32(3), Label: descriptorpb.FieldDescriptorProto_LABEL_REPEATED.Enum(),
				Type: descriptorpb.FieldDescriptorProto_TYPE_SINT64.Enum()}
		}, func() interface{} { return &descriptorpb.FieldDescriptorProto{} }, "google"},
		{"gogotypes.Timestamp", func() interface{} { return &gogotypes.Timestamp{Seconds: 1700000000, Nanos: 42} }, func() interface{} { return &gogotypes.Timestamp{} }, "gogo"},
		{"gogotypes.StringValue", func() interface{} { return &gogotypes.StringValue{Value: "héllo"} }, func() interface{} { return &gogotypes.StringValue{} }, "gogo"},
		{"gogotypes.Field", func() interface{} {
			return &gogotypes.Field{Kind: gogotypes.Field_TYPE_INT64, Cardinality: gogotypes.Field_CARDINALITY_REPEATED, Number: 7, Name: "f"}
		}, func() interface{} { return &gogotypes.Field{} }, "gogo"},
		{"gogodesc.Field", func() interface{} {
			l, t := gogodesc.FieldDescriptorProto_LABEL_REPEATED, gogodesc.FieldDescriptorProto_TYPE_SINT64
			return &gogodesc.FieldDescriptorProto{Name: str("x"), Number: i32(3), Label: &l, Type: &t}
		}, func() interface{} { return &gogodesc.FieldDescriptorProto{} }, "gogo"},
		{"gogodesc.File", func() interface{} {
			return &gogodesc.FileDescriptorProto{Name: str("a.proto"), Dependency: []string{"b", "c"}}
		}, func() interface{} { return &gogodesc.FileDescriptorProto{} }, "gogo"},
		{"gogodesc.MessageOptions+ext", func() interface{} {
			// a plain gogo type (no Marshal/Unmarshal methods of its own) carrying extensions
			setupExts()
			t := true
			m := &gogodesc.MessageOptions{Deprecated: &t}
			v := int64(-77)
			hx.Must(gogoproto.SetExtension(m, gogoExts[50100], &v))
			sv := "ext"
			hx.Must(gogoproto.SetExtension(m, gogoExts[50101], &sv))
			return m
		}, func() interface{} { return &gogodesc.MessageOptions{} }, "gogo"},
		{"descriptorpb.MessageOptions+ext", func() interface{} {
			setupExts()
			m := &descriptorpb.MessageOptions{Deprecated: proto.Bool(true)}
			proto.SetExtension(m, v2Exts[50100], int64(-77))
			proto.SetExtension(m, v2Exts[50101], "ext")
			return m
		}, func() interface{} { return &descriptorpb.MessageOptions{} }, "google"},
		// proto2 messages with an unset required field (nested): the owning runtimes return an error, the pointer-based ones
		// together with the bytes of the partial message
		{"gogodesc.UninterpretedOption-missing-required", func() interface{} {
			return &gogodesc.UninterpretedOption{Name: []*gogodesc.UninterpretedOption_NamePart{{NamePart: str("x")}}, IdentifierValue: str("id")}
		}, func() interface{} { return &gogodesc.UninterpretedOption{} }, "gogo"},
		{"descriptorpb.UninterpretedOption-missing-required", func() interface{} {
			return &descriptorpb.UninterpretedOption{Name: []*descriptorpb.UninterpretedOption_NamePart{{NamePart: proto.String("x")}}, IdentifierValue: proto.String("id")}
		}, func() interface{} { return &descriptorpb.UninterpretedOption{} }, "google"},
		{"LegacyV1", func() interface{} {
			return &LegacyV1{A: i32(-7), S: str("legacy"), R: []int64{1, -1, 1 << 40}, B: []byte{9}}
		}, func() interface{} { return &LegacyV1{} }, "googlev1"},
		{"LegacyPlain", func() interface{} { return &LegacyPlain{A: i32(5)} }, func() interface{} { return &LegacyPlain{} }, "googlev1"},
		{"OwnCodec", func() interface{} { return &OwnCodec{b: []byte{8, 1}} }, func() interface{} { return &OwnCodec{} }, "own"},
	}
	return ps
}

func nonMessages() []struct {
	name string
	v    interface{}
} {
	var np *int
	return []struct {
		name string
		v    interface{}
	}{{"nil", nil}, {"int", 42}, {"string", "s"}, {"[]byte", []byte{1, 2}}, {"struct", struct{ X int }{1}}, {"*struct", &struct{ X int }{1}},
		{"*int", new(int)}, {"(*int)(nil)", np}, {"map", map[string]int{"a": 1}}, {"func", func() {}}, {"TextOnly", TextOnly{"txt"}}, {"*TextOnly", &TextOnly{"p"}},
		{"*ResetOnly", &ResetOnly{3}}, {"chan", make(chan int)}, {"float", 1.5}, {"[]interface", []interface{}{1}}}
}

// owner runtime functions
func ownerMarshal(owner string, m interface{}) ([]byte, error) {
	switch owner {
	case "google":
		return proto.MarshalOptions{Deterministic: true}.Marshal(m.(proto.Message))
	case "gogo":
		return gogoproto.Marshal(m.(gogoproto.Message))
	case "googlev1":
		return protoV1.Marshal(m.(protoV1.Message))
	}
	return nil, errors.New("no owner")
}
func ownerUnmarshal(owner string, b []byte, m interface{}) error {
	switch owner {
	case "google":
		return proto.Unmarshal(b, m.(proto.Message))
	case "gogo":
		return gogoproto.Unmarshal(b, m.(gogoproto.Message))
	case "googlev1":
		return protoV1.Unmarshal(b, m.(protoV1.Message))
	}
	return errors.New("no owner")
}
func ownerEqual(owner string, a, b interface{}) bool {
	switch owner {
	case "google":
		return proto.Equal(a.(proto.Message), b.(proto.Message))
	case "gogo":
		return gogoproto.Equal(a.(gogoproto.Message), b.(gogoproto.Message))
	case "googlev1":
		return protoV1.Equal(a.(protoV1.Message), b.(protoV1.Message))
	}
	return false
}
func ownerText(owner string, m interface{}) string {
	switch owner {
	case "google":
		return prototext.Format(m.(proto.Message))
	case "gogo":
		return gogoproto.MarshalTextString(m.(gogoproto.Message))
	case "googlev1":
		return protoV1.MarshalTextString(m.(protoV1.Message))
	}
	return ""
}

// observable line for one value: what Shim/Dispatch.v predicts from the capability record
func dispatchObs(v interface{}, fresh func() interface{}) string {
	mt := guard(func() string { return mtNames[csproto.MsgType(v)] })
	ms := guard(func() string {
		if _, err := csproto.Marshal(v); err != nil {
			return "err"
		}
		return "ok"
	})
	us := guard(func() string {
		var dst interface{} = v
		if fresh != nil {
			dst = fresh()
		}
		b, _ := csproto.Marshal(v)
		if err := csproto.Unmarshal(b, dst); err != nil {
			return "err"
		}
		return "ok"
	})
	sz := guard(func() string {
		if csproto.Size(v) == 0 {
			return "zero"
		}
		return "pos"
	})
	cl := guard(func() string {
		if csproto.Clone(v) == nil {
			return "nil"
		}
		return "val"
	})
	eq := guard(func() string { return fmt.Sprint(csproto.Equal(v, v)) })
	tx := guard(func() string {
		if _, err := csproto.MarshalText(v); err != nil {
			return "err"
		}
		return "ok"
	})
	rg := guard(func() string {
		// the owning runtime's answer may itself be an error (message without extension ranges): only
		// "returned" vs "panicked" is compared
		_ = csproto.RangeExtensions(v, func(interface{}, string, int32) error { return nil })
		return "done"
	})
	rs := guard(func() string {
		var dst interface{} = v
		if fresh != nil {
			dst = fresh()
		}
		csproto.Reset(dst)
		return "ok"
	})
	return strings.Join([]string{mt, "marshal:" + ms, "unmarshal:" + us, "size:" + sz, "clone:" + cl, "equal:" + eq, "text:" + tx, "range:" + rg, "reset:" + rs}, " ")
}

func streamC11(r *hx.Rng) {
	ps := probes()
	for _, p := range ps {
		m := p.mk()
		cs := "probe=" + p.name
		obs := dispatchObs(m, p.empty)
		if !strings.Contains(p.name, "invalid-utf8") && !strings.Contains(p.name, "missing-required") {
			// (a value the owning runtime itself refuses to marshal: the forwarding is exercised by the oracle below,
			// the dispatch model says nothing about the runtime's answer)
			sink.Add("dispatch", "S CAPS "+capsOf(m), obs, true)
		}
		sink.OracleN++
		if strings.Contains(obs, "panic") && !(p.owner == "own" && strings.Count(obs, "panic") == 1 && strings.HasSuffix(obs, "reset:panic")) {
			fail("a csproto API call panicked on a supported message", cs, "no panic", obs, "shim-panic")
		}
		wantMT := map[string]string{"google": "google", "gogo": "gogo", "googlev1": "googlev1", "own": "unknown"}[p.owner]
		if !strings.HasPrefix(obs, wantMT+" ") {
			fail("MsgType misclassifies a message", cs, wantMT, obs, "shim-msgtype")
		}
		if p.owner == "own" {
			oc := m.(*OwnCodec)
			if b, err := csproto.Marshal(oc); err != nil || !bytes.Equal(b, oc.b) || csproto.Size(oc) != len(oc.b) {
				fail("a type implementing csproto's own interfaces is not used directly", cs, "own methods", fmt.Sprint(b, err), "shim-own")
			}
			continue
		}
		// transparency: bytes from either side decode to equal messages on either side
		cb, cerr := csproto.Marshal(m)
		ob, oerr := ownerMarshal(p.owner, m)
		if p.name == "LegacyPlain" {
			// only the v1 message interface: csproto.Marshal has no path for it (documented error); Clone/Equal/Text still work
			if cerr == nil {
				fail("Marshal of a value without any marshal capability did not return ErrMarshaler", cs, "ErrMarshaler", "nil", "shim-marshal")
			}
		} else {
			if cerr != nil && oerr != nil {
				// the owning runtime refuses to marshal this value (invalid UTF-8 in a proto3 string): so must the shim
				sink.Count("both-refuse-marshal")
				// ... and hand back what the runtime hands back with the error (gogo / golang-v1 return the bytes of the
				// partial message together with a RequiredNotSetError)
				if len(cb) != len(ob) {
					fail("Marshal returns an error like the owning runtime but not the bytes the runtime returns with it", cs, hx.B(ob), hx.B(cb), "shim-marshal-partial")
				}
				var codec csproto.GrpcCodec
				if gb, gerr := codec.Marshal(m); gerr == nil || len(gb) != len(ob) {
					fail("GrpcCodec.Marshal differs from the owning runtime's Marshal on a value the runtime refuses", cs, hx.B(ob), hx.B(gb)+fmt.Sprint(gerr), "shim-marshal-partial")
				}
				if tx, err := csproto.MarshalText(m); err != nil || strings.Join(strings.Fields(tx), " ") != strings.Join(strings.Fields(ownerText(p.owner, m)), " ") {
					fail("MarshalText differs from the owning runtime's text format", cs, ownerText(p.owner, m), tx+fmt.Sprint(err), "shim-text")
				}
				continue
			}
			if cerr != nil || oerr != nil {
				fail("Marshal failed on one side only", cs, "both or neither", fmt.Sprint(cerr, " / ", oerr), "shim-marshal")
				continue
			}
			if csproto.Size(m) != len(cb) {
				fail("csproto.Size differs from len(csproto.Marshal)", cs, fmt.Sprint(len(cb)), fmt.Sprint(csproto.Size(m)), "shim-size")
			}
			d1 := p.empty()
			if err := ownerUnmarshal(p.owner, cb, d1); err != nil || !ownerEqual(p.owner, d1, m) {
				fail("bytes from csproto.Marshal do not decode to an equal message with the owning runtime", cs, "equal", fmt.Sprint(err), "shim-cross")
			}
			d2 := p.empty()
			if err := csproto.Unmarshal(ob, d2); err != nil || !ownerEqual(p.owner, d2, m) {
				fail("bytes from the owning runtime do not decode to an equal message with csproto.Unmarshal", cs, "equal", fmt.Sprint(err), "shim-cross")
			}
			// gRPC codec
			var codec csproto.GrpcCodec
			gb, gerr := codec.Marshal(m)
			d3 := p.empty()
			if gerr != nil || !bytes.Equal(gb, cb) && p.owner != "gogo" && p.name != "structpb" || codec.Unmarshal(cb, d3) != nil || !ownerEqual(p.owner, d3, m) || codec.Name() != "proto" {
				fail("GrpcCodec is not a pass-through to Marshal/Unmarshal named \"proto\"", cs, "pass-through", fmt.Sprint(gerr, codec.Name()), "shim-grpc")
			}
		}
		// Clone / Equal / Reset / MarshalText give the runtime's own result
		c := csproto.Clone(m)
		if c == nil || reflect.TypeOf(c) != reflect.TypeOf(m) || !ownerEqual(p.owner, c, m) || c == m {
			fail("Clone is not a deep copy equal to the original", cs, "equal copy", fmt.Sprint(c), "shim-clone")
		}
		other := p.empty()
		if csproto.Equal(m, other) != ownerEqual(p.owner, m, other) || !csproto.Equal(m, c) {
			fail("Equal differs from the owning runtime's Equal", cs, fmt.Sprint(ownerEqual(p.owner, m, other)), fmt.Sprint(csproto.Equal(m, other)), "shim-equal")
		}
		if tx, err := csproto.MarshalText(m); err != nil || tx != ownerText(p.owner, m) {
			// prototext output is deliberately unstable (random whitespace): compare after collapsing blanks
			if err != nil || strings.Join(strings.Fields(tx), " ") != strings.Join(strings.Fields(ownerText(p.owner, m)), " ") {
				fail("MarshalText differs from the owning runtime's text format", cs, ownerText(p.owner, m), tx, "shim-text")
			}
		}
		rm := p.mk()
		csproto.Reset(rm)
		if !ownerEqual(p.owner, rm, p.empty()) {
			fail("Reset did not clear the message", cs, "empty", fmt.Sprint(rm), "shim-reset")
		}
		// ---- less ordinary states of the same types: unknown fields, destinations that already hold something,
		//      empty payloads, typed nil pointers -- every API against the owning runtime called directly
		if p.name != "LegacyPlain" && cerr == nil && oerr == nil {
			textEq := func(a, b string) bool {
				return strings.Join(strings.Fields(a), " ") == strings.Join(strings.Fields(b), " ")
			}
			// (a) a message carrying unknown fields (decoded by the owning runtime from its own bytes + 3 foreign fields)
			unk := []byte{0x80, 0x7d, 0x07, 0x8a, 0x7d, 0x02, 0x68, 0x69, 0x95, 0x7d, 1, 2, 3, 4} // 2000: 7, 2001: "hi", 2002: fixed32
			mu := p.empty()
			if err := ownerUnmarshal(p.owner, append(append([]byte{}, ob...), unk...), mu); err == nil {
				sink.OracleN++
				cb2, e1 := csproto.Marshal(mu)
				ob2, e2 := ownerMarshal(p.owner, mu)
				d := p.empty()
				if (e1 == nil) != (e2 == nil) || (e1 == nil && (ownerUnmarshal(p.owner, cb2, d) != nil || !ownerEqual(p.owner, d, mu) || csproto.Size(mu) != len(cb2))) {
					fail("Marshal/Size of a message carrying unknown fields differs from the owning runtime", cs+" +unknown", hx.B(ob2), hx.B(cb2)+fmt.Sprint(e1, e2), "shim-unknown")
				}
				if tx, err := csproto.MarshalText(mu); err != nil || !textEq(tx, ownerText(p.owner, mu)) {
					fail("MarshalText of a message carrying unknown fields differs from the owning runtime's text format", cs+" +unknown", ownerText(p.owner, mu), tx+fmt.Sprint(err), "shim-text")
				}
				if c := csproto.Clone(mu); c == nil || !ownerEqual(p.owner, c, mu) || !csproto.Equal(c, mu) || csproto.Equal(mu, m) != ownerEqual(p.owner, mu, m) {
					fail("Clone/Equal of a message carrying unknown fields differ from the owning runtime", cs+" +unknown", "runtime's result", fmt.Sprint(c), "shim-unknown")
				}
			}
			// (b) Unmarshal replaces what the destination held -- through csproto.Unmarshal and through the gRPC codec --
			//     for the message's own bytes and for the empty payload
			for _, payload := range [][]byte{ob, {}, nil} {
				for _, via := range []string{"Unmarshal", "GrpcCodec.Unmarshal"} {
					sink.OracleN++
					d1, d2 := p.mk(), p.mk()
					e2 := ownerUnmarshal(p.owner, payload, d2)
					var e1 error
					if via == "Unmarshal" {
						e1 = guardErr(func() error { return csproto.Unmarshal(payload, d1) })
					} else {
						e1 = guardErr(func() error { return csproto.GrpcCodec{}.Unmarshal(payload, d1) })
					}
					if (e1 == nil) != (e2 == nil) || (e1 == nil && !ownerEqual(p.owner, d1, d2)) {
						fail("Unmarshal into a destination that already holds a message differs from the owning runtime's Unmarshal (which replaces the contents)",
							fmt.Sprintf("%s via=%s payload=%s", cs, via, hx.B(payload)), fmt.Sprint(d2, e2), fmt.Sprint(d1, e1), "shim-unmarshal-replace")
					}
				}
			}
			// (d) a message that was sized / marshaled before and has been modified since (the runtimes cache sizes inside
			//     the message): Size and Marshal speak about the contents as they are now
			if p.owner == "google" || p.owner == "gogo" {
				mm := p.mk()
				_ = csproto.Size(mm)
				_, _ = csproto.Marshal(mm)
				_, _ = ownerMarshal(p.owner, mm)
				if grew := growSomeField(mm); grew {
					sink.OracleN++
					sz := csproto.Size(mm)
					cb3, e3 := csproto.Marshal(mm)
					fresh := csproto.Clone(mm)
					ob3, e4 := ownerMarshal(p.owner, fresh)
					d := p.empty()
					if e3 != nil || e4 != nil || sz != len(cb3) || len(cb3) != len(ob3) || ownerUnmarshal(p.owner, cb3, d) != nil || !ownerEqual(p.owner, d, mm) {
						fail("Size/Marshal of a message modified after it was first sized do not describe its current contents", cs+" size, modify, size",
							fmt.Sprintf("size=%d bytes=%s", len(ob3), hx.B(ob3)), fmt.Sprintf("size=%d bytes=%s %v", sz, hx.B(cb3), e3), "shim-stale-size")
					}
				}
			}
			// (c) a typed nil pointer of the message type
			nilv := reflect.Zero(reflect.TypeOf(m)).Interface()
			sink.OracleN++
			outC := guard(func() string {
				b, err := csproto.Marshal(nilv)
				tx, terr := csproto.MarshalText(nilv)
				return fmt.Sprintf("size=%d marshal=%s/%v text=%q/%v", csproto.Size(nilv), hx.B(b), err != nil, tx, terr != nil)
			})
			outO := guard(func() string {
				b, err := ownerMarshal(p.owner, nilv)
				return fmt.Sprintf("size=%d marshal=%s/%v text=%q/%v", len(b), hx.B(b), err != nil, ownerText(p.owner, nilv), false)
			})
			if outC != outO && !(strings.Contains(outO, "panic") || p.owner == "googlev1") {
				// (where the owning runtime itself panics on a typed nil nothing is required of the shim but not to panic)
				fail("Size/Marshal/MarshalText of a typed nil message pointer differ from the owning runtime", cs+" typed-nil", outO, outC, "shim-typednil")
			}
			if strings.Contains(outC, "panic") && !strings.Contains(outO, "panic") {
				fail("a csproto API call panicked on a typed nil message pointer", cs+" typed-nil", outO, outC, "shim-panic")
			}
		}
		// cross-runtime Equal is false
		for _, q := range ps {
			if q.owner != p.owner && q.owner != "own" && p.owner != "own" {
				sink.OracleN++
				if guard(func() string { return fmt.Sprint(csproto.Equal(m, q.mk())) }) != "false" {
					fail("Equal of messages of different runtimes is not false", cs+" vs "+q.name, "false", "true/panic", "shim-equal-cross")
				}
			}
		}
	}
	// values of unsupported types: documented error or zero result, no panic (Reset excepted)
	for _, nm := range nonMessages() {
		obs := dispatchObs(nm.v, nil)
		sink.Add("dispatch-nonmessage", "S CAPS "+capsOf(nm.v), obs, true)
		sink.OracleN++
		withoutReset := obs[:strings.LastIndex(obs, " reset:")]
		if strings.Contains(withoutReset, "panic") {
			fail("a csproto API call panicked on a value of an unsupported type", "value="+nm.name, "documented error / zero result", obs, "shim-panic-nonmessage")
		}
		if _, err := csproto.Marshal(nm.v); nm.name != "*TextOnly" && !errors.Is(err, csproto.ErrMarshaler) {
			if _, isM := nm.v.(csproto.Marshaler); !isM {
				fail("Marshal of an unsupported value did not return ErrMarshaler", "value="+nm.name, "ErrMarshaler", fmt.Sprint(err), "shim-nonmessage")
			}
		}
		for _, payload := range [][]byte{{8, 1}, {}} {
			if err := guardErr(func() error { return csproto.GrpcCodec{}.Unmarshal(payload, nm.v) }); !errors.Is(err, csproto.ErrUnmarshaler) {
				fail("GrpcCodec.Unmarshal into an unsupported value did not return ErrUnmarshaler", fmt.Sprintf("value=%s payload=%s", nm.name, hx.B(payload)), "ErrUnmarshaler", fmt.Sprint(err), "shim-nonmessage")
			}
			if err := guardErr(func() error { return csproto.Unmarshal(payload, nm.v) }); !errors.Is(err, csproto.ErrUnmarshaler) {
				fail("Unmarshal into an unsupported value did not return ErrUnmarshaler", fmt.Sprintf("value=%s payload=%s", nm.name, hx.B(payload)), "ErrUnmarshaler", fmt.Sprint(err), "shim-nonmessage")
			}
		}
		if err := guardErr(func() error { return csproto.Unmarshal([]byte{8, 1}, nm.v) }); !errors.Is(err, csproto.ErrUnmarshaler) {
			fail("Unmarshal into an unsupported value did not return ErrUnmarshaler", "value="+nm.name, "ErrUnmarshaler", fmt.Sprint(err), "shim-nonmessage")
		}
	}
	streamEqualNaN()
	streamFreshMarshalAndDynamic()
	streamMixedRace(ps)
	streamFirstUse(ps)
	// first-use race: G goroutines classify a fresh type at once (type cache emptied through the verif hook)
	trials := 200
	if thorough {
		trials = 5000
	}
	for _, p := range ps {
		for t := 0; t < trials/len(ps)+1; t++ {
			csproto.VerifResetMsgTypeCache()
			m := p.mk()
			const G = 32
			res := make([]csproto.MessageType, G)
			var wg sync.WaitGroup
			start := make(chan struct{})
			for g := 0; g < G; g++ {
				wg.Add(1)
				go func(g int) {
					defer wg.Done()
					<-start
					res[g] = csproto.MsgType(m)
				}(g)
			}
			close(start)
			wg.Wait()
			sink.OracleN++
			for g := 1; g < G; g++ {
				if res[g] != res[0] {
					fail("goroutines racing on the first classification of a type saw different results", "probe="+p.name, mtNames[res[0]], mtNames[res[g]], "shim-race")
				}
			}
			if t == 0 {
				sink.Add("race", fmt.Sprintf("S RACE %s %d", capsOf(m), G), mtNames[res[0]], true)
			}
		}
	}
}

// goroutines classifying types of DIFFERENT runtimes at the same time (fresh cache and steady state): every answer
// is the one a sequential call gives for that type
// The classification of a TYPE is cached process-wide at its first use: it must not depend on which value of the type
// (typed nil pointer, empty, populated) or which API call happened to see the type first.
func streamFirstUse(ps []probe) {
	apis := []struct {
		name string
		call func(v interface{})
	}{
		{"MsgType", func(v interface{}) { _ = csproto.MsgType(v) }},
		{"Clone", func(v interface{}) { _ = csproto.Clone(v) }},
		{"Equal", func(v interface{}) { _ = csproto.Equal(v, v) }},
		{"Marshal", func(v interface{}) { _, _ = csproto.Marshal(v) }},
		{"Size", func(v interface{}) { _ = csproto.Size(v) }},
		{"MarshalText", func(v interface{}) { _, _ = csproto.MarshalText(v) }},
		{"HasExtension", func(v interface{}) {
			_ = csproto.RangeExtensions(v, func(interface{}, string, int32) error { return nil })
		}},
	}
	for _, p := range ps {
		if p.owner != "google" && p.owner != "gogo" && p.owner != "googlev1" {
			continue
		}
		wantMT := p.owner
		typedNil := reflect.Zero(reflect.TypeOf(p.empty())).Interface()
		firsts := []struct {
			name string
			v    func() interface{}
		}{{"typed-nil", func() interface{} { return typedNil }}, {"empty", p.empty}, {"populated", p.mk}}
		for _, f := range firsts {
			for _, a := range apis {
				csproto.VerifResetMsgTypeCache()
				cs := fmt.Sprintf("probe=%s first-use=%s(%s)", p.name, a.name, f.name)
				hx.Inflight("C11 first use: " + cs)
				_ = guard(func() string { a.call(f.v()); return "" })
				sink.OracleN++
				sink.Count("first-use-probe")
				m := p.mk()
				got := guard(func() string { return mtNames[csproto.MsgType(m)] })
				if got != wantMT {
					fail("the classification of a message type depends on which value / API call saw the type first", cs, wantMT, got, "shim-first-use")
					continue
				}
				c := guard(func() string {
					c := csproto.Clone(m)
					if c == nil || !ownerEqual(p.owner, c, m) || !csproto.Equal(c, m) {
						return "bad"
					}
					if _, err := csproto.MarshalText(m); err != nil {
						return "text:" + err.Error()
					}
					return "ok"
				})
				if c != "ok" {
					fail("Clone / Equal / MarshalText of a populated message fail after the type was first seen through another value", cs, "ok", c, "shim-first-use")
				}
			}
		}
	}
	csproto.VerifResetMsgTypeCache()
}

func streamMixedRace(ps []probe) {
	want := make([]csproto.MessageType, len(ps))
	msgs := make([]interface{}, len(ps))
	for i, p := range ps {
		msgs[i] = p.mk()
		want[i] = csproto.MsgType(msgs[i])
	}
	rounds, iters := 40, 4000
	if thorough {
		rounds, iters = 400, 8000
	}
	const G = 16
	for t := 0; t < rounds; t++ {
		if t%2 == 0 {
			csproto.VerifResetMsgTypeCache()
		}
		var bad [G]string
		var wg sync.WaitGroup
		start := make(chan struct{})
		for g := 0; g < G; g++ {
			wg.Add(1)
			go func(g int) {
				defer wg.Done()
				<-start
				for it := 0; it < iters; it++ {
					i := (g + it*(1+g%3)) % len(ps)
					if it < iters/2 {
						i = (g*5 + t) % len(ps) // first half: each goroutine hammers one type, neighbours other runtimes' types
					}
					if got := csproto.MsgType(msgs[i]); got != want[i] && bad[g] == "" {
						bad[g] = fmt.Sprintf("probe=%s got=%s want=%s", ps[i].name, mtNames[got], mtNames[want[i]])
					}
				}
			}(g)
		}
		close(start)
		wg.Wait()
		sink.OracleN++
		for _, b := range bad {
			if b != "" {
				fail("a goroutine classifying one type while others classify types of other runtimes got another type's answer", b, "the sequential answer", b, "shim-race-mixed")
				return
			}
		}
	}
	sink.Count("race-mixed-rounds")
}

// (1) Marshal as the FIRST thing done to a freshly built message with populated nested messages (the table-driven
// runtimes take nested length prefixes from caches that only a sizing pass fills in), and again after a nested field
// was modified; (2) Equal / Clone / Marshal across Go types that share a descriptor (generated type vs dynamicpb):
// the Google-v2 runtime compares by descriptor
func streamFreshMarshalAndDynamic() {
	t := true
	type fp struct {
		name, owner string
		mk          func() interface{}
		poke        func(m interface{})
	}
	for _, p := range []fp{
		{"gogodesc.File+nested", "gogo", func() interface{} {
			return &gogodesc.FileDescriptorProto{Name: str("f.proto"), Package: str("p"), MessageType: []*gogodesc.DescriptorProto{{Name: str("M"),
				Field: []*gogodesc.FieldDescriptorProto{{Name: str("id"), Number: i32(1), Options: &gogodesc.FieldOptions{Deprecated: &t}}}}}}
		}, func(m interface{}) {
			m.(*gogodesc.FileDescriptorProto).MessageType[0].Name = str("a-much-longer-message-name-than-before")
		}},
		{"gogotypes.Type+nested", "gogo", func() interface{} {
			return &gogotypes.Type{Name: "T", Fields: []*gogotypes.Field{{Name: "a", Number: 1}}, SourceContext: &gogotypes.SourceContext{FileName: "f.proto"}}
		}, func(m interface{}) { m.(*gogotypes.Type).Fields[0].Name = strings.Repeat("n", 200) }},
		{"descriptorpb.File+nested", "google", func() interface{} {
			return &descriptorpb.FileDescriptorProto{Name: proto.String("f.proto"), MessageType: []*descriptorpb.DescriptorProto{{Name: proto.String("M"),
				Field: []*descriptorpb.FieldDescriptorProto{{Name: proto.String("id"), Number: proto.Int32(1)}}}}}
		}, func(m interface{}) {
			m.(*descriptorpb.FileDescriptorProto).MessageType[0].Name = proto.String("a-much-longer-message-name-than-before")
		}},
	} {
		for _, via := range []string{"marshal", "codec"} {
			m := p.mk()
			for step := 0; step < 2; step++ {
				var got []byte
				var err error
				if via == "marshal" {
					got, err = csproto.Marshal(m)
				} else {
					got, err = csproto.GrpcCodec{}.Marshal(m)
				}
				fresh := p.mk()
				if step == 1 {
					p.poke(fresh)
				}
				want, _ := ownerMarshal(p.owner, fresh)
				sink.OracleN++
				d := reflect.New(reflect.TypeOf(m).Elem()).Interface()
				if err != nil || len(got) != len(want) || ownerUnmarshal(p.owner, got, d) != nil || !ownerEqual(p.owner, d, fresh) {
					fail("Marshal of a message that was never sized (or was modified since) is not the encoding of its contents", fmt.Sprintf("probe=%s via=%s step=%d", p.name, via, step), hx.B(want), hx.B(got), "shim-fresh-marshal")
				}
				p.poke(m)
			}
		}
	}
	// generated type vs dynamicpb on the same descriptor
	for _, g := range []proto.Message{&typepb.Field{Name: "f", Number: 3, Kind: typepb.Field_TYPE_INT64}, &timestamppb.Timestamp{Seconds: 7, Nanos: 9}, wrapperspb.String("w")} {
		b, _ := proto.Marshal(g)
		dyn := dynamicpb.NewMessage(g.ProtoReflect().Descriptor())
		hx.Must(proto.Unmarshal(b, dyn))
		other := dynamicpb.NewMessage(g.ProtoReflect().Descriptor())
		for _, pair := range [][2]proto.Message{{g, dyn}, {dyn, g}, {g, other}, {other, g}, {dyn, other}} {
			sink.OracleN++
			if got, want := csproto.Equal(pair[0], pair[1]), proto.Equal(pair[0], pair[1]); got != want {
				fail("Equal differs from the owning runtime's Equal for two Go types sharing a descriptor", fmt.Sprintf("%T vs %T (%s)", pair[0], pair[1], g.ProtoReflect().Descriptor().FullName()), fmt.Sprint(want), fmt.Sprint(got), "shim-equal-dynamic")
			}
		}
		sink.OracleN++
		cb, err := csproto.Marshal(dyn)
		back := dynamicpb.NewMessage(g.ProtoReflect().Descriptor())
		// (dynamicpb writes its fields in its own order: compare by decoding, not byte for byte)
		if c, ok := csproto.Clone(dyn).(proto.Message); err != nil || len(cb) != len(b) || proto.Unmarshal(cb, back) != nil || !proto.Equal(back, g) || !ok || !proto.Equal(c, dyn) || csproto.Size(dyn) != len(b) {
			fail("Marshal / Size / Clone of a dynamicpb message differ from the runtime's", string(g.ProtoReflect().Descriptor().FullName()), hx.B(b), hx.B(cb), "shim-dynamic")
		}
	}
}

// Equal on messages holding NaN, with themselves, a clone and a decoded copy: the owning runtime's answer (protobuf-go
// treats NaN as equal to NaN, gogo and golang/protobuf v1 compare floats with ==)
func streamEqualNaN() {
	nan := math.NaN()
	type np struct {
		name, owner string
		mk          func() interface{}
	}
	for _, p := range []np{
		{"gogotypes.DoubleValue", "gogo", func() interface{} { return &gogotypes.DoubleValue{Value: nan} }},
		{"gogotypes.FloatValue", "gogo", func() interface{} { return &gogotypes.FloatValue{Value: float32(nan)} }},
		{"gogotypes.Value", "gogo", func() interface{} { return &gogotypes.Value{Kind: &gogotypes.Value_NumberValue{NumberValue: nan}} }},
		{"gogotypes.ListValue", "gogo", func() interface{} {
			return &gogotypes.ListValue{Values: []*gogotypes.Value{{Kind: &gogotypes.Value_NumberValue{NumberValue: 1}}, {Kind: &gogotypes.Value_NumberValue{NumberValue: nan}}}}
		}},
		{"wrapperspb.DoubleValue", "google", func() interface{} { return wrapperspb.Double(nan) }},
		{"structpb.Value", "google", func() interface{} { return structpb.NewNumberValue(nan) }},
	} {
		m := p.mk()
		c := csproto.Clone(m)
		for _, pair := range []struct {
			how  string
			a, b interface{}
		}{{"itself", m, m}, {"clone", m, c}, {"rebuilt", m, p.mk()}} {
			sink.OracleN++
			want := ownerEqual(p.owner, pair.a, pair.b)
			if got := csproto.Equal(pair.a, pair.b); got != want {
				fail("Equal differs from the owning runtime's Equal on a message holding NaN", fmt.Sprintf("probe=%s compared-with=%s", p.name, pair.how), fmt.Sprint(want), fmt.Sprint(got), "shim-equal-nan")
			}
		}
	}
}

func guardErr(f func() error) (err error) {
	defer func() {
		if x := recover(); x != nil {
			err = fmt.Errorf("PANIC %v", x)
		}
	}()
	return f()
}

func main() {
	out := flag.String("out", "", "output directory")
	tier := flag.String("tier", "quick", "quick|thorough")
	flag.StringVar(&prop, "prop", "C11", "property")
	seed := flag.Uint64("seed", hx.SeedFromEnv(), "seed")
	flag.Parse()
	thorough = *tier == "thorough"
	sink = hx.NewSink()
	hx.InflightOpen(*out)
	r := hx.NewRng(*seed).Fork(prop)
	switch prop {
	case "C11":
		streamC11(r)
	case "C12":
		streamC12(r)
	case "C09":
		streamC09(r)
	case "C18":
		streamC18(r)
	default:
		fmt.Fprintln(os.Stderr, "unknown property", prop)
		os.Exit(2)
	}
	hx.Must(sink.Write(*out))
	hx.InflightDone(*out)
}

var _ = json.Valid
var _ = protojson.Format
var _ = jsonpbV1.Marshaler{}
var _ = gogojsonpb.Marshaler{}

// growSomeField changes the first singular string or integer field it finds (through protoreflect) so that the
// encoded size changes; reports whether it found one
func growSomeField(m interface{}) (done bool) {
	defer func() {
		if recover() != nil {
			done = false
		}
	}()
	var rm protoreflect.Message
	if pm, ok := m.(proto.Message); ok {
		rm = pm.ProtoReflect()
	} else {
		rm = protoimpl.X.ProtoMessageV2Of(m).ProtoReflect()
	}
	fds := rm.Descriptor().Fields()
	for i := 0; i < fds.Len(); i++ {
		fd := fds.Get(i)
		if fd.IsList() || fd.IsMap() {
			continue
		}
		switch fd.Kind() {
		case protoreflect.StringKind:
			rm.Set(fd, protoreflect.ValueOfString(rm.Get(fd).String()+" -- grown by forty-odd characters after the first Size --"))
			return true
		case protoreflect.Int64Kind, protoreflect.Sint64Kind:
			rm.Set(fd, protoreflect.ValueOfInt64(rm.Get(fd).Int()^0x7fffffffffff))
			return true
		case protoreflect.Int32Kind:
			rm.Set(fd, protoreflect.ValueOfInt32(int32(rm.Get(fd).Int())^0x7ffffff))
			return true
		}
	}
	return false
}

// C09, the part outside generated code: messages WITHOUT fastmarshal methods (well-known types, plain protoc-gen-go /
// gogo messages) are sized and encoded by csproto.Size / Marshal / Encoder.EncodeNested through the owning runtime,
// which caches sizes inside the message.  Histories of {size, marshal, runtime marshal, encode-as-nested, modify}: after
// every observation the answer equals the one for a fresh deep copy of the current contents.
func streamC09(r *hx.Rng) {
	type np struct {
		name, owner string
		mk          func() interface{}
	}
	ps := []np{
		{"timestamppb", "google", func() interface{} { return &timestamppb.Timestamp{Seconds: 1, Nanos: 2} }},
		{"durationpb", "google", func() interface{} { return &durationpb.Duration{Seconds: 5} }},
		{"wrapperspb.String", "google", func() interface{} { return wrapperspb.String("abc") }},
		{"structpb.Value", "google", func() interface{} { return structpb.NewStringValue("s") }},
		{"typepb.Field", "google", func() interface{} { return &typepb.Field{Name: "f", Number: 3} }},
		{"descriptorpb.Field", "google", func() interface{} {
			return &descriptorpb.FieldDescriptorProto{Name: proto.String("x"), Number: proto.Int32(3)}
		}},
		{"gogotypes.Timestamp", "gogo", func() interface{} { return &gogotypes.Timestamp{Seconds: 1, Nanos: 2} }},
		{"gogodesc.Field", "gogo", func() interface{} { return &gogodesc.FieldDescriptorProto{Name: str("x"), Number: i32(3)} }},
		// non-empty NESTED messages (the runtimes take nested length prefixes from caches a sizing pass fills in)
		{"gogodesc.Message+nested", "gogo", func() interface{} {
			t := true
			return &gogodesc.DescriptorProto{Name: str("M"), Field: []*gogodesc.FieldDescriptorProto{{Name: str("f"), Number: i32(1), Options: &gogodesc.FieldOptions{Deprecated: &t}}},
				Options: &gogodesc.MessageOptions{Deprecated: &t}, NestedType: []*gogodesc.DescriptorProto{{Name: str("N"), Options: &gogodesc.MessageOptions{MapEntry: &t}}}}
		}},
		{"gogotypes.Type+nested", "gogo", func() interface{} {
			return &gogotypes.Type{Name: "T", Fields: []*gogotypes.Field{{Name: "a", Number: 1}, {Name: "b", Number: 300}}, SourceContext: &gogotypes.SourceContext{FileName: "f.proto"}}
		}},
		{"descriptorpb.Message+nested", "google", func() interface{} {
			return &descriptorpb.DescriptorProto{Name: proto.String("M"), Field: []*descriptorpb.FieldDescriptorProto{{Name: proto.String("f"), Number: proto.Int32(1), Options: &descriptorpb.FieldOptions{Deprecated: proto.Bool(true)}}},
				Options: &descriptorpb.MessageOptions{Deprecated: proto.Bool(true)}, NestedType: []*descriptorpb.DescriptorProto{{Name: proto.String("N"), Options: &descriptorpb.MessageOptions{MapEntry: proto.Bool(true)}}}}
		}},
		{"typepb.Type+nested", "google", func() interface{} {
			return &typepb.Type{Name: "T", Fields: []*typepb.Field{{Name: "a", Number: 1}, {Name: "b", Number: 300}}, SourceContext: &sourcecontextpb.SourceContext{FileName: "f.proto"}}
		}},
	}
	n := 60
	if thorough {
		n = 1500
	}
	for _, p := range ps {
		for h := 0; h < n; h++ {
			m := p.mk()
			var hist []string
			for step := 0; step < 3+r.Intn(6); step++ {
				op := []string{"size", "marshal", "owner-marshal", "nested", "modify", "modify"}[r.Intn(6)]
				if step == 0 {
					op = []string{"size", "marshal", "owner-marshal", "nested"}[h%4]
				}
				hist = append(hist, op)
				cs := fmt.Sprintf("probe=%s history=%s", p.name, strings.Join(hist, ","))
				fresh := csproto.Clone(m)
				want, werr := ownerMarshal(p.owner, fresh)
				if werr != nil {
					break
				}
				sink.OracleN++
				switch op {
				case "modify":
					sink.OracleN--
					if !modifySize(r, m) {
						hist = hist[:len(hist)-1]
					}
				case "size":
					if got := csproto.Size(m); got != len(want) {
						fail("csproto.Size of a message without generated code does not describe its current contents", cs, fmt.Sprint(len(want)), fmt.Sprint(got), "shim-stale-size")
						return
					}
				case "marshal":
					if got, err := csproto.Marshal(m); err != nil || len(got) != len(want) || !ownerRoundTrips(p.owner, got, m) {
						fail("csproto.Marshal of a message without generated code does not describe its current contents", cs, hx.B(want), hx.B(got), "shim-stale-marshal")
						return
					}
				case "owner-marshal":
					_, _ = ownerMarshal(p.owner, m)
				case "nested":
					// what generated code does for a field of such a type: room from csproto.Size, bytes from EncodeNested
					tag := []int{1, 15, 16, 2047, 2048}[r.Intn(5)]
					l := csproto.Size(m)
					buf := make([]byte, csproto.SizeOfTagKey(tag)+csproto.SizeOfVarint(uint64(l))+l)
					out := guard(func() string {
						e := csproto.NewEncoder(buf)
						if err := e.EncodeNested(tag, m); err != nil {
							return "err " + err.Error()
						}
						return hx.B(buf)
					})
					exp := protowire.AppendBytes(protowire.AppendTag(nil, protowire.Number(tag), protowire.BytesType), want)
					okLen := len(buf) == len(exp)
					var body []byte
					if okLen && !strings.HasPrefix(out, "err") && out != "panic" {
						_, _, kn := protowire.ConsumeTag(buf)
						body, _ = protowire.ConsumeBytes(buf[kn:])
					}
					if !okLen || body == nil && len(want) > 0 || !ownerRoundTrips(p.owner, body, m) {
						fail("a message without generated code, encoded as a nested field in a buffer sized by csproto.Size, is not key + length + its current contents", cs, hx.B(exp), out, "shim-stale-nested")
						return
					}
				}
			}
			sink.Count("c09-shim-history:" + p.owner)
		}
	}
}

func ownerRoundTrips(owner string, b []byte, m interface{}) bool {
	d := reflect.New(reflect.TypeOf(m).Elem()).Interface()
	return ownerUnmarshal(owner, b, d) == nil && ownerEqual(owner, d, m)
}

// modifySize changes one singular string / integer field in place (through protoreflect) to a value of another encoded size
func modifySize(r *hx.Rng, m interface{}) (done bool) {
	defer func() {
		if recover() != nil {
			done = false
		}
	}()
	var rm protoreflect.Message
	if pm, ok := m.(proto.Message); ok {
		rm = pm.ProtoReflect()
	} else {
		rm = protoimpl.X.ProtoMessageV2Of(m).ProtoReflect()
	}
	// half of the time, go down into a set nested message (singular, or an element of a list) and modify that one
	for depth := 0; depth < 3 && r.Bool(); depth++ {
		var subs []protoreflect.Message
		rm.Range(func(fd protoreflect.FieldDescriptor, v protoreflect.Value) bool {
			if fd.Kind() == protoreflect.MessageKind && !fd.IsMap() {
				if fd.IsList() {
					for i := 0; i < v.List().Len(); i++ {
						subs = append(subs, v.List().Get(i).Message())
					}
				} else {
					subs = append(subs, v.Message())
				}
			}
			return true
		})
		if len(subs) == 0 {
			break
		}
		rm = subs[r.Intn(len(subs))]
	}
	fds := rm.Descriptor().Fields()
	start := r.Intn(fds.Len())
	for i := 0; i < fds.Len(); i++ {
		fd := fds.Get((start + i) % fds.Len())
		if fd.IsList() || fd.IsMap() {
			continue
		}
		switch fd.Kind() {
		case protoreflect.StringKind:
			rm.Set(fd, protoreflect.ValueOfString(strings.Repeat("g", []int{0, 1, 40, 127, 128, 300}[r.Intn(6)])))
			return true
		case protoreflect.Int64Kind, protoreflect.Sint64Kind:
			rm.Set(fd, protoreflect.ValueOfInt64([]int64{0, 1, 300, 1 << 40, -1}[r.Intn(5)]))
			return true
		case protoreflect.Int32Kind:
			rm.Set(fd, protoreflect.ValueOfInt32([]int32{0, 1, 300, 1 << 30, -1}[r.Intn(5)]))
			return true
		}
	}
	return false
}
