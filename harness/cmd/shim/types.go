package main

import (
	"errors"
	"fmt"

	protoV1 "github.com/golang/protobuf/proto" //nolint
	"google.golang.org/protobuf/runtime/protoiface"
	"google.golang.org/protobuf/runtime/protoimpl"
	"google.golang.org/protobuf/types/known/durationpb"
	"google.golang.org/protobuf/types/known/timestamppb"
	"google.golang.org/protobuf/types/known/wrapperspb"
)

// LegacyV1 is a golang/protobuf v1-era message: a plain struct with protobuf tags, Reset/String/
// ProtoMessage and the XXX_ methods old generated code carried.  It has no ProtoReflect method and is
// not registered with gogo, so csproto must classify it as MessageTypeGoogleV1.
type LegacyV1 struct {
	A                    *int32   `protobuf:"varint,1,opt,name=a" json:"a,omitempty"`
	S                    *string  `protobuf:"bytes,2,opt,name=s" json:"s,omitempty"`
	R                    []int64  `protobuf:"varint,3,rep,name=r" json:"r,omitempty"`
	B                    []byte   `protobuf:"bytes,4,opt,name=b" json:"b,omitempty"`
	XXX_NoUnkeyedLiteral struct{} `json:"-"`
	XXX_unrecognized     []byte   `json:"-"`
	XXX_sizecache        int32    `json:"-"`
}

func (m *LegacyV1) Reset()         { *m = LegacyV1{} }
func (m *LegacyV1) String() string { return protoV1.CompactTextString(m) }
func (*LegacyV1) ProtoMessage()    {}
func (m *LegacyV1) XXX_Size() int  { return protoV1.Size(m) }
func (m *LegacyV1) XXX_Marshal(b []byte, deterministic bool) ([]byte, error) {
	bb, err := protoV1.Marshal(m)
	return append(b, bb...), err
}
func (m *LegacyV1) XXX_Unmarshal(b []byte) error { return protoV1.Unmarshal(b, m) }

// LegacyV1WKT: a v1-era message whose fields are well-known types (their JSON form is special: a timestamp is a
// string, a wrapper a bare value)
type LegacyV1WKT struct {
	T *timestamppb.Timestamp  `protobuf:"bytes,1,opt,name=t" json:"t,omitempty"`
	D *durationpb.Duration    `protobuf:"bytes,2,opt,name=d" json:"d,omitempty"`
	W *wrapperspb.Int64Value  `protobuf:"bytes,3,opt,name=w" json:"w,omitempty"`
	N *string                 `protobuf:"bytes,4,opt,name=n" json:"n,omitempty"`
	L []*wrapperspb.BoolValue `protobuf:"bytes,5,rep,name=l" json:"l,omitempty"`
}

func (m *LegacyV1WKT) Reset()         { *m = LegacyV1WKT{} }
func (m *LegacyV1WKT) String() string { return protoV1.CompactTextString(m) }
func (*LegacyV1WKT) ProtoMessage()    {}

// LegacyV1Ext: a v1-era EXTENDABLE message (extension range 100..999)
type LegacyV1Ext struct {
	A                      *int32                    `protobuf:"varint,1,opt,name=a" json:"a,omitempty"`
	XXX_InternalExtensions protoimpl.ExtensionFields `json:"-"`
	XXX_unrecognized       []byte                    `json:"-"`
}

func (m *LegacyV1Ext) Reset()         { *m = LegacyV1Ext{} }
func (m *LegacyV1Ext) String() string { return protoV1.CompactTextString(m) }
func (*LegacyV1Ext) ProtoMessage()    {}
func (*LegacyV1Ext) ExtensionRangeArray() []protoiface.ExtensionRangeV1 {
	return []protoiface.ExtensionRangeV1{{Start: 100, End: 999}}
}

// LegacyPlain: the same without XXX_ methods (only the v1 message interface)
type LegacyPlain struct {
	A *int32 `protobuf:"varint,1,opt,name=a" json:"a,omitempty"`
}

func (m *LegacyPlain) Reset()         { *m = LegacyPlain{} }
func (m *LegacyPlain) String() string { return protoV1.CompactTextString(m) }
func (*LegacyPlain) ProtoMessage()    {}

// OwnCodec only implements csproto's own interfaces; no runtime knows it.
type OwnCodec struct {
	b     []byte
	calls []string
}

func (o *OwnCodec) Size() int { o.calls = append(o.calls, "Size"); return len(o.b) }
func (o *OwnCodec) Marshal() ([]byte, error) {
	o.calls = append(o.calls, "Marshal")
	return append([]byte{}, o.b...), nil
}
func (o *OwnCodec) Unmarshal(p []byte) error {
	o.calls = append(o.calls, "Unmarshal")
	o.b = append([]byte{}, p...)
	return nil
}

// TextOnly implements encoding.TextMarshaler and nothing else.
type TextOnly struct{ s string }

func (t TextOnly) MarshalText() ([]byte, error) { return []byte(t.s), nil }

var errText = errors.New("text failure")

type TextFails struct{}

func (TextFails) MarshalText() ([]byte, error) { return nil, errText }

// ResetOnly has a Reset method and is otherwise not a message.
type ResetOnly struct{ n int }

func (r *ResetOnly) Reset() { r.n = 0 }

var _ = fmt.Sprint
