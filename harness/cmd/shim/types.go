package main

import (
	"errors"
	"fmt"

	protoV1 "github.com/golang/protobuf/proto" //nolint
)

// LegacyV1 is a golang/protobuf v1-era message: a plain struct with protobuf tags, Reset/String/
// ProtoMessage and the XXX_ methods old generated code carried.  It has no ProtoReflect method and is
// not registered with gogo, so csproto must classify it as MessageTypeGoogleV1.
type LegacyV1 struct {
	A                    *int32   `protobuf:"varint,1,opt,name=a" json:"a,omitempty"`
	S                    *string  `protobuf:"bytes,2,opt,name=s" json:"s,omitempty"`
	R                    []int64  `protobuf:"varint,3,rep,name=r" json:"r,omitempty"`
	B                    []byte   `protobuf:"bytes,4,opt,name=b" json:"b,omitempty"`
	XXX_NoUnkeyedLiteral struct{} `json:"-"`
	XXX_unrecognized     []byte   `json:"-"`
	XXX_sizecache        int32    `json:"-"`
}

func (m *LegacyV1) Reset()         { *m = LegacyV1{} }
func (m *LegacyV1) String() string { return protoV1.CompactTextString(m) }
func (*LegacyV1) ProtoMessage()    {}
func (m *LegacyV1) XXX_Size() int  { return protoV1.Size(m) }
func (m *LegacyV1) XXX_Marshal(b []byte, deterministic bool) ([]byte, error) {
	bb, err := protoV1.Marshal(m)
	return append(b, bb...), err
}
func (m *LegacyV1) XXX_Unmarshal(b []byte) error { return protoV1.Unmarshal(b, m) }

// LegacyPlain: the same without XXX_ methods (only the v1 message interface)
type LegacyPlain struct {
	A *int32 `protobuf:"varint,1,opt,name=a" json:"a,omitempty"`
}

func (m *LegacyPlain) Reset()         { *m = LegacyPlain{} }
func (m *LegacyPlain) String() string { return protoV1.CompactTextString(m) }
func (*LegacyPlain) ProtoMessage()    {}

// OwnCodec only implements csproto's own interfaces; no runtime knows it.
type OwnCodec struct {
	b     []byte
	calls []string
}

func (o *OwnCodec) Size() int { o.calls = append(o.calls, "Size"); return len(o.b) }
func (o *OwnCodec) Marshal() ([]byte, error) {
	o.calls = append(o.calls, "Marshal")
	return append([]byte{}, o.b...), nil
}
func (o *OwnCodec) Unmarshal(p []byte) error {
	o.calls = append(o.calls, "Unmarshal")
	o.b = append([]byte{}, p...)
	return nil
}

// TextOnly implements encoding.TextMarshaler and nothing else.
type TextOnly struct{ s string }

func (t TextOnly) MarshalText() ([]byte, error) { return []byte(t.s), nil }

var errText = errors.New("text failure")

type TextFails struct{}

func (TextFails) MarshalText() ([]byte, error) { return nil, errText }

// ResetOnly has a Reset method and is otherwise not a message.
type ResetOnly struct{ n int }

func (r *ResetOnly) Reset() { r.n = 0 }

var _ = fmt.Sprint
