// Command tools: correspondence cases and oracles for C20 (prototest.ParseAnnotatedHex and the
// protodump binary built from /repo's working tree).
package main

import (
	"bytes"
	"flag"
	"fmt"
	"io"
	"os"
	"os/exec"
	"strconv"
	"strings"
	"unicode"

	"github.com/CrowdStrike/csproto/prototest"
	"google.golang.org/protobuf/encoding/protowire"
	"verif/harness/internal/hx"
)

var (
	sink     *hx.Sink
	thorough bool
	dumpBin  string
	scratch  string
)

func fail(what, cs, exp, got, class string) {
	sink.Fail(hx.Failure{Property: "C20", Kind: "oracle", What: what, Case: cs, Expected: exp, Got: got, Class: class})
}

// ---------------------------------------------------------------------------------------------
// annotated hex

var spaces = []rune{' ', '\t', '\r', '\v', '\f', 0x85, 0xA0, 0x1680, 0x2000, 0x2003, 0x200A, 0x2028, 0x2029, 0x202F, 0x205F, 0x3000}

func runesLine(rs []rune) string {
	if len(rs) == 0 {
		return "-"
	}
	s := make([]string, len(rs))
	for i, c := range rs {
		s[i] = strconv.FormatInt(int64(c), 16)
	}
	return strings.Join(s, ",")
}

// the harness's own reading of the format (independent of the Go code and of the Coq model):
// bytes denoted by hex digits outside comments; ok=false when anything else is significant or a
// line holds an odd number of digits
func hexOracle(rs []rune) ([]byte, bool) {
	var out []byte
	inComment := false
	var line []rune
	flush := func() bool {
		if len(line)%2 != 0 {
			return false
		}
		for i := 0; i < len(line); i += 2 {
			h, ok1 := hexv(line[i])
			l, ok2 := hexv(line[i+1])
			if !ok1 || !ok2 {
				return false
			}
			out = append(out, byte(h<<4|l))
		}
		line = line[:0]
		return true
	}
	for _, c := range rs {
		switch {
		case c == '\n':
			inComment = false
			if !flush() {
				return nil, false
			}
		case inComment:
		case c == ';':
			inComment = true
		case unicode.IsSpace(c):
		default:
			line = append(line, c)
		}
	}
	if !flush() {
		return nil, false
	}
	return out, true
}

func hexv(c rune) (int, bool) {
	switch {
	case c >= '0' && c <= '9':
		return int(c - '0'), true
	case c >= 'a' && c <= 'f':
		return int(c-'a') + 10, true
	case c >= 'A' && c <= 'F':
		return int(c-'A') + 10, true
	}
	return 0, false
}

func randSpace(r *hx.Rng, allowNL bool) rune {
	if allowNL && r.Intn(4) == 0 {
		return '\n'
	}
	if r.Intn(3) == 0 {
		return spaces[r.Intn(len(spaces))]
	}
	return []rune{' ', '\t'}[r.Intn(2)]
}

func randCommentText(r *hx.Rng) []rune {
	n := r.Intn(12)
	out := make([]rune, n)
	pool := []rune("tag=1, len 0x1F; é✓ \"foo\" ABCDEF0123 zz;;\t")
	for i := range out {
		out[i] = pool[r.Intn(len(pool))]
	}
	return out
}

func layout(r *hx.Rng, data []byte) []rune {
	var out []rune
	digits := "0123456789abcdef"
	DIGITS := "0123456789ABCDEF"
	dig := func(v byte) rune {
		if r.Bool() {
			return rune(digits[v])
		}
		return rune(DIGITS[v])
	}
	filler := func() {
		for k := r.Intn(3); k > 0; k-- {
			switch r.Intn(5) {
			case 0:
				out = append(out, ';')
				out = append(out, randCommentText(r)...)
				out = append(out, '\n')
			default:
				out = append(out, randSpace(r, true))
			}
		}
	}
	filler()
	for _, b := range data {
		out = append(out, dig(b>>4))
		for k := r.Intn(3) / 2 * (1 + r.Intn(2)); k > 0; k-- { // occasionally white space between the two digits
			out = append(out, randSpace(r, false))
		}
		out = append(out, dig(b&15))
		filler()
	}
	if r.Intn(3) == 0 { // last comment without a line break
		out = append(out, ';')
		out = append(out, randCommentText(r)...)
	}
	return out
}

func hexCase(stream string, rs []rune, s string) {
	got, err := func() (b []byte, err error) {
		defer func() {
			if x := recover(); x != nil {
				err = fmt.Errorf("PANIC %v", x)
			}
		}()
		return prototest.ParseAnnotatedHex(s)
	}()
	impl := "err"
	if err == nil {
		impl = "ok " + hx.B(got)
	}
	if stream != "hex-longline" {
		// (the extracted model works on unary positions and needs minutes for a 64 KiB line: those cases are judged
		// by the independent reading below only)
		sink.Add(stream, "H PARSE "+runesLine(rs), impl, len(rs) > 0)
	} else {
		sink.Count("stream:hex-longline(oracle only)")
	}
	sink.OracleN++
	if err != nil && strings.HasPrefix(err.Error(), "PANIC") {
		fail("ParseAnnotatedHex panicked", runesLine(rs), "value or error", err.Error(), "hex-panic")
		return
	}
	want, ok := hexOracle(rs)
	switch {
	case ok && err != nil:
		fail("ParseAnnotatedHex rejected text made only of hex digits, white space and comments", strconv.Quote(s), hx.B(want), err.Error(), "hex-reject")
	case ok && !bytes.Equal(got, want):
		fail("ParseAnnotatedHex returned other bytes than the hex digits outside comments denote", strconv.Quote(s), hx.B(want), hx.B(got), "hex-value")
	case !ok && err == nil:
		fail("ParseAnnotatedHex accepted text containing something other than hex digits, white space and comments", strconv.Quote(s), "error", hx.B(got), "hex-accept")
	}
}

func streamHex(r *hx.Rng) {
	n := 1500
	if thorough {
		n = 20000
	}
	for i := 0; i < n; i++ {
		data := r.Bytes(r.Intn(24))
		if i%50 == 0 {
			data = r.Bytes(200)
		}
		rs := layout(r, data)
		hexCase("hex-layout", rs, string(rs))
		// corruptions
		if len(rs) > 0 {
			m := append([]rune{}, rs...)
			j := r.Intn(len(m))
			switch r.Intn(6) {
			case 0:
				// (incl. runes whose LOW BYTE is an ASCII hex digit or blank: U+0130, U+0141, U+0446, U+4E38, U+0120, U+010A)
				m[j] = []rune{'g', 'x', 'G', '-', 'é', 0x200B, ':', '/', '@', '`', 0x0130, 0x0141, 0x0446, 0x4E38, 0x0120, 0x010A, 0x0161, 0x3B}[r.Intn(18)]
			case 1:
				m = append(m[:j], m[j+1:]...) // drop one character
			case 2:
				m = append(m[:j], append([]rune{'\n'}, m[j:]...)...) // line break anywhere
			case 3:
				m = append(m[:j], append([]rune{';'}, m[j:]...)...) // comment anywhere
			case 4:
				m = append(m[:j], append([]rune{rune(digitsAll[r.Intn(len(digitsAll))])}, m[j:]...)...) // extra digit
			case 5:
				m[j] = spaces[r.Intn(len(spaces))]
			}
			hexCase("hex-corrupt", m, string(m))
		}
	}
	// invalid UTF-8: Go reads each bad byte as U+FFFD
	for i := 0; i < 50; i++ {
		b := []byte(string(layout(r, r.Bytes(4))))
		b = append(b, byte(0x80+r.Intn(0x40)))
		b = append(b, []byte(" 0A")...)
		s := string(b)
		hexCase("hex-badutf8", []rune(s), s)
	}
	for _, s := range []string{"", "\n", ";", ";\n", " ", "0", "0\n0", "00", "0 0", "0;0\n", "zz", "0g", "\n\n0a\n\n", "0A;\n;0B\n0C"} {
		hexCase("hex-edge", []rune(s), s)
	}
	// very long lines (no line-length limit is documented): a data line of more than 64 KiB, a short data line with a
	// comment of more than 64 KiB, a long line in the middle of short ones, and garbage after a long line
	long := strings.Repeat("a5 ", 22000)
	for _, s := range []string{long, "01 02\n" + long + "\n03", "0a ; " + strings.Repeat("c", 70000) + "\n0b", strings.Repeat("7f", 33000) + "\nzz",
		strings.Repeat("7f", 33000) + "\n0", long + ";x\n" + long} {
		hexCase("hex-longline", []rune(s), s)
	}
}

const digitsAll = "0123456789abcdefABCDEF"

// ---------------------------------------------------------------------------------------------
// protodump

type tree struct {
	num  int
	wt   int // 0,1,5,2
	v    uint64
	b    []byte
	kids []*tree // wt 2 with children = nested message
	str  bool    // requested through -strings
	exp  bool    // requested through -expand (has children)
}

func (t *tree) enc() []byte {
	switch t.wt {
	case 0:
		return protowire.AppendVarint(protowire.AppendTag(nil, protowire.Number(t.num), protowire.VarintType), t.v)
	case 1:
		return protowire.AppendFixed64(protowire.AppendTag(nil, protowire.Number(t.num), protowire.Fixed64Type), t.v)
	case 5:
		return protowire.AppendFixed32(protowire.AppendTag(nil, protowire.Number(t.num), protowire.Fixed32Type), uint32(t.v))
	}
	return protowire.AppendBytes(protowire.AppendTag(nil, protowire.Number(t.num), protowire.BytesType), t.payload())
}
func (t *tree) payload() []byte {
	if t.kids == nil {
		return t.b
	}
	var p []byte
	for _, k := range t.kids {
		p = append(p, k.enc()...)
	}
	return p
}

var dumpTags = []int{1, 2, 3, 15, 16, 2047, 2048, 1<<18 - 1, 1 << 18, 1<<25 - 1, 1 << 25, 1 << 26, 1<<29 - 1}

func randTree(r *hx.Rng, depth int) *tree {
	t := &tree{num: dumpTags[r.Intn(len(dumpTags))]}
	switch r.Intn(5) {
	case 0:
		t.wt = 0
		t.v = []uint64{0, 1, 150, 1<<63 - 1, 1 << 63, ^uint64(0), r.U64()}[r.Intn(7)]
	case 1:
		t.wt, t.v = 1, r.U64()
	case 2:
		t.wt, t.v = 5, uint64(uint32(r.U64()))
	case 3:
		t.wt = 2
		if r.Bool() {
			t.str = true
			pool := "héllo wörld\n✓ [0x00] tag: 1, wire type: varint%d%s%!%v\\\"\t"
			rs := []rune(pool)
			n := r.Intn(10)
			var sb strings.Builder
			for i := 0; i < n; i++ {
				sb.WriteRune(rs[r.Intn(len(rs))])
			}
			t.b = []byte(sb.String())
		} else {
			t.b = r.Bytes(r.Intn(9))
		}
	case 4:
		t.wt = 2
		if depth > 0 {
			t.exp = true
			t.kids = []*tree{}
			for k := r.Intn(4); k > 0; k-- {
				t.kids = append(t.kids, randTree(r, depth-1))
			}
		} else {
			t.b = r.Bytes(r.Intn(5))
		}
	}
	return t
}

// randSpine: an expanded message with 2-4 fields, one of which is again such a message, depth levels deep; the others
// are leaves (varint, fixed, string, bytes) from randTree
func randSpine(r *hx.Rng, depth int) *tree {
	t := &tree{num: dumpTags[r.Intn(6)], wt: 2, exp: true, kids: []*tree{}}
	nk := 2 + r.Intn(3)
	at := r.Intn(nk)
	for k := 0; k < nk; k++ {
		if k == at && depth > 1 {
			t.kids = append(t.kids, randSpine(r, depth-1))
		} else {
			t.kids = append(t.kids, randTree(r, 0))
		}
	}
	return t
}

// expected records, computed from the tree alone
func (t *tree) records(indent int, out *[]string) {
	switch t.wt {
	case 0:
		*out = append(*out, fmt.Sprintf("V%d:%d:%s", indent, t.num, hx.I(int64(t.v))))
	case 1:
		*out = append(*out, fmt.Sprintf("D%d:%d:%s", indent, t.num, hx.U(t.v)))
	case 5:
		*out = append(*out, fmt.Sprintf("F%d:%d:%s", indent, t.num, hx.U(t.v)))
	case 2:
		if t.str {
			*out = append(*out, fmt.Sprintf("S%d:%d:%s", indent, t.num, hx.B(t.payload())))
			return
		}
		*out = append(*out, fmt.Sprintf("B%d:%d:%s", indent, t.num, hx.B(t.payload())))
		if t.exp {
			for _, k := range t.kids {
				k.records(indent+1, out)
			}
		}
	}
}

func collectPaths(ts []*tree, prefix []int, exp, str *[][]int) {
	for _, t := range ts {
		p := append(append([]int{}, prefix...), t.num)
		if t.exp {
			*exp = append(*exp, p)
			collectPaths(t.kids, p, exp, str)
		}
		if t.str {
			*str = append(*str, p)
		}
	}
}

// consistent: no two fields share a path with different roles (paths are by number, not by position)
func consistent(ts []*tree, prefix string, role map[string]string) bool {
	for _, t := range ts {
		p := prefix + "." + strconv.Itoa(t.num)
		rl := "leaf"
		if t.wt == 2 {
			switch {
			case t.exp:
				rl = "exp"
			case t.str:
				rl = "str"
			default:
				rl = "bytes"
			}
		}
		if prev, ok := role[p]; ok && prev != rl && (prev != "leaf" && rl != "leaf") {
			return false
		}
		if _, ok := role[p]; !ok || rl != "leaf" {
			role[p] = rl
		}
		if t.exp && !consistent(t.kids, p, role) {
			return false
		}
	}
	return true
}

func pathsArg(ps [][]int) string {
	s := make([]string, len(ps))
	for i, p := range ps {
		q := make([]string, len(p))
		for j, x := range p {
			q[j] = strconv.Itoa(x)
		}
		s[i] = strings.Join(q, ".")
	}
	return strings.Join(s, ",")
}
func pathsModel(ps [][]int) string {
	if len(ps) == 0 {
		return "-"
	}
	return pathsArg(ps)
}

// parse protodump's stdout back into records
func parseDump(out []byte) ([]string, bool) {
	var recs []string
	i := 0
	readLine := func() (string, bool) {
		j := bytes.IndexByte(out[i:], '\n')
		if j < 0 {
			return "", false
		}
		l := string(out[i : i+j])
		i += j + 1
		return l, true
	}
	for i < len(out) {
		l, ok := readLine()
		if !ok {
			return recs, false
		}
		ind := 0
		for strings.HasPrefix(l[2*ind:], "  ") {
			ind++
		}
		body := l[2*ind:]
		var tag int
		var wt string
		if !strings.HasPrefix(body, "tag: ") {
			return recs, false
		}
		parts := strings.SplitN(body[5:], ", wire type: ", 2)
		if len(parts) != 2 {
			return recs, false
		}
		tag, _ = strconv.Atoi(parts[0])
		wt = parts[1]
		if i >= len(out) { // header only
			recs = append(recs, fmt.Sprintf("H%d:%d:%s", ind, tag, wt))
			break
		}
		save := i
		v, ok := readLine()
		pfx := strings.Repeat("  ", ind+1)
		if !ok || !strings.HasPrefix(v, pfx) {
			i = save
			recs = append(recs, fmt.Sprintf("H%d:%d:%s", ind, tag, wt))
			continue
		}
		v = v[len(pfx):]
		switch {
		case wt == "varint" && strings.HasPrefix(v, "varint: "):
			x, err := strconv.ParseInt(v[8:], 10, 64)
			if err != nil {
				return recs, false
			}
			recs = append(recs, fmt.Sprintf("V%d:%d:%s", ind, tag, hx.I(x)))
		case wt == "fixed32" && strings.HasPrefix(v, "fixed32: "):
			x, err := strconv.ParseUint(v[9:], 10, 32)
			if err != nil {
				return recs, false
			}
			recs = append(recs, fmt.Sprintf("F%d:%d:%s", ind, tag, hx.U(x)))
		case wt == "fixed64" && strings.HasPrefix(v, "fixed64: "):
			x, err := strconv.ParseUint(v[9:], 10, 64)
			if err != nil {
				return recs, false
			}
			recs = append(recs, fmt.Sprintf("D%d:%d:%s", ind, tag, hx.U(x)))
		case wt == "length-delimited" && strings.HasPrefix(v, "length: "):
			n, _ := strconv.Atoi(v[8:])
			if bytes.HasPrefix(out[i:], []byte(pfx+"string: ")) {
				i += len(pfx) + 8
				if i+n+1 > len(out) || out[i+n] != '\n' {
					return recs, false
				}
				recs = append(recs, fmt.Sprintf("S%d:%d:%s", ind, tag, hx.B(out[i:i+n])))
				i += n + 1
			} else {
				bl, ok := readLine()
				if !ok || !strings.HasPrefix(bl, pfx+"[") || !strings.HasSuffix(bl, "]") {
					return recs, false
				}
				inner := bl[len(pfx)+1 : len(bl)-1]
				var bs []byte
				if inner != "" {
					for _, x := range strings.Split(inner, ",") {
						u, err := strconv.ParseUint(strings.TrimPrefix(x, "0x"), 16, 8)
						if err != nil {
							return recs, false
						}
						bs = append(bs, byte(u))
					}
				}
				if len(bs) != n {
					return recs, false
				}
				recs = append(recs, fmt.Sprintf("B%d:%d:%s", ind, tag, hx.B(bs)))
			}
		default:
			i = save
			recs = append(recs, fmt.Sprintf("H%d:%d:%s", ind, tag, wt))
		}
	}
	return recs, true
}

// run the real binary; how = file | redirect | pipe
func runDump(input []byte, exp, str [][]int, how int) (recs []string, status string, raw string) {
	f := scratch + "/in.bin"
	hx.Must(os.WriteFile(f, input, 0o644))
	var args []string
	if len(exp) > 0 {
		args = append(args, "-expand", pathsArg(exp))
	}
	if len(str) > 0 {
		// several -strings flags accumulate
		for _, p := range str {
			args = append(args, "-strings", pathsArg([][]int{p}))
		}
	}
	var cmd *exec.Cmd
	switch how {
	case 0:
		cmd = exec.Command(dumpBin, append(args, "-file", f)...)
	case 1:
		cmd = exec.Command(dumpBin, args...)
		fh, err := os.Open(f)
		hx.Must(err)
		defer fh.Close()
		cmd.Stdin = fh
	default:
		cmd = exec.Command(dumpBin, args...)
		cmd.Stdin = bytes.NewReader(input) // exec connects a pipe
	}
	var so, se bytes.Buffer
	cmd.Stdout, cmd.Stderr = &so, &se
	err := cmd.Run()
	status = "ok"
	if err != nil {
		status = "err"
		if ee, ok := err.(*exec.ExitError); ok && (ee.ExitCode() == 2 || strings.Contains(se.String(), "panic:") || strings.Contains(se.String(), "goroutine ")) {
			status = "panic"
		}
	}
	recs, okp := parseDump(so.Bytes())
	if !okp {
		status += "+unparsable"
	}
	return recs, status, so.String() + se.String()
}

func dumpLine(input []byte, exp, str [][]int) string {
	return fmt.Sprintf("D DUMP %s %s %s", pathsModel(exp), pathsModel(str), hx.B(input))
}

func streamDump(r *hx.Rng) {
	n := 250
	if thorough {
		n = 3000
	}
	for i := 0; i < n; i++ {
		var ts []*tree
		for {
			ts = ts[:0]
			for k := 1 + r.Intn(5); k > 0; k-- {
				ts = append(ts, randTree(r, 2))
			}
			if i%4 == 3 {
				// deep nesting, every level expanded, sibling string / bytes / message fields at every depth
				ts = append(ts[:r.Intn(2)], randSpine(r, []int{3, 4, 5, 6, 7, 8, 10, 12, 16}[(i/4)%9]))
			}
			if consistent(ts, "", map[string]string{}) {
				break
			}
		}
		var input []byte
		for _, t := range ts {
			input = append(input, t.enc()...)
		}
		var exp, str [][]int
		collectPaths(ts, nil, &exp, &str)
		how := i % 3
		recs, status, raw := runDump(input, exp, str, how)
		impl := strings.TrimSpace(strings.Join(recs, " ") + " " + status)
		sink.Add("dump-valid", dumpLine(input, exp, str), impl, true)
		sink.Count(fmt.Sprintf("dump-how:%d", how))
		sink.OracleN++
		var want []string
		for _, t := range ts {
			t.records(0, &want)
		}
		if status != "ok" || strings.Join(recs, " ") != strings.Join(want, " ") {
			cls := "dump-records"
			if strings.HasPrefix(status, "panic") {
				cls = "dump-panic"
			} else if status != "ok" && how == 2 {
				cls = "dump-pipe"
			}
			fail("protodump output differs from the reference fields", fmt.Sprintf("input=%s expand=%s strings=%s via=%d", hx.B(input), pathsArg(exp), pathsArg(str), how),
				strings.Join(want, " ")+" ok", impl+"  raw="+strconv.Quote(raw), cls)
		}
		// malformed variants: truncation and mutation; must be an error or a dump, never a crash
		for v := 0; v < 4 && len(input) > 0; v++ {
			m := append([]byte{}, input...)
			if v%2 == 0 {
				m = m[:r.Intn(len(m))]
			} else {
				j := r.Intn(len(m))
				m[j] = []byte{m[j] + 1, m[j] ^ 0x80, 0xFF, 0x00, m[j] | 7, m[j]&0xF8 | 3}[r.Intn(6)]
			}
			if len(m) == 0 {
				continue
			}
			recs, status, raw := runDump(m, exp, str, 0)
			sink.Add("dump-malformed", dumpLine(m, exp, str), strings.TrimSpace(strings.Join(recs, " ")+" "+status), true)
			sink.OracleN++
			sink.Count("dump-status:" + status)
			if strings.HasPrefix(status, "panic") || strings.Contains(status, "unparsable") {
				fail("protodump crashed or printed garbage on malformed input", fmt.Sprintf("input=%s expand=%s strings=%s", hx.B(m), pathsArg(exp), pathsArg(str)), "error or dump", status+" raw="+strconv.Quote(raw), "dump-panic")
			}
			// an input that ends in the middle of a top-level field (key or value cut short) is malformed: an error
			if status == "ok" && topLevelTruncated(m) {
				fail("protodump reported success on an input that ends in the middle of a field", fmt.Sprintf("input=%s expand=%s strings=%s", hx.B(m), pathsArg(exp), pathsArg(str)),
					"error", status+" raw="+strconv.Quote(raw), "dump-accept-truncated")
			}
			// whatever it printed before stopping must be a prefix-consistent reading: top-level records
			// equal what protowire finds, field by field, until the first malformed field
			if !strings.Contains(status, "unparsable") {
				checkTopLevel(m, recs)
			}
		}
	}
}

// the input ends inside a top-level key or value (per protowire)
func topLevelTruncated(p []byte) bool {
	for len(p) > 0 {
		num, typ, n := protowire.ConsumeTag(p)
		if n < 0 {
			return protowire.ParseError(n) == io.ErrUnexpectedEOF
		}
		k := protowire.ConsumeFieldValue(num, typ, p[n:])
		if k < 0 {
			return protowire.ParseError(k) == io.ErrUnexpectedEOF
		}
		p = p[n+k:]
	}
	return false
}

// the top-level (indent 0) records, in order, must agree with protowire on number, wire type, value
func checkTopLevel(input []byte, recs []string) {
	p := input
	for _, rc := range recs {
		if len(rc) < 2 || rc[1] != '0' {
			continue
		}
		num, typ, n := protowire.ConsumeTag(p)
		if n < 0 {
			// malformed from here on (e.g. field number 0, which csproto's DecodeTag lets through): the
			// property only asks for an error or a dump, not for a particular rendering
			return
		}
		p = p[n:]
		f := strings.SplitN(rc[1:], ":", 3)
		if f[1] != strconv.Itoa(int(num)) {
			fail("protodump printed another field number than the reference", hx.B(input), strconv.Itoa(int(num)), rc, "dump-records")
			return
		}
		switch rc[0] {
		case 'H':
			return
		case 'V':
			v, m := protowire.ConsumeVarint(p)
			if typ != protowire.VarintType || m < 0 || f[2] != hx.I(int64(v)) {
				// csproto drops bits >= 64 of a 10-byte varint, protowire rejects them: not comparable
				if m >= 0 {
					fail("protodump varint differs from the reference", hx.B(input), strconv.FormatInt(int64(v), 10), rc, "dump-records")
				}
				return
			}
			p = p[m:]
		case 'F':
			v, m := protowire.ConsumeFixed32(p)
			if typ != protowire.Fixed32Type || m < 0 || f[2] != hx.U(uint64(v)) {
				fail("protodump fixed32 differs from the reference", hx.B(input), "", rc, "dump-records")
				return
			}
			p = p[m:]
		case 'D':
			v, m := protowire.ConsumeFixed64(p)
			if typ != protowire.Fixed64Type || m < 0 || f[2] != hx.U(v) {
				fail("protodump fixed64 differs from the reference", hx.B(input), "", rc, "dump-records")
				return
			}
			p = p[m:]
		case 'B', 'S':
			v, m := protowire.ConsumeBytes(p)
			if typ != protowire.BytesType || m < 0 || f[2] != hx.B(v) {
				if m >= 0 {
					fail("protodump bytes differ from the reference", hx.B(input), hx.B(v), rc, "dump-records")
				}
				return
			}
			p = p[m:]
		}
	}
}

func main() {
	out := flag.String("out", "", "output directory")
	tier := flag.String("tier", "quick", "quick|thorough")
	flag.StringVar(&dumpBin, "protodump", "", "path of the protodump binary built from /repo")
	seed := flag.Uint64("seed", hx.SeedFromEnv(), "seed")
	flag.Parse()
	thorough = *tier == "thorough"
	sink = hx.NewSink()
	scratch = *out + "/scratch"
	hx.Must(os.MkdirAll(scratch, 0o755))
	r := hx.NewRng(*seed).Fork("C20")
	streamHex(r.Fork("hex"))
	streamDump(r.Fork("dump"))
	hx.Must(sink.Write(*out))
	os.RemoveAll(scratch)
}
