// Package pbrender renders any protobuf message, through protoreflect only, into the canonical value
// text shared by the harness, the generated-code driver and the Coq model runner:
//
//	msg   := "(" field (";" field)* [";u=" hex] ")"     populated fields by ascending number
//	field := number "=" val
//	val   := "n" hexint | "b" hex | "[" val ("," val)* "]" | "{" val ":" val ("," ...)* "}" | msg
//
// bool = n0/n1, enums and signed integers are signed hexadecimal, floats their IEEE bit patterns,
// strings and bytes hexadecimal ("-" when empty), map entries sorted by key.
package pbrender

import (
	"encoding/hex"
	"math"
	"sort"
	"strconv"
	"strings"

	"google.golang.org/protobuf/reflect/protoreflect"
)

// exported scalar helpers for callers that render values themselves
func Int(v int64) string    { return "n" + hexI(v) }
func Uint(v uint64) string  { return "n" + strconv.FormatUint(v, 16) }
func Bytes(b []byte) string { return "b" + hexB(b) }

func hexI(v int64) string {
	if v < 0 {
		return "-" + strconv.FormatUint(uint64(-(v+1))+1, 16)
	}
	return strconv.FormatUint(uint64(v), 16)
}
func hexB(b []byte) string {
	if len(b) == 0 {
		return "-"
	}
	return hex.EncodeToString(b)
}

func scalar(fd protoreflect.FieldDescriptor, v protoreflect.Value) string {
	switch fd.Kind() {
	case protoreflect.BoolKind:
		if v.Bool() {
			return "n1"
		}
		return "n0"
	case protoreflect.EnumKind:
		return "n" + hexI(int64(v.Enum()))
	case protoreflect.Int32Kind, protoreflect.Sint32Kind, protoreflect.Sfixed32Kind, protoreflect.Int64Kind, protoreflect.Sint64Kind, protoreflect.Sfixed64Kind:
		return "n" + hexI(v.Int())
	case protoreflect.Uint32Kind, protoreflect.Fixed32Kind, protoreflect.Uint64Kind, protoreflect.Fixed64Kind:
		return "n" + strconv.FormatUint(v.Uint(), 16)
	case protoreflect.FloatKind:
		return "n" + strconv.FormatUint(uint64(math.Float32bits(float32(v.Float()))), 16)
	case protoreflect.DoubleKind:
		return "n" + strconv.FormatUint(math.Float64bits(v.Float()), 16)
	case protoreflect.StringKind:
		return "b" + hexB([]byte(v.String()))
	case protoreflect.BytesKind:
		return "b" + hexB(v.Bytes())
	case protoreflect.MessageKind, protoreflect.GroupKind:
		return Message(v.Message())
	}
	return "?"
}

// ExtraFields, when set, supplies for every message rendered (at any depth) the fields its reflective view
// cannot see (gogo keeps proto2 extensions outside what protobuf-go's legacy wrapper reads).
var ExtraFields func(m protoreflect.Message) map[int]string

// Message renders m.
func Message(m protoreflect.Message) string {
	if ExtraFields != nil {
		return MessageExtra(m, ExtraFields(m))
	}
	return MessageExtra(m, nil)
}

// MessageExtra renders m plus fields the reflective view cannot see (gogo extensions), given as
// number -> rendered value.
func MessageExtra(m protoreflect.Message, extra map[int]string) string {
	type kv struct {
		num int
		s   string
	}
	var fs []kv
	for n, v := range extra {
		fs = append(fs, kv{n, strconv.Itoa(n) + "=" + v})
	}
	m.Range(func(fd protoreflect.FieldDescriptor, v protoreflect.Value) bool {
		var s string
		switch {
		case fd.IsMap():
			type ent struct{ k, v string }
			var es []ent
			v.Map().Range(func(k protoreflect.MapKey, mv protoreflect.Value) bool {
				es = append(es, ent{scalar(fd.MapKey(), k.Value()), scalar(fd.MapValue(), mv)})
				return true
			})
			sort.Slice(es, func(i, j int) bool { return es[i].k < es[j].k })
			parts := make([]string, len(es))
			for i, e := range es {
				parts[i] = e.k + ":" + e.v
			}
			s = "{" + strings.Join(parts, ",") + "}"
		case fd.IsList():
			l := v.List()
			parts := make([]string, l.Len())
			for i := range parts {
				parts[i] = scalar(fd, l.Get(i))
			}
			s = "[" + strings.Join(parts, ",") + "]"
		default:
			s = scalar(fd, v)
		}
		fs = append(fs, kv{int(fd.Number()), strconv.Itoa(int(fd.Number())) + "=" + s})
		return true
	})
	sort.Slice(fs, func(i, j int) bool { return fs[i].num < fs[j].num })
	parts := make([]string, 0, len(fs)+1)
	for _, f := range fs {
		parts = append(parts, f.s)
	}
	if u := m.GetUnknown(); len(u) > 0 {
		parts = append(parts, "u="+hex.EncodeToString(u))
	}
	return "(" + strings.Join(parts, ";") + ")"
}
