// Package gendriver is linked, together with the freshly generated message packages of one
// generator variant, into a driver binary.  It executes the GENERATED Size / Marshal / MarshalTo /
// Unmarshal methods (never the runtime's) on request and reports projected observables, one line per
// request.  Messages are populated and read back through the owning runtime's table-driven code and
// protoreflect only, so that what is observed is independent of the generated methods.
package gendriver

import (
	"bufio"
	"bytes"
	"encoding/hex"
	"fmt"
	"math"
	"os"
	"reflect"
	"runtime"
	"strconv"
	"strings"

	gogoproto "github.com/gogo/protobuf/proto"
	"google.golang.org/protobuf/proto"
	"google.golang.org/protobuf/reflect/protoreflect"
	"google.golang.org/protobuf/reflect/protoregistry"
	"google.golang.org/protobuf/runtime/protoimpl"

	"verif/harness/pbrender"
)

type sizer interface{ Size() int }
type marshaler interface{ Marshal() ([]byte, error) }
type marshalerTo interface{ MarshalTo([]byte) error }
type unmarshaler interface{ Unmarshal([]byte) error }

var runtimeName string

func unhex(s string) []byte {
	if s == "-" || s == "" {
		return nil
	}
	b, err := hex.DecodeString(s)
	if err != nil {
		panic("driver: bad hex " + s)
	}
	return b
}
func hx(b []byte) string {
	if len(b) == 0 {
		return "-"
	}
	return hex.EncodeToString(b)
}

// newMessage creates an empty message of the named type.
func newMessage(full string) (interface{}, error) {
	if runtimeName == "gogo" {
		t := gogoproto.MessageType(full)
		if t == nil {
			return nil, fmt.Errorf("unknown gogo message %s", full)
		}
		return reflect.New(t.Elem()).Interface(), nil
	}
	mt, err := protoregistry.GlobalTypes.FindMessageByName(protoreflect.FullName(full))
	if err != nil {
		return nil, err
	}
	return mt.New().Interface(), nil
}

// reflective view (works for gogo structs through the legacy wrapper)
func reflectOf(m interface{}) protoreflect.Message {
	if pm, ok := m.(proto.Message); ok {
		return pm.ProtoReflect()
	}
	return protoimpl.X.ProtoMessageV2Of(m).ProtoReflect()
}

// populate m from canonical wire bytes with the RUNTIME's table-driven unmarshal
func populate(m interface{}, b []byte) error {
	if runtimeName == "gogo" {
		type xu interface{ XXX_Unmarshal([]byte) error }
		if x, ok := m.(xu); ok {
			err := x.XXX_Unmarshal(b)
			// a missing required field is reported but the message is populated: that is what we want
			if e, ok := err.(interface{ RequiredNotSet() bool }); ok && e.RequiredNotSet() {
				return nil
			}
			return err
		}
		return fmt.Errorf("gogo message without XXX_Unmarshal")
	}
	return proto.UnmarshalOptions{AllowPartial: true, Merge: true}.Unmarshal(b, m.(proto.Message))
}

// render a message; gogo keeps extensions where the reflective (legacy) view does not look, so they are
// fetched through gogo's own API (pbrender.ExtraFields hook, installed by Main for the gogo runtime)
func render(m interface{}) string { return pbrender.Message(reflectOf(m)) }

func gogoExtras(rm protoreflect.Message) (extra map[int]string) {
	extra = map[int]string{}
	defer func() { recover() }() // not an extendable message
	gm, ok := protoimpl.X.ProtoMessageV1Of(rm.Interface()).(gogoproto.Message)
	if !ok {
		return
	}
	for num, desc := range gogoproto.RegisteredExtensions(gm) {
		if !gogoproto.HasExtension(gm, desc) {
			continue
		}
		v, err := gogoproto.GetExtension(gm, desc)
		if err != nil {
			extra[int(num)] = "?err"
			continue
		}
		switch x := v.(type) {
		case *int32:
			extra[int(num)] = pbrender.Int(int64(*x))
		case *int64:
			extra[int(num)] = pbrender.Int(*x)
		case *uint32:
			extra[int(num)] = pbrender.Uint(uint64(*x))
		case *uint64:
			extra[int(num)] = pbrender.Uint(*x)
		case *bool:
			if *x {
				extra[int(num)] = "n1"
			} else {
				extra[int(num)] = "n0"
			}
		case *string:
			extra[int(num)] = pbrender.Bytes([]byte(*x))
		case []byte:
			extra[int(num)] = pbrender.Bytes(x)
		case *float64:
			extra[int(num)] = pbrender.Uint(math.Float64bits(*x))
		case *float32:
			extra[int(num)] = pbrender.Uint(uint64(math.Float32bits(*x)))
		default:
			if sub, ok := v.(gogoproto.Message); ok {
				extra[int(num)] = render(sub)
			} else {
				extra[int(num)] = "?" + fmt.Sprintf("%T", v)
			}
		}
	}
	return
}

func guard(f func() string) (out string) {
	defer func() {
		if x := recover(); x != nil {
			out = "panic"
		}
	}()
	return f()
}

// SM: size, marshal, marshal-to on a message populated from value bytes
func doSM(full string, value []byte) string {
	m, err := newMessage(full)
	if err != nil {
		return "driver-error " + err.Error()
	}
	if err := populate(m, value); err != nil {
		return "populate-error " + strings.ReplaceAll(err.Error(), " ", "_")
	}
	return sizeMarshal(m)
}

// US: the same on a message obtained from the GENERATED Unmarshal of the input (any legal encoding, not only the
// canonical one: what the decoder leaves behind in the message must not mislead Size / Marshal)
func doUS(full string, input []byte) string {
	m, err := newMessage(full)
	if err != nil {
		return "driver-error " + err.Error()
	}
	if r := guard(func() string {
		if err := m.(unmarshaler).Unmarshal(input); err != nil {
			return "uerr"
		}
		return ""
	}); r != "" {
		return r + " - - -"
	}
	return sizeMarshal(m)
}

func sizeMarshal(m interface{}) string {
	sz := -1
	s1 := guard(func() string {
		sz = m.(sizer).Size()
		return strconv.Itoa(sz)
	})
	s2 := guard(func() string {
		b, err := m.(marshaler).Marshal()
		if err != nil {
			return "err"
		}
		return hx(b)
	})
	s3 := guard(func() string {
		if sz < 0 {
			return "nosize"
		}
		buf := bytes.Repeat([]byte{0xA5}, sz)
		if err := m.(marshalerTo).MarshalTo(buf); err != nil {
			return "err"
		}
		return hx(buf)
	})
	// a second Size() after marshaling must agree (cache consistency)
	s4 := guard(func() string { return strconv.Itoa(m.(sizer).Size()) })
	return s1 + " " + s2 + " " + s3 + " " + s4
}

// UM: generated Unmarshal into a pre-populated destination; renders the result
func doUM(full string, input, prefill []byte) string {
	m, err := newMessage(full)
	if err != nil {
		return "driver-error " + err.Error()
	}
	if len(prefill) > 0 {
		if err := populate(m, prefill); err != nil {
			return "populate-error"
		}
	}
	return guard(func() string {
		// (each decode gets a private copy of the input: with enableunsafedecode the message may alias its input buffer)
		if err := m.(unmarshaler).Unmarshal(append([]byte(nil), input...)); err != nil {
			return "err"
		}
		first := render(m)
		// messages produced by Unmarshal share no mutable state: write through every pointer, slice and map of this one,
		// then decode the same input again into a fresh message - it must come out as before
		scribble(reflect.ValueOf(m), 0)
		m2, _ := newMessage(full)
		if err := m2.(unmarshaler).Unmarshal(append([]byte(nil), input...)); err != nil {
			return "ok " + first + " !second-decode-failed"
		}
		if second := render(m2); second != first {
			return "ok " + second + " !differs-after-an-earlier-decoded-message-was-modified-in-place"
		}
		return "ok " + first
	})
}

// scribble overwrites, in place, everything reachable from a decoded message through exported fields: the targets of
// scalar pointers, the elements of slices, the bytes of byte slices, the values of maps
func scribble(v reflect.Value, depth int) {
	if depth > 12 || !v.IsValid() {
		return
	}
	switch v.Kind() {
	case reflect.Ptr, reflect.Interface:
		if !v.IsNil() {
			scribble(v.Elem(), depth+1)
		}
	case reflect.Struct:
		for i := 0; i < v.NumField(); i++ {
			if v.Type().Field(i).PkgPath == "" { // exported
				scribble(v.Field(i), depth+1)
			}
		}
	case reflect.Slice:
		for i := 0; i < v.Len(); i++ {
			scribble(v.Index(i), depth+1)
		}
	case reflect.Map:
		for _, k := range v.MapKeys() {
			e := v.MapIndex(k)
			if e.Kind() == reflect.Ptr || e.Kind() == reflect.Slice {
				scribble(e, depth+1)
			}
		}
	case reflect.Bool:
		if v.CanSet() {
			v.SetBool(!v.Bool())
		}
	case reflect.Int32, reflect.Int64:
		if v.CanSet() {
			v.SetInt(v.Int() ^ 0x55)
		}
	case reflect.Uint8, reflect.Uint32, reflect.Uint64:
		if v.CanSet() {
			v.SetUint(v.Uint() ^ 0x55)
		}
	case reflect.Float32, reflect.Float64:
		if v.CanSet() {
			v.SetFloat(v.Float() + 1)
		}
	}
}

// UA: bytes allocated by the generated Unmarshal of the input, and by the owning runtime's own decoder for the same
// input into the same Go type (the yardstick for "in proportion to the input")
func doUA(full string, input []byte) string {
	measure := func(dec func(m interface{}) error) (string, uint64) {
		m, err := newMessage(full)
		if err != nil {
			return "driver-error", 0
		}
		var ms runtime.MemStats
		runtime.ReadMemStats(&ms)
		a0 := ms.TotalAlloc
		res := guard(func() string {
			if err := dec(m); err != nil {
				return "err"
			}
			return "ok"
		})
		runtime.ReadMemStats(&ms)
		return res, ms.TotalAlloc - a0
	}
	r1, a1 := measure(func(m interface{}) error { return m.(unmarshaler).Unmarshal(input) })
	r2, a2 := measure(func(m interface{}) error {
		if runtimeName == "gogo" {
			return m.(interface{ XXX_Unmarshal([]byte) error }).XXX_Unmarshal(input)
		}
		return (proto.UnmarshalOptions{}).Unmarshal(input, m.(proto.Message))
	})
	return fmt.Sprintf("%s %d %s %d", r1, a1, r2, a2)
}

// RU: the owning RUNTIME's own Unmarshal into the same generated Go type (its table-driven / fast-path decoder,
// not the generated method), rendered like UM: the most literal "reference runtime" for this type
func doRU(full string, input []byte) string {
	m, err := newMessage(full)
	if err != nil {
		return "driver-error " + err.Error()
	}
	return guard(func() string {
		if runtimeName == "gogo" {
			type xu interface{ XXX_Unmarshal([]byte) error }
			x, ok := m.(xu)
			if !ok {
				return "driver-error no XXX_Unmarshal"
			}
			if err := x.XXX_Unmarshal(input); err != nil {
				return "err"
			}
		} else {
			// UnmarshalOptions without the generated fast-marshal method: go through the message's ProtoReflect
			if err := (proto.UnmarshalOptions{}).Unmarshal(input, m.(proto.Message)); err != nil {
				return "err"
			}
		}
		return "ok " + render(m)
	})
}

// RT: generated Unmarshal then generated Marshal (unknown-field pass-through, C07)
func doRT(full string, input, prefill []byte) string {
	m, err := newMessage(full)
	if err != nil {
		return "driver-error " + err.Error()
	}
	if len(prefill) > 0 {
		// the destination already holds a message (with unknown fields of its own): Unmarshal replaces it
		if err := populate(m, prefill); err != nil {
			return "populate-error"
		}
	}
	return guard(func() string {
		if err := m.(unmarshaler).Unmarshal(input); err != nil {
			return "err"
		}
		sz := m.(sizer).Size()
		b, err := m.(marshaler).Marshal()
		if err != nil {
			return "merr"
		}
		return fmt.Sprintf("ok %d %s", sz, hx(b))
	})
}

// AL: generated Unmarshal, render, overwrite the input buffer, render again (C10)
func doAL(full string, input []byte) string {
	m, err := newMessage(full)
	if err != nil {
		return "driver-error " + err.Error()
	}
	return guard(func() string {
		buf := append([]byte(nil), input...)
		if err := m.(unmarshaler).Unmarshal(buf); err != nil {
			return "err"
		}
		before := render(m)
		for i := range buf {
			buf[i] ^= 0xFF
		}
		after := render(m)
		// recycle the buffer for another decode of something else
		m2, _ := newMessage(full)
		for i := range buf {
			buf[i] = 0
		}
		_ = m2.(unmarshaler).Unmarshal(buf[:0])
		after2 := render(m)
		if before == after && before == after2 {
			return "ok same " + before
		}
		return "ok changed " + before + " " + after
	})
}

// Main serves requests from stdin.
func Main(rt string) {
	if rt == "gogo" {
		pbrender.ExtraFields = gogoExtras
	}
	runtimeName = rt
	in := bufio.NewReaderSize(os.Stdin, 1<<20)
	out := bufio.NewWriterSize(os.Stdout, 1<<20)
	defer out.Flush()
	for {
		line, err := in.ReadString('\n')
		line = strings.TrimRight(line, "\n")
		if line != "" {
			f := strings.Split(line, " ")
			var res string
			switch f[0] {
			case "SM":
				res = doSM(f[1], unhex(f[2]))
			case "UA":
				res = doUA(f[1], unhex(f[2]))
			case "US":
				res = doUS(f[1], unhex(f[2]))
			case "UM":
				res = doUM(f[1], unhex(f[2]), unhex(f[3]))
			case "RT":
				pre := []byte(nil)
				if len(f) > 3 {
					pre = unhex(f[3])
				}
				res = doRT(f[1], unhex(f[2]), pre)
			case "AL":
				res = doAL(f[1], unhex(f[2]))
			case "RU":
				res = doRU(f[1], unhex(f[2]))
			case "HI":
				res = doHistory(f[1], f[2:])
			case "CC":
				g, _ := strconv.Atoi(f[3])
				it, _ := strconv.Atoi(f[4])
				res = doConcurrent(f[1], unhex(f[2]), g, it)
			default:
				res = "driver-error unknown request"
			}
			fmt.Fprintln(out, res)
			out.Flush() // one answer per request reaches the harness even if a later request kills the process
		}
		if err != nil {
			return
		}
	}
}

// HI: an operation history on one message (C09); see history.go
