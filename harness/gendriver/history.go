package gendriver

import (
	"bytes"
	"math"
	"reflect"
	"strconv"
	"strings"

	"github.com/CrowdStrike/csproto"
	gogoproto "github.com/gogo/protobuf/proto"
	"google.golang.org/protobuf/proto"
	"google.golang.org/protobuf/reflect/protoreflect"
	"google.golang.org/protobuf/reflect/protoregistry"
)

// fresh deep copy through the runtime (never copies the size cache).  protobuf-go's Clone goes through
// Range, which does not visit a proto3 float field holding -0.0 (Has reports it unset although Marshal writes it):
// such values are copied over by hand so that the copy really has the same contents.
func freshCopy(m interface{}) interface{} {
	var c interface{}
	if runtimeName == "gogo" {
		c = gogoproto.Clone(m.(gogoproto.Message))
	} else {
		c = proto.Clone(m.(proto.Message))
	}
	copyNegZero(reflect.ValueOf(m), reflect.ValueOf(c))
	return c
}

func copyNegZero(o, c reflect.Value) {
	if !o.IsValid() || !c.IsValid() || o.Type() != c.Type() {
		return
	}
	switch o.Kind() {
	case reflect.Ptr, reflect.Interface:
		if !o.IsNil() && !c.IsNil() {
			copyNegZero(o.Elem(), c.Elem())
		}
	case reflect.Struct:
		for i := 0; i < o.NumField(); i++ {
			if o.Type().Field(i).PkgPath != "" {
				continue // unexported: runtime state
			}
			of, cf := o.Field(i), c.Field(i)
			switch of.Kind() {
			case reflect.Float32, reflect.Float64:
				if of.Float() == 0 && math.Signbit(of.Float()) && cf.CanSet() {
					cf.SetFloat(of.Float())
				}
			default:
				copyNegZero(of, cf)
			}
		}
	case reflect.Slice:
		if o.Len() == c.Len() && (o.Type().Elem().Kind() == reflect.Ptr || o.Type().Elem().Kind() == reflect.Struct) {
			for i := 0; i < o.Len(); i++ {
				copyNegZero(o.Index(i), c.Index(i))
			}
		}
	case reflect.Map:
		if o.Type().Elem().Kind() == reflect.Ptr {
			for _, k := range o.MapKeys() {
				copyNegZero(o.MapIndex(k), c.MapIndex(k))
			}
		}
	}
}

func freshMarshal(m interface{}) string {
	return guard(func() string {
		c := freshCopy(m)
		b, err := c.(marshaler).Marshal()
		if err != nil {
			return "err"
		}
		return hx(b)
	})
}

// Size() of a fresh deep copy
func freshSize(m interface{}) string {
	return guard(func() string {
		return strconv.Itoa(freshCopy(m).(sizer).Size())
	})
}

func navigate(root protoreflect.Message, path string) protoreflect.Message {
	cur := root
	if path == "-" {
		return cur
	}
	for _, t := range strings.Split(path, ".") {
		n, _ := strconv.Atoi(t)
		fd := cur.Descriptor().Fields().ByNumber(protoreflect.FieldNumber(n))
		if fd == nil {
			if xt, err := protoregistry.GlobalTypes.FindExtensionByNumber(cur.Descriptor().FullName(), protoreflect.FieldNumber(n)); err == nil {
				fd = xt.TypeDescriptor()
			}
		}
		if fd == nil || fd.Kind() != protoreflect.MessageKind || fd.IsList() || fd.IsMap() || !cur.Has(fd) {
			return nil
		}
		cur = cur.Get(fd).Message()
	}
	return cur
}

// HI: an operation history on one message.  Tokens:
//
//	S:<path>:<num>:<hex>  assign field num of the message at path from the message encoded by hex (cleared when hex does not set it)
//	Z size   M marshal   T marshal-to(make(Size()))   RS runtime size   U:<hex> unmarshal   R reset   K clone
//
// Marshal-like results are printed as <bytes>/<bytes of marshaling a fresh deep copy>.
func doHistory(full string, ops []string) string {
	m, err := newMessage(full)
	if err != nil {
		return "driver-error " + err.Error()
	}
	var out []string
	for _, op := range ops {
		f := strings.Split(op, ":")
		res := guard(func() string {
			switch f[0] {
			case "S":
				target := navigate(reflectOf(m), f[1])
				if target == nil {
					return "nopath"
				}
				num, _ := strconv.Atoi(f[2])
				fd := target.Descriptor().Fields().ByNumber(protoreflect.FieldNumber(num))
				if fd == nil {
					if xt, err := protoregistry.GlobalTypes.FindExtensionByNumber(target.Descriptor().FullName(), protoreflect.FieldNumber(num)); err == nil {
						fd = xt.TypeDescriptor()
					}
				}
				if fd == nil {
					return "nopath"
				}
				tmp := target.New()
				if b := unhex(f[3]); len(b) > 0 {
					if err := (proto.UnmarshalOptions{AllowPartial: true}).Unmarshal(b, tmp.Interface()); err != nil {
						return "driver-error " + err.Error()
					}
				}
				if tmp.Has(fd) {
					target.Set(fd, tmp.Get(fd))
				} else {
					target.Clear(fd)
				}
				return "ok"
			case "Z":
				return strconv.Itoa(m.(sizer).Size()) + "/" + freshSize(m)
			case "M":
				b, err := m.(marshaler).Marshal()
				if err != nil {
					return "err/" + freshMarshal(m)
				}
				return hx(b) + "/" + freshMarshal(m)
			case "T":
				sz := m.(sizer).Size()
				buf := bytes.Repeat([]byte{0xA5}, sz)
				if err := m.(marshalerTo).MarshalTo(buf); err != nil {
					return "err/" + freshMarshal(m)
				}
				return hx(buf) + "/" + freshMarshal(m)
			case "TF":
				// MarshalTo into a buffer the CALLER sized (from a copy): the message's own Size() is not called first
				sz := freshCopy(m).(sizer).Size()
				buf := bytes.Repeat([]byte{0xA5}, sz)
				if err := m.(marshalerTo).MarshalTo(buf); err != nil {
					return "err/" + freshMarshal(m)
				}
				return hx(buf) + "/" + freshMarshal(m)
			case "RS":
				if runtimeName == "gogo" {
					type xs interface{ XXX_Size() int }
					return strconv.Itoa(m.(xs).XXX_Size()) + "/" + freshSize(m)
				}
				return strconv.Itoa(proto.Size(m.(proto.Message))) + "/" + freshSize(m)
			case "U":
				if err := m.(unmarshaler).Unmarshal(unhex(f[1])); err != nil {
					return "err"
				}
				return "ok"
			case "R":
				csproto.Reset(m)
				return "ok"
			case "KS":
				// clone and go on with the SOURCE: Clone must leave it as it was
				if c := csproto.Clone(m); c == nil {
					return "driver-error clone returned nil"
				}
				return "ok"
			case "K":
				c := csproto.Clone(m)
				if c == nil {
					return "driver-error clone returned nil"
				}
				m = c
				return "ok"
			}
			return "driver-error bad op"
		})
		res = strings.ReplaceAll(res, " ", "_")
		out = append(out, res)
		if res == "panic" {
			// the message may be in any state now; stop
			break
		}
	}
	return strings.Join(out, " ")
}

// CC: G goroutines call Size() and Marshal() on one shared message that nobody mutates (C09, concurrent clause)
var (
	ccPrev     interface{}
	ccPrevWant []byte
)

func doConcurrent(full string, value []byte, g, iters int) string {
	m, err := newMessage(full)
	if err != nil {
		return "driver-error " + err.Error()
	}
	if err := populate(m, value); err != nil {
		return "populate-error"
	}
	want := freshMarshal(m)
	if want == "err" || want == "panic" {
		return "skip"
	}
	wantB := unhex(want)
	// every other goroutine works on the message of the PREVIOUS request (usually another Go type, also shared and never
	// mutated): process-wide state consulted on the Size/Marshal path is then hit by different types at the same time
	msgs, wants := []interface{}{m}, [][]byte{wantB}
	if ccPrev != nil {
		msgs, wants = append(msgs, ccPrev), append(wants, ccPrevWant)
	}
	defer func() { ccPrev, ccPrevWant = m, wantB }()
	bad := make(chan string, g)
	done := make(chan struct{})
	for i := 0; i < g; i++ {
		go func(i int) {
			defer func() {
				if x := recover(); x != nil {
					bad <- "panic"
				}
				done <- struct{}{}
			}()
			m, wantB := msgs[i%len(msgs)], wants[i%len(msgs)]
			for k := 0; k < iters; k++ {
				if (i/2+k)%2 == 0 {
					if n := m.(sizer).Size(); n != len(wantB) {
						bad <- "size " + strconv.Itoa(n)
						return
					}
				} else {
					b, err := m.(marshaler).Marshal()
					if err != nil || len(b) != len(wantB) {
						bad <- "marshal differs"
						return
					}
				}
			}
		}(i)
	}
	for i := 0; i < g; i++ {
		<-done
	}
	select {
	case s := <-bad:
		return "mismatch " + s
	default:
	}
	return "ok"
}
