package gendriver

func doHistory(full string, ops []string) string { return "driver-error history not built" }
