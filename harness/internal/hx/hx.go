// Package hx holds what every harness binary shares: the seeded PRNG, the hexadecimal line
// protocol spoken with the extracted Coq model, and the failure/evidence records.
package hx

import (
	"crypto/sha256"
	"encoding/hex"
	"encoding/json"
	"fmt"
	"os"
	"sort"
	"strconv"
	"strings"
)

// Rng is splitmix64: own implementation so that a seed replays identically under any Go version.
type Rng struct{ s uint64 }

func NewRng(seed uint64) *Rng { return &Rng{s: seed*0x9E3779B97F4A7C15 + 0x1234567} }
func (r *Rng) U64() uint64 {
	r.s += 0x9E3779B97F4A7C15
	z := r.s
	z = (z ^ (z >> 30)) * 0xBF58476D1CE4E5B9
	z = (z ^ (z >> 27)) * 0x94D049BB133111EB
	return z ^ (z >> 31)
}
func (r *Rng) Intn(n int) int {
	if n <= 0 {
		return 0
	}
	return int(r.U64() % uint64(n))
}
func (r *Rng) Bool() bool { return r.U64()&1 == 1 }
func (r *Rng) Bytes(n int) []byte {
	b := make([]byte, n)
	for i := range b {
		b[i] = byte(r.U64())
	}
	return b
}

// Fork derives an independent stream (so adding cases to one stream does not shift another).
func (r *Rng) Fork(label string) *Rng {
	h := sha256.Sum256([]byte(label))
	var x uint64
	for i := 0; i < 8; i++ {
		x = x<<8 | uint64(h[i])
	}
	return NewRng(r.s ^ x)
}

func SeedFromEnv() uint64 {
	if s := os.Getenv("VERIF_SEED"); s != "" {
		if v, err := strconv.ParseInt(s, 10, 64); err == nil {
			return uint64(v)
		}
	}
	return 1
}

// Hex of a byte string; "-" when empty.
func B(b []byte) string {
	if len(b) == 0 {
		return "-"
	}
	return hex.EncodeToString(b)
}
func UnB(s string) []byte {
	if s == "-" {
		return nil
	}
	b, err := hex.DecodeString(s)
	if err != nil {
		panic(err)
	}
	return b
}

// U / I: hexadecimal rendering of unsigned / signed integers as the model driver reads them.
func U(v uint64) string { return strconv.FormatUint(v, 16) }
func I(v int64) string {
	if v < 0 {
		return "-" + strconv.FormatUint(uint64(-(v+1))+1, 16)
	}
	return strconv.FormatUint(uint64(v), 16)
}

// Failure is one property violation observed on the implementation (oracle) or one
// model/implementation disagreement (correspondence).
type Failure struct {
	Property string `json:"property"`
	Kind     string `json:"kind"` // "oracle" | "correspondence"
	What     string `json:"what"`
	Case     string `json:"case"`
	Expected string `json:"expected,omitempty"`
	Got      string `json:"got,omitempty"`
	Class    string `json:"class,omitempty"` // key matched against known_findings.json
}

// Sink collects cases for the model, the implementation's results, oracle failures and statistics.
type Sink struct {
	Cases    []string
	Impl     []string
	Failures []Failure
	Hist     map[string]int
	Samples  []string
	distinct map[[32]byte]struct{}
	Nontriv  int
	OracleN  int
}

func NewSink() *Sink {
	return &Sink{Hist: map[string]int{}, distinct: map[[32]byte]struct{}{}}
}

// Add records a correspondence case. nontrivial follows the evidence rule of DESIGN.md section 4.
func (s *Sink) Add(stream, line, impl string, nontrivial bool) {
	s.Cases = append(s.Cases, line)
	s.Impl = append(s.Impl, impl)
	s.Hist["stream:"+stream]++
	h := sha256.Sum256([]byte(line))
	if _, ok := s.distinct[h]; !ok {
		s.distinct[h] = struct{}{}
		if nontrivial {
			s.Nontriv++
		}
	}
	if len(s.Samples) < 12 && s.Hist["stream:"+stream] == 1 {
		s.Samples = append(s.Samples, line+"  =>  "+impl)
	}
}
func (s *Sink) Count(key string) { s.Hist[key]++ }
func (s *Sink) Fail(f Failure) {
	// keep at most 15 examples per failure class
	if s.Hist["failclass:"+f.Class] < 15 && len(s.Failures) < 600 {
		s.Failures = append(s.Failures, f)
	}
	s.Hist["failclass:"+f.Class]++
	s.Hist["failures"]++
}

type Summary struct {
	Evaluations int            `json:"evaluations"`
	Distinct    int            `json:"distinct_nontrivial"`
	OracleEvals int            `json:"oracle_evaluations"`
	Hist        map[string]int `json:"histogram"`
	Samples     []string       `json:"samples"`
	Failures    []Failure      `json:"failures"`
}

// Write stores cases.txt, impl.txt and summary.json under dir.
func (s *Sink) Write(dir string) error {
	if err := os.MkdirAll(dir, 0o755); err != nil {
		return err
	}
	if err := os.WriteFile(dir+"/cases.txt", []byte(strings.Join(s.Cases, "\n")+"\n"), 0o644); err != nil {
		return err
	}
	if err := os.WriteFile(dir+"/impl.txt", []byte(strings.Join(s.Impl, "\n")+"\n"), 0o644); err != nil {
		return err
	}
	keys := make([]string, 0, len(s.Hist))
	for k := range s.Hist {
		keys = append(keys, k)
	}
	sort.Strings(keys)
	sum := Summary{Evaluations: len(s.Cases), Distinct: s.Nontriv, OracleEvals: s.OracleN, Hist: s.Hist, Samples: s.Samples, Failures: s.Failures}
	if sum.Failures == nil {
		sum.Failures = []Failure{}
	}
	j, err := json.MarshalIndent(sum, "", " ")
	if err != nil {
		return err
	}
	return os.WriteFile(dir+"/summary.json", j, 0o644)
}

func Must(err error) {
	if err != nil {
		fmt.Fprintln(os.Stderr, "harness error:", err)
		os.Exit(2)
	}
}

// In-flight marker: before a harness hands a case to the code under test it records the case here, so
// that when the process dies (fatal error: out of memory, stack overflow, an unrecovered panic in the
// harness itself) the check can name the input that was running.
var inflight *os.File

func InflightOpen(dir string) {
	os.MkdirAll(dir, 0o755)
	f, err := os.Create(dir + "/inflight.txt")
	if err == nil {
		inflight = f
	}
}

func Inflight(s string) {
	if inflight == nil {
		return
	}
	inflight.Truncate(0)
	inflight.WriteAt([]byte(s), 0)
}

// InflightDone removes the marker: the harness finished normally.
func InflightDone(dir string) {
	if inflight != nil {
		inflight.Close()
		inflight = nil
	}
	os.Remove(dir + "/inflight.txt")
}
