module verif/harness

go 1.21

require (
	github.com/CrowdStrike/csproto v0.0.0
	github.com/CrowdStrike/csproto/example v0.0.0
	github.com/gogo/protobuf v1.3.2
	github.com/golang/protobuf v1.5.4
	google.golang.org/protobuf v1.36.4
)

replace github.com/CrowdStrike/csproto => /repo

replace github.com/CrowdStrike/csproto/example => /repo/example
