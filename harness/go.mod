module verif/harness

go 1.21

require (
	github.com/CrowdStrike/csproto v0.0.0
	google.golang.org/protobuf v1.36.4
)

replace github.com/CrowdStrike/csproto => /repo
