// Package corpus builds the schema corpus of the generated-code checks (C04-C10, C16, C17) as
// FileDescriptorProtos, without protoc: a systematic feature matrix (every kind x every
// cardinality, every legal map key/value kind, oneofs, nested and recursive messages, enums,
// proto3 optionals, boundary field numbers) for proto2 and proto3, plus seeded random schemas.
// The same structures drive the value generator and are printed as schema terms for the Coq model.
package corpus

import (
	"fmt"
	"strings"

	"google.golang.org/protobuf/proto"
	"google.golang.org/protobuf/types/descriptorpb"
)

type Kind int

const (
	KBool Kind = iota
	KInt32
	KInt64
	KUInt32
	KUInt64
	KSInt32
	KSInt64
	KFixed32
	KFixed64
	KSFixed32
	KSFixed64
	KFloat
	KDouble
	KEnum
	KString
	KBytes
	KMessage
	NKinds
)

var KindName = [...]string{"bool", "int32", "int64", "uint32", "uint64", "sint32", "sint64", "fixed32", "fixed64",
	"sfixed32", "sfixed64", "float", "double", "enum", "string", "bytes", "message"}

func (k Kind) String() string { return KindName[k] }

var kindType = [...]descriptorpb.FieldDescriptorProto_Type{
	descriptorpb.FieldDescriptorProto_TYPE_BOOL, descriptorpb.FieldDescriptorProto_TYPE_INT32, descriptorpb.FieldDescriptorProto_TYPE_INT64,
	descriptorpb.FieldDescriptorProto_TYPE_UINT32, descriptorpb.FieldDescriptorProto_TYPE_UINT64, descriptorpb.FieldDescriptorProto_TYPE_SINT32,
	descriptorpb.FieldDescriptorProto_TYPE_SINT64, descriptorpb.FieldDescriptorProto_TYPE_FIXED32, descriptorpb.FieldDescriptorProto_TYPE_FIXED64,
	descriptorpb.FieldDescriptorProto_TYPE_SFIXED32, descriptorpb.FieldDescriptorProto_TYPE_SFIXED64, descriptorpb.FieldDescriptorProto_TYPE_FLOAT,
	descriptorpb.FieldDescriptorProto_TYPE_DOUBLE, descriptorpb.FieldDescriptorProto_TYPE_ENUM, descriptorpb.FieldDescriptorProto_TYPE_STRING,
	descriptorpb.FieldDescriptorProto_TYPE_BYTES, descriptorpb.FieldDescriptorProto_TYPE_MESSAGE}

// Packable: numeric scalars and enums
func (k Kind) Packable() bool { return k <= KEnum }

// legal map key kinds: integral kinds, bool, string
func (k Kind) MapKeyOK() bool {
	switch k {
	case KFloat, KDouble, KEnum, KBytes, KMessage:
		return false
	}
	return true
}

type Card int

const (
	Implicit    Card = iota // proto3 singular without presence
	Optional                // proto2 optional / proto3 optional: explicit presence
	Required                // proto2 required
	RepPacked               // repeated, packed
	RepUnpacked             // repeated, one key per element
	OneofMember
	Map
)

var cardCode = [...]string{"i", "o", "q", "rp", "ru", "u", "m"}

type Field struct {
	Name    string
	Num     int32
	Kind    Kind
	Card    Card
	Msg     string // message type name (Kind == KMessage), within the same file
	Oneof   int    // index into Message.Oneofs (Card == OneofMember)
	MapKey  Kind
	MapVal  Kind
	MapMsg  string // message type name of a message-valued map
	MsgFile string // Base of the imported file that declares Msg / MapMsg ("" = this file)
	Default string // proto2 [default = ...] in descriptor syntax ("" = none)
}

type Message struct {
	Name   string
	Fields []Field
	Oneofs []string
	Nested []*Message // nested type definitions (besides map entries)
	// proto2 extensions: ExtRange declares "extensions 100 to max"; Extends are "extend <Extendee> { ... }"
	// blocks written inside this message (the only place the plug-in looks for them)
	ExtRange bool
	Extends  []Ext
}

// Ext is one extension field declaration; Card is Optional or RepUnpacked / RepPacked.
type Ext struct {
	Extendee string
	Field
}

type File struct {
	Base     string // file base name == Go package name; unique in the corpus
	Proto2   bool
	Messages []*Message
	FileExts []Ext // extensions declared at file scope
	// multi-file schemas: Imports are files this one depends on (a message field names its file in MsgFile);
	// SubDir / PkgName make a go_package "gencorpus/<Base>/<SubDir>;<PkgName>" whose package name is not the last
	// element of the import path
	Imports []*File
	SubDir  string
	PkgName string
	InDirOf string // generate into the directory (= Go package) of the file with this Base
	Enum    bool   // declares enum "E" {E0=0; E1=1; E2=2; EN=-1; EBIG=2147483647}
	// GoogleOnly: uses proto3 optional fields, which gogo/protobuf 1.3.2's generator does not support
	// (it renders them as oneofs), so there are no gogo base types to attach fast-marshal code to
	GoogleOnly bool
	// ParamV1: extra plug-in parameters for the gogo (apiversion=v1) variants, e.g. specialname=Size,
	// which the documentation prescribes for fields that gogo renames
	ParamV1 string
}

// Dir is the directory (relative to the module root) of the .proto file and of the generated Go package.
func (f *File) Dir() string {
	if f.InDirOf != "" {
		return f.InDirOf
	}
	if f.SubDir != "" {
		return f.Base + "/" + f.SubDir
	}
	return f.Base
}
func (f *File) ProtoPath() string    { return f.Dir() + "/" + f.Base + ".proto" }
func (f *File) ProtoPackage() string { return "vcorpus." + f.Base }
func (f *File) GoPackage() string {
	if f.PkgName != "" {
		return "gencorpus/" + f.Dir() + ";" + f.PkgName
	}
	return "gencorpus/" + f.Dir()
}

// AllDescriptors: the descriptors a CodeGeneratorRequest for f must carry, dependencies first.
func (f *File) AllDescriptors() []*descriptorpb.FileDescriptorProto {
	var out []*descriptorpb.FileDescriptorProto
	seen := map[string]bool{}
	var walk func(x *File)
	walk = func(x *File) {
		if seen[x.Base] {
			return
		}
		seen[x.Base] = true
		for _, d := range x.Imports {
			walk(d)
		}
		out = append(out, x.Descriptor())
	}
	walk(f)
	return out
}
func (f *File) FullName(msg string) string {
	return f.ProtoPackage() + "." + msg
}

// All messages incl. nested definitions, with their proto-relative names ("Outer.Inner")
func (f *File) AllMessages() map[string]*Message {
	out := map[string]*Message{}
	var walk func(prefix string, ms []*Message)
	walk = func(prefix string, ms []*Message) {
		for _, m := range ms {
			out[prefix+m.Name] = m
			walk(prefix+m.Name+".", m.Nested)
		}
	}
	walk("", f.Messages)
	return out
}

func camel(s string) string {
	parts := strings.Split(s, "_")
	for i, p := range parts {
		if p != "" {
			parts[i] = strings.ToUpper(p[:1]) + p[1:]
		}
	}
	return strings.Join(parts, "")
}

func (f *File) messageProto(m *Message) *descriptorpb.DescriptorProto {
	dp := &descriptorpb.DescriptorProto{Name: proto.String(m.Name)}
	for _, o := range m.Oneofs {
		dp.OneofDecl = append(dp.OneofDecl, &descriptorpb.OneofDescriptorProto{Name: proto.String(o)})
	}
	nReal := len(m.Oneofs)
	typeName := func(n string) *string { return proto.String("." + f.ProtoPackage() + "." + n) }
	typeNameIn := func(file, n string) *string {
		if file == "" {
			return typeName(n)
		}
		return proto.String(".vcorpus." + file + "." + n)
	}
	for _, fd := range m.Fields {
		fp := &descriptorpb.FieldDescriptorProto{
			Name:     proto.String(fd.Name),
			JsonName: proto.String(fd.Name),
			Number:   proto.Int32(fd.Num),
			Type:     kindType[fd.Kind].Enum(),
			Label:    descriptorpb.FieldDescriptorProto_LABEL_OPTIONAL.Enum(),
		}
		switch fd.Kind {
		case KEnum:
			fp.TypeName = typeName("E")
		case KMessage:
			fp.TypeName = typeNameIn(fd.MsgFile, fd.Msg)
		}
		if fd.Default != "" {
			fp.DefaultValue = proto.String(fd.Default)
		}
		switch fd.Card {
		case Required:
			fp.Label = descriptorpb.FieldDescriptorProto_LABEL_REQUIRED.Enum()
		case RepPacked, RepUnpacked:
			fp.Label = descriptorpb.FieldDescriptorProto_LABEL_REPEATED.Enum()
			if fd.Kind.Packable() {
				fp.Options = &descriptorpb.FieldOptions{Packed: proto.Bool(fd.Card == RepPacked)}
			}
		case OneofMember:
			fp.OneofIndex = proto.Int32(int32(fd.Oneof))
		case Optional:
			if !f.Proto2 {
				// proto3 optional: a synthetic oneof, declared after the real ones
				fp.Proto3Optional = proto.Bool(true)
				fp.OneofIndex = proto.Int32(int32(len(dp.OneofDecl)))
				dp.OneofDecl = append(dp.OneofDecl, &descriptorpb.OneofDescriptorProto{Name: proto.String("_" + fd.Name)})
			}
		case Map:
			entry := camel(fd.Name) + "Entry"
			fp.Label = descriptorpb.FieldDescriptorProto_LABEL_REPEATED.Enum()
			fp.Type = descriptorpb.FieldDescriptorProto_TYPE_MESSAGE.Enum()
			fp.TypeName = typeName(m.Name + "." + entry)
			kf := &descriptorpb.FieldDescriptorProto{Name: proto.String("key"), JsonName: proto.String("key"), Number: proto.Int32(1),
				Type: kindType[fd.MapKey].Enum(), Label: descriptorpb.FieldDescriptorProto_LABEL_OPTIONAL.Enum()}
			vf := &descriptorpb.FieldDescriptorProto{Name: proto.String("value"), JsonName: proto.String("value"), Number: proto.Int32(2),
				Type: kindType[fd.MapVal].Enum(), Label: descriptorpb.FieldDescriptorProto_LABEL_OPTIONAL.Enum()}
			switch fd.MapVal {
			case KEnum:
				vf.TypeName = typeName("E")
			case KMessage:
				vf.TypeName = typeNameIn(fd.MsgFile, fd.MapMsg)
			}
			dp.NestedType = append(dp.NestedType, &descriptorpb.DescriptorProto{Name: proto.String(entry),
				Field: []*descriptorpb.FieldDescriptorProto{kf, vf}, Options: &descriptorpb.MessageOptions{MapEntry: proto.Bool(true)}})
		}
		dp.Field = append(dp.Field, fp)
	}
	_ = nReal
	if m.ExtRange {
		dp.ExtensionRange = append(dp.ExtensionRange, &descriptorpb.DescriptorProto_ExtensionRange{Start: proto.Int32(100), End: proto.Int32(536870912)})
	}
	for _, x := range m.Extends {
		dp.Extension = append(dp.Extension, f.extProto(x))
	}
	for _, n := range m.Nested {
		np := f.messageProto(n)
		dp.NestedType = append(dp.NestedType, np)
	}
	return dp
}

func (f *File) extProto(x Ext) *descriptorpb.FieldDescriptorProto {
	fp := &descriptorpb.FieldDescriptorProto{
		Name:     proto.String(x.Name),
		Number:   proto.Int32(x.Num),
		Type:     kindType[x.Kind].Enum(),
		Label:    descriptorpb.FieldDescriptorProto_LABEL_OPTIONAL.Enum(),
		Extendee: proto.String("." + f.ProtoPackage() + "." + x.Extendee),
	}
	switch x.Kind {
	case KEnum:
		fp.TypeName = proto.String("." + f.ProtoPackage() + ".E")
	case KMessage:
		fp.TypeName = proto.String("." + f.ProtoPackage() + "." + x.Msg)
	}
	if x.Card == RepPacked || x.Card == RepUnpacked {
		fp.Label = descriptorpb.FieldDescriptorProto_LABEL_REPEATED.Enum()
		if x.Kind.Packable() {
			fp.Options = &descriptorpb.FieldOptions{Packed: proto.Bool(x.Card == RepPacked)}
		}
	}
	return fp
}

// ExtsOf lists the extensions of message name (proto-relative) declared in this file, in the order the
// plug-in emits them: file scope first, then the messages breadth first.
func (f *File) ExtsOf(name string) []Ext {
	var out []Ext
	for _, x := range f.FileExts {
		if x.Extendee == name {
			out = append(out, x)
		}
	}
	queue := append([]*Message{}, f.Messages...)
	for len(queue) > 0 {
		m := queue[0]
		queue = queue[1:]
		for _, x := range m.Extends {
			if x.Extendee == name {
				out = append(out, x)
			}
		}
		queue = append(queue, m.Nested...)
	}
	return out
}

// Descriptor renders the file.  Nested message definitions are referenced as "Outer.Inner".
func (f *File) Descriptor() *descriptorpb.FileDescriptorProto {
	fd := &descriptorpb.FileDescriptorProto{
		Name:    proto.String(f.ProtoPath()),
		Package: proto.String(f.ProtoPackage()),
		Options: &descriptorpb.FileOptions{GoPackage: proto.String(f.GoPackage())},
	}
	for _, d := range f.Imports {
		fd.Dependency = append(fd.Dependency, d.ProtoPath())
	}
	if f.Proto2 {
		fd.Syntax = proto.String("proto2")
	} else {
		fd.Syntax = proto.String("proto3")
	}
	if f.Enum {
		ed := &descriptorpb.EnumDescriptorProto{Name: proto.String("E")}
		for _, v := range []struct {
			n string
			v int32
		}{{"E0", 0}, {"E1", 1}, {"E2", 2}, {"EN", -1}, {"EBIG", 2147483647}} {
			ed.Value = append(ed.Value, &descriptorpb.EnumValueDescriptorProto{Name: proto.String(strings.ToUpper(f.Base) + "_" + v.n), Number: proto.Int32(v.v)})
		}
		fd.EnumType = append(fd.EnumType, ed)
	}
	for _, m := range f.Messages {
		fd.MessageType = append(fd.MessageType, f.messageProto(m))
	}
	for _, x := range f.FileExts {
		fd.Extension = append(fd.Extension, f.extProto(x))
	}
	return fd
}

// ---------------------------------------------------------------------------------------------
// the feature matrix

// boundary field numbers, spread over the kinds of the all-kinds messages: every change of the key's encoded
// size (15|16, 2047|2048, 2^18-1|2^18, 2^25-1|2^25) and the largest field number
var fieldNumbers = []int32{1, 15, 16, 2047, 2048, 1<<18 - 1, 1 << 18, 1<<25 - 1, 1 << 25, 1 << 21, 1 << 26, 1<<29 - 1}

func allKindsMessage(name string, card Card, proto2 bool, withMsg string) *Message {
	m := &Message{Name: name}
	num := int32(1)
	for k := Kind(0); k < NKinds; k++ {
		if (card == RepPacked) && !k.Packable() {
			continue
		}
		fd := Field{Name: "f_" + k.String(), Num: 20 + int32(k), Kind: k, Card: card}
		// spread the boundary field numbers over the first kinds
		if int(k) < len(fieldNumbers) {
			fd.Num = fieldNumbers[k]
		}
		if k == KMessage {
			fd.Msg = withMsg
		}
		if card == OneofMember {
			fd.Oneof = 0
		}
		m.Fields = append(m.Fields, fd)
		num++
	}
	if card == OneofMember {
		m.Oneofs = []string{"choice"}
	}
	return m
}

// Matrix returns the systematic corpus.
func Matrix() []*File {
	var files []*File
	for _, p2 := range []bool{false, true} {
		pre := "p3"
		if p2 {
			pre = "p2"
		}
		leaf := &Message{Name: "Leaf", Fields: []Field{{Name: "a", Num: 1, Kind: KInt32, Card: Implicit}, {Name: "s", Num: 2, Kind: KString, Card: Implicit}}}
		if p2 {
			leaf.Fields[0].Card, leaf.Fields[1].Card = Optional, Optional
		}
		sing := Implicit
		if p2 {
			sing = Optional
		}
		// scalars file: singular / optional / repeated packed / unpacked
		sc := &File{Base: pre + "scalars", Proto2: p2, Enum: true}
		sc.Messages = append(sc.Messages, leaf)
		sc.Messages = append(sc.Messages, allKindsMessage("Singular", sing, p2, "Leaf"))
		if !p2 {
			op := &File{Base: "p3optional", Enum: true, GoogleOnly: true}
			op.Messages = append(op.Messages, &Message{Name: "Leaf", Fields: append([]Field{}, leaf.Fields...)}, allKindsMessage("Opt", Optional, p2, "Leaf"))
			files = append(files, op)
		}
		sc.Messages = append(sc.Messages, allKindsMessage("Packed", RepPacked, p2, "Leaf"))
		sc.Messages = append(sc.Messages, allKindsMessage("Unpacked", RepUnpacked, p2, "Leaf"))
		files = append(files, sc)
		if p2 {
			rq := &File{Base: pre + "required", Proto2: true, Enum: true}
			leafq := &Message{Name: "Leaf", Fields: []Field{{Name: "a", Num: 1, Kind: KInt32, Card: Required}, {Name: "s", Num: 2, Kind: KString, Card: Optional}}}
			rq.Messages = append(rq.Messages, leafq, allKindsMessage("Req", Required, true, "Leaf"))
			rq.Messages = append(rq.Messages, &Message{Name: "Holder", Fields: []Field{
				{Name: "one", Num: 1, Kind: KMessage, Card: Optional, Msg: "Leaf"},
				{Name: "many", Num: 2, Kind: KMessage, Card: RepUnpacked, Msg: "Leaf"},
				{Name: "r", Num: 3, Kind: KMessage, Card: Required, Msg: "Leaf"},
				{Name: "x", Num: 4, Kind: KInt64, Card: Optional}}})
			rq.Messages = append(rq.Messages, &Message{Name: "Holder2", Oneofs: []string{"pick"}, Fields: []Field{
				{Name: "by_name", Num: 1, Kind: KMessage, Card: Map, MapKey: KString, MapVal: KMessage, MapMsg: "Leaf"},
				{Name: "p_leaf", Num: 2, Kind: KMessage, Card: OneofMember, Oneof: 0, Msg: "Leaf"},
				{Name: "p_int", Num: 3, Kind: KInt32, Card: OneofMember, Oneof: 0},
				{Name: "y", Num: 4, Kind: KInt64, Card: Optional}}})
			files = append(files, rq)
			// two nested definitions with the same short name, only the second with a required field
			sn := &File{Base: "p2samename", Proto2: true}
			sn.Messages = append(sn.Messages,
				&Message{Name: "Request", Fields: []Field{{Name: "o", Num: 1, Kind: KMessage, Card: Optional, Msg: "Request.Options"}},
					Nested: []*Message{{Name: "Options", Fields: []Field{{Name: "a", Num: 1, Kind: KInt32, Card: Optional}}}}},
				&Message{Name: "Response", Fields: []Field{{Name: "o", Num: 1, Kind: KMessage, Card: Optional, Msg: "Response.Options"},
					{Name: "os", Num: 2, Kind: KMessage, Card: RepUnpacked, Msg: "Response.Options"}},
					Nested: []*Message{{Name: "Options", Fields: []Field{{Name: "token", Num: 1, Kind: KString, Card: Required}, {Name: "n", Num: 2, Kind: KInt32, Card: Optional}}}}})
			files = append(files, sn)
			// required (and optional) fields that declare a default value: a default is what a getter returns for an
			// absent field, it does not make the field present
			files = append(files, &File{Base: "p2reqdef", Proto2: true, Messages: []*Message{
				{Name: "Def", Fields: []Field{
					{Name: "n", Num: 1, Kind: KInt32, Card: Required, Default: "7"},
					{Name: "s", Num: 2, Kind: KString, Card: Required, Default: "dflt"},
					{Name: "o", Num: 3, Kind: KBool, Card: Optional, Default: "true"},
					{Name: "d", Num: 4, Kind: KDouble, Card: Optional, Default: "1.5"}}},
				{Name: "AllDef", Fields: []Field{{Name: "u", Num: 1, Kind: KUInt64, Card: Required, Default: "9"}}},
				{Name: "DefHolder", Fields: []Field{
					{Name: "one", Num: 1, Kind: KMessage, Card: Optional, Msg: "Def"},
					{Name: "many", Num: 2, Kind: KMessage, Card: RepUnpacked, Msg: "AllDef"},
					{Name: "by", Num: 3, Kind: KMessage, Card: Map, MapKey: KInt32, MapVal: KMessage, MapMsg: "AllDef"},
					{Name: "x", Num: 4, Kind: KInt64, Card: Optional}}}}})

		}
		if p2 {
			// proto2 extensions declared inside a top-level message (what the plug-in supports), message-typed
			ex := &File{Base: "p2ext", Proto2: true, Enum: true}
			ex.Messages = append(ex.Messages,
				&Message{Name: "Leaf", Fields: append([]Field{}, leaf.Fields...)},
				&Message{Name: "Base", ExtRange: true, Fields: []Field{{Name: "id", Num: 1, Kind: KInt64, Card: Optional}, {Name: "name", Num: 2, Kind: KString, Card: Optional}}},
				&Message{Name: "Exts", Fields: []Field{{Name: "z", Num: 1, Kind: KInt32, Card: Optional}, {Name: "b", Num: 2, Kind: KMessage, Card: Optional, Msg: "Base"}},
					Extends: []Ext{
						{Extendee: "Base", Field: Field{Name: "leaf_ext", Num: 100, Kind: KMessage, Card: Optional, Msg: "Leaf"}},
						{Extendee: "Base", Field: Field{Name: "self_ext", Num: 2047, Kind: KMessage, Card: Optional, Msg: "Base"}},
						// a second extended message whose extensions reuse the same numbers
						{Extendee: "Base2", Field: Field{Name: "leaf_ext2", Num: 100, Kind: KMessage, Card: Optional, Msg: "Leaf"}},
						{Extendee: "Base2", Field: Field{Name: "level2", Num: 2047, Kind: KInt32, Card: Optional}},
					}},
				&Message{Name: "Base2", ExtRange: true, Fields: []Field{{Name: "id", Num: 1, Kind: KString, Card: Optional}}})
			files = append(files, ex)
			// scalar extensions (kinds whose generated code compiles)
			xs := &File{Base: "p2extscalar", Proto2: true, Enum: true}
			xs.Messages = append(xs.Messages,
				&Message{Name: "Base", ExtRange: true, Fields: []Field{{Name: "id", Num: 1, Kind: KInt64, Card: Optional}}},
				func() *Message {
					// one optional extension of every scalar kind and of the enum
					m := &Message{Name: "Exts"}
					for k := Kind(0); k < NKinds; k++ {
						if k == KMessage {
							continue
						}
						m.Extends = append(m.Extends, Ext{Extendee: "Base", Field: Field{Name: "x_" + k.String(), Num: 100 + int32(k), Kind: k, Card: Optional}})
					}
					return m
				}())
			files = append(files, xs)
			// placements and cardinalities beyond "optional, inside a top-level message"
			xm := &File{Base: "p2extmore", Proto2: true,
				FileExts: []Ext{{Extendee: "Base", Field: Field{Name: "file_level", Num: 200, Kind: KInt32, Card: Optional}}}}
			xm.Messages = append(xm.Messages,
				&Message{Name: "Base", ExtRange: true, Fields: []Field{{Name: "id", Num: 1, Kind: KInt64, Card: Optional}}},
				&Message{Name: "Exts", Extends: []Ext{
					{Extendee: "Base", Field: Field{Name: "x_rep", Num: 100, Kind: KInt32, Card: RepUnpacked}},
					{Extendee: "Base", Field: Field{Name: "x_reps", Num: 101, Kind: KString, Card: RepUnpacked}}},
					Nested: []*Message{{Name: "Deep", Extends: []Ext{{Extendee: "Base", Field: Field{Name: "deep_level", Num: 300, Kind: KInt32, Card: Optional}}}}}})
			files = append(files, xm)
		}
		if p2 {
			// a proto3 file whose map / singular / repeated message fields are proto2 messages with required fields,
			// declared in another .proto of the same Go package
			rd := &File{Base: "p2reqdep", Proto2: true, InDirOf: "p3usesp2", Messages: []*Message{
				{Name: "Need", Fields: []Field{{Name: "id", Num: 1, Kind: KInt32, Card: Required}, {Name: "note", Num: 2, Kind: KString, Card: Optional}}}}}
			us := &File{Base: "p3usesp2", Imports: []*File{rd}, Messages: []*Message{
				{Name: "Holder", Fields: []Field{
					{Name: "by", Num: 1, Kind: KMessage, Card: Map, MapKey: KString, MapVal: KMessage, MapMsg: "Need", MsgFile: "p2reqdep"},
					{Name: "one", Num: 2, Kind: KMessage, Card: Implicit, Msg: "Need", MsgFile: "p2reqdep"},
					{Name: "many", Num: 3, Kind: KMessage, Card: RepUnpacked, Msg: "Need", MsgFile: "p2reqdep"},
					{Name: "x", Num: 4, Kind: KInt64, Card: Implicit}}}}}
			files = append(files, rd, us)
		}
		// oneofs
		oo := &File{Base: pre + "oneof", Proto2: p2, Enum: true}
		ol := &Message{Name: "Leaf", Fields: append([]Field{}, leaf.Fields...)}
		om := allKindsMessage("Choice", OneofMember, p2, "Leaf")
		om.Oneofs = append(om.Oneofs, "second")
		om.Fields = append(om.Fields, Field{Name: "plain", Num: 100, Kind: KInt32, Card: sing},
			Field{Name: "s2a", Num: 101, Kind: KString, Card: OneofMember, Oneof: 1}, Field{Name: "s2b", Num: 102, Kind: KUInt64, Card: OneofMember, Oneof: 1})
		oo.Messages = append(oo.Messages, ol, om)
		files = append(files, oo)
		// maps: every key kind with an int32 and a string value; every value kind with string and int64 keys
		mp := &File{Base: pre + "maps", Proto2: p2, Enum: true}
		ml := &Message{Name: "Leaf", Fields: append([]Field{}, leaf.Fields...)}
		byKey := &Message{Name: "ByKey"}
		n := int32(1)
		for k := Kind(0); k < NKinds; k++ {
			if !k.MapKeyOK() {
				continue
			}
			byKey.Fields = append(byKey.Fields, Field{Name: "k_" + k.String() + "_i", Num: n, Card: Map, Kind: KMessage, MapKey: k, MapVal: KInt32})
			byKey.Fields = append(byKey.Fields, Field{Name: "k_" + k.String() + "_s", Num: n + 1, Card: Map, Kind: KMessage, MapKey: k, MapVal: KString})
			n += 2
		}
		byVal := &Message{Name: "ByVal"}
		n = 1
		for k := Kind(0); k < NKinds; k++ {
			fs := Field{Name: "v_" + k.String() + "_s", Num: n, Card: Map, Kind: KMessage, MapKey: KString, MapVal: k}
			fi := Field{Name: "v_" + k.String() + "_i", Num: n + 1, Card: Map, Kind: KMessage, MapKey: KInt64, MapVal: k}
			if k == KMessage {
				fs.MapMsg, fi.MapMsg = "Leaf", "Leaf"
			}
			byVal.Fields = append(byVal.Fields, fs, fi)
			n += 2
		}
		mp.Messages = append(mp.Messages, ml, byKey, byVal)
		files = append(files, mp)
		// nesting / recursion / nested type definitions / mixed message
		ns := &File{Base: pre + "nested", Proto2: p2, Enum: true}
		nl := &Message{Name: "Leaf", Fields: append([]Field{}, leaf.Fields...)}
		tree := &Message{Name: "Tree", Fields: []Field{
			{Name: "v", Num: 1, Kind: KSInt64, Card: sing},
			{Name: "left", Num: 2, Kind: KMessage, Card: Optional, Msg: "Tree"},
			{Name: "kids", Num: 3, Kind: KMessage, Card: RepUnpacked, Msg: "Tree"},
			{Name: "leaf", Num: 4, Kind: KMessage, Card: Optional, Msg: "Leaf"},
			{Name: "by_name", Num: 5, Kind: KMessage, Card: Map, MapKey: KString, MapVal: KMessage, MapMsg: "Tree"},
			{Name: "tags", Num: 6, Kind: KString, Card: RepUnpacked},
			{Name: "blob", Num: 7, Kind: KBytes, Card: sing},
		}}
		if !p2 {
			tree.Fields[1].Card, tree.Fields[3].Card = Implicit, Implicit // message fields always have presence
		}
		outer := &Message{Name: "Outer", Fields: []Field{
			{Name: "inner", Num: 1, Kind: KMessage, Card: tree.Fields[1].Card, Msg: "Outer.Inner"},
			{Name: "inners", Num: 2, Kind: KMessage, Card: RepUnpacked, Msg: "Outer.Inner"},
			{Name: "deep", Num: 3, Kind: KMessage, Card: tree.Fields[1].Card, Msg: "Outer.Inner.Deep"},
			{Name: "id", Num: 16, Kind: KUInt32, Card: sing},
		}, Nested: []*Message{{Name: "Inner", Fields: []Field{{Name: "x", Num: 1, Kind: KFixed64, Card: sing}, {Name: "d", Num: 2, Kind: KMessage, Card: tree.Fields[1].Card, Msg: "Outer.Inner.Deep"}},
			Nested: []*Message{{Name: "Deep", Fields: []Field{{Name: "y", Num: 1, Kind: KDouble, Card: sing}, {Name: "es", Num: 2, Kind: KEnum, Card: RepPacked}}}}}}}
		mix := &Message{Name: "Mix", Oneofs: []string{"pick"}, Fields: []Field{
			{Name: "id", Num: 1, Kind: KInt64, Card: sing},
			{Name: "name", Num: 2, Kind: KString, Card: sing},
			{Name: "vals", Num: 3, Kind: KSInt32, Card: RepPacked},
			{Name: "leafs", Num: 4, Kind: KMessage, Card: RepUnpacked, Msg: "Leaf"},
			{Name: "attrs", Num: 5, Kind: KMessage, Card: Map, MapKey: KString, MapVal: KString},
			{Name: "p_int", Num: 6, Kind: KInt32, Card: OneofMember, Oneof: 0},
			{Name: "p_leaf", Num: 7, Kind: KMessage, Card: OneofMember, Oneof: 0, Msg: "Leaf"},
			{Name: "p_bytes", Num: 8, Kind: KBytes, Card: OneofMember, Oneof: 0},
			{Name: "e", Num: 9, Kind: KEnum, Card: sing},
			{Name: "fl", Num: 10, Kind: KFloat, Card: RepUnpacked},
			{Name: "big", Num: 1<<29 - 1, Kind: KBool, Card: sing},
		}}
		ns.Messages = append(ns.Messages, nl, tree, outer, mix)
		files = append(files, ns)
	}
	return files
}

// ---------------------------------------------------------------------------------------------
// schema terms for the Coq model

// Index assigns every message of the file a number (the model refers to message types by number).
func (f *File) Index() (names []string, idx map[string]int) {
	idx = map[string]int{}
	var walk func(prefix string, ms []*Message)
	walk = func(prefix string, ms []*Message) {
		for _, m := range ms {
			idx[prefix+m.Name] = len(names)
			names = append(names, prefix+m.Name)
			walk(prefix+m.Name+".", m.Nested)
		}
	}
	walk("", f.Messages)
	// the messages of imported files follow, addressed as "<file>:<name>"
	seen := map[string]bool{f.Base: true}
	var deps func(x *File)
	deps = func(x *File) {
		for _, d := range x.Imports {
			if !seen[d.Base] {
				seen[d.Base] = true
				walk(d.Base+":", d.Messages)
				deps(d)
			}
		}
	}
	deps(f)
	return
}

// fileOf finds the (transitively) imported file with the given base name
func (f *File) fileOf(base string) *File {
	if base == "" || base == f.Base {
		return f
	}
	for _, d := range f.Imports {
		if x := d.fileOf(base); x != nil && x.Base == base {
			return x
		}
	}
	return nil
}

// SchemaTerm prints the whole file (and the messages of the files it imports): idx=p2|p3:num,kind,card;...|idx=...
// kind: scalar name | msg<idx>; card: i o q rp ru u<group> m:<keykind>:<valkind>
func (f *File) SchemaTerm() string {
	names, idx := f.Index()
	var parts []string
	for i, n := range names {
		owner, rel := f, n
		if k := strings.Index(n, ":"); k >= 0 {
			owner, rel = f.fileOf(n[:k]), n[k+1:]
		}
		m := owner.AllMessages()[rel]
		// a reference from a message of file owner to message name in file mf ("" = owner itself)
		ref := func(mf, name string) int {
			if mf == "" {
				mf = owner.Base
			}
			if mf == f.Base {
				return idx[name]
			}
			return idx[mf+":"+name]
		}
		syn := "p3"
		if owner.Proto2 {
			syn = "p2"
		}
		var fs []string
		for _, fd := range m.Fields {
			kind := fd.Kind.String()
			if fd.Kind == KMessage && fd.Card != Map {
				kind = fmt.Sprintf("msg%d", ref(fd.MsgFile, fd.Msg))
			}
			card := cardCode[fd.Card]
			switch fd.Card {
			case OneofMember:
				card = fmt.Sprintf("u%d", fd.Oneof)
			case Map:
				vk := fd.MapVal.String()
				if fd.MapVal == KMessage {
					vk = fmt.Sprintf("msg%d", ref(fd.MsgFile, fd.MapMsg))
				}
				kind = "map"
				card = fmt.Sprintf("m:%s:%s", fd.MapKey, vk)
			}
			fs = append(fs, fmt.Sprintf("%d,%s,%s", fd.Num, kind, card))
		}
		// the extensions the generated code handles behave as optional fields of the extended message
		for _, x := range owner.ExtsOf(rel) {
			kind := x.Kind.String()
			if x.Kind == KMessage {
				kind = fmt.Sprintf("msg%d", ref("", x.Msg))
			}
			fs = append(fs, fmt.Sprintf("%d,%s,%s", x.Num, kind, cardCode[x.Card]))
		}
		parts = append(parts, fmt.Sprintf("%d=%s:%s", i, syn, strings.Join(fs, ";")))
	}
	return strings.Join(parts, "|")
}

// ---------------------------------------------------------------------------------------------
// additional schemas for the generator check (C16) only: naming and import edge cases

// Extra returns schemas that exercise output naming, imports and name collisions.
func Extra() []*File {
	var out []*File
	// per-message file names are built from the lower-cased SHORT name: these collide
	out = append(out, &File{Base: "xcollide", Messages: []*Message{
		{Name: "Item", Fields: []Field{{Name: "a", Num: 1, Kind: KInt32, Card: Implicit}}},
		{Name: "ITEM", Fields: []Field{{Name: "b", Num: 1, Kind: KInt32, Card: Implicit}}},
	}})
	out = append(out, &File{Base: "xnestedcollide", Messages: []*Message{
		{Name: "A", Fields: []Field{{Name: "x", Num: 1, Kind: KMessage, Card: Implicit, Msg: "A.Inner"}},
			Nested: []*Message{{Name: "Inner", Fields: []Field{{Name: "a", Num: 1, Kind: KInt32, Card: Implicit}}}}},
		{Name: "B", Fields: []Field{{Name: "x", Num: 1, Kind: KMessage, Card: Implicit, Msg: "B.Inner"}},
			Nested: []*Message{{Name: "Inner", Fields: []Field{{Name: "b", Num: 1, Kind: KString, Card: Implicit}}}}},
	}})
	// a file that declares no message at all
	out = append(out, &File{Base: "xenumonly", Enum: true})
	// a field whose Go name is the name of a generated method
	out = append(out, &File{Base: "xsizefield", ParamV1: "specialname=Size", Messages: []*Message{
		{Name: "Sized", Fields: []Field{{Name: "size", Num: 1, Kind: KInt32, Card: Implicit}, {Name: "name", Num: 2, Kind: KString, Card: Implicit}}},
	}})
	// extension kinds and placements beyond the two matrix files
	out = append(out, &File{Base: "xextrepeated", Proto2: true, Messages: []*Message{
		{Name: "Base", ExtRange: true, Fields: []Field{{Name: "id", Num: 1, Kind: KInt64, Card: Optional}}},
		{Name: "Exts", Extends: []Ext{{Extendee: "Base", Field: Field{Name: "x_r", Num: 100, Kind: KInt32, Card: RepUnpacked}}}}}})
	out = append(out, &File{Base: "xextfile", Proto2: true, Messages: []*Message{
		{Name: "Base", ExtRange: true, Fields: []Field{{Name: "id", Num: 1, Kind: KInt64, Card: Optional}}}},
		FileExts: []Ext{{Extendee: "Base", Field: Field{Name: "file_level", Num: 100, Kind: KInt32, Card: Optional}}}})
	// a proto2 file whose only required field sits in a nested message definition
	out = append(out, &File{Base: "xnestedreq", Proto2: true, Messages: []*Message{
		{Name: "Outer", Fields: []Field{{Name: "i", Num: 1, Kind: KMessage, Card: Optional, Msg: "Outer.Inner"}, {Name: "n", Num: 2, Kind: KInt32, Card: Optional}},
			Nested: []*Message{{Name: "Inner", Fields: []Field{{Name: "a", Num: 1, Kind: KInt32, Card: Required}}}}}}})
	// message types imported from another file whose Go package name is not the last element of its import path
	dep := &File{Base: "xdep", SubDir: "v1", PkgName: "xdepv1", Messages: []*Message{
		{Name: "Meta", Fields: []Field{{Name: "a", Num: 1, Kind: KInt32, Card: Implicit}, {Name: "s", Num: 2, Kind: KString, Card: Implicit}}}}}
	out = append(out, dep)
	dep2 := &File{Base: "xdeptwo", SubDir: "v2", PkgName: "xdeptwov2", Proto2: true, Messages: []*Message{
		{Name: "Tag", Fields: []Field{{Name: "k", Num: 1, Kind: KString, Card: Optional}}}}}
	out = append(out, dep2)
	// two foreign packages in one generated file (the import block has an order)
	out = append(out, &File{Base: "ximporttwo", Imports: []*File{dep, dep2}, Messages: []*Message{
		{Name: "Both", Fields: []Field{
			{Name: "meta", Num: 1, Kind: KMessage, Card: Implicit, Msg: "Meta", MsgFile: "xdep"},
			{Name: "tag", Num: 2, Kind: KMessage, Card: Implicit, Msg: "Tag", MsgFile: "xdeptwo"},
			{Name: "tags", Num: 3, Kind: KMessage, Card: RepUnpacked, Msg: "Tag", MsgFile: "xdeptwo"}}}}})
	// several specialname= parameters (the only way to name more than one: protogen splits the parameter at commas)
	out = append(out, &File{Base: "xsizefield2", ParamV1: "specialname=Size,specialname=Reset", Messages: []*Message{
		{Name: "Sized", Fields: []Field{{Name: "size", Num: 1, Kind: KInt32, Card: Implicit}, {Name: "name", Num: 2, Kind: KString, Card: Implicit}}},
	}})
	// a NESTED message needs a foreign package, its enclosing message does not (per-message files: the import
	// belongs to the nested message's file only)
	out = append(out, &File{Base: "xnestimport", Imports: []*File{dep}, Messages: []*Message{
		{Name: "Outer", Fields: []Field{{Name: "id", Num: 1, Kind: KInt64, Card: Implicit}, {Name: "in", Num: 2, Kind: KMessage, Card: Implicit, Msg: "Outer.Inner"}},
			Nested: []*Message{{Name: "Inner", Fields: []Field{{Name: "meta", Num: 1, Kind: KMessage, Card: Implicit, Msg: "Meta", MsgFile: "xdep"}}}}},
		{Name: "Plain", Fields: []Field{{Name: "a", Num: 1, Kind: KInt32, Card: Implicit}}}}})
	// the ONLY reference to the foreign package is the value type of a map
	out = append(out, &File{Base: "xmapimport", Imports: []*File{dep}, Messages: []*Message{
		{Name: "Dir", Fields: []Field{
			{Name: "by", Num: 1, Kind: KMessage, Card: Map, MapKey: KString, MapVal: KMessage, MapMsg: "Meta", MsgFile: "xdep"},
			{Name: "id", Num: 2, Kind: KInt64, Card: Implicit}}}}})
	out = append(out, &File{Base: "ximport", Imports: []*File{dep}, Messages: []*Message{
		{Name: "User", Oneofs: []string{"pick"}, Fields: []Field{
			{Name: "meta", Num: 1, Kind: KMessage, Card: Implicit, Msg: "Meta", MsgFile: "xdep"},
			{Name: "metas", Num: 2, Kind: KMessage, Card: RepUnpacked, Msg: "Meta", MsgFile: "xdep"},
			{Name: "by", Num: 3, Kind: KMessage, Card: Map, MapKey: KString, MapVal: KMessage, MapMsg: "Meta", MsgFile: "xdep"},
			{Name: "p_meta", Num: 4, Kind: KMessage, Card: OneofMember, Oneof: 0, Msg: "Meta", MsgFile: "xdep"},
			{Name: "p_int", Num: 5, Kind: KInt32, Card: OneofMember, Oneof: 0},
			{Name: "id", Num: 6, Kind: KInt64, Card: Implicit}}}}})
	// deep nesting of definitions, snake and camel names, a message named like a Go keyword-ish identifier
	out = append(out, &File{Base: "xnames", Proto2: true, Messages: []*Message{
		{Name: "snake_case_msg", Fields: []Field{{Name: "some_field_name", Num: 1, Kind: KInt32, Card: Optional}, {Name: "URL", Num: 2, Kind: KString, Card: Optional}}},
		{Name: "Type", Fields: []Field{{Name: "type", Num: 1, Kind: KString, Card: Required}, {Name: "func", Num: 2, Kind: KBool, Card: Optional}}},
		{Name: "L1", Fields: []Field{{Name: "n", Num: 1, Kind: KMessage, Card: Optional, Msg: "L1.L2.L3"}},
			Nested: []*Message{{Name: "L2", Nested: []*Message{{Name: "L3", Fields: []Field{{Name: "v", Num: 1, Kind: KSFixed64, Card: RepPacked}}}}}}},
	}})
	return out
}

// Forest prints the message definition tree of the file: Name(Kid,Kid(Kid)) ...
func (f *File) Forest() string {
	var pr func(ms []*Message) string
	pr = func(ms []*Message) string {
		parts := make([]string, len(ms))
		for i, m := range ms {
			parts[i] = m.Name
			if len(m.Nested) > 0 {
				parts[i] += "(" + pr(m.Nested) + ")"
			}
		}
		return strings.Join(parts, ",")
	}
	s := pr(f.Messages)
	if s == "" {
		return "-"
	}
	return s
}
